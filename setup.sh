#!/bin/bash
# Build the stable part of the framework (lib/) and a first full model build, offline.
set -e
cd "$(dirname "$0")"
export VERIF_REPO="${VERIF_REPO:-/repo}"
export PYTHONPATH="$VERIF_REPO/src:$PWD" PYTHONHASHSEED=0
mkdir -p build evidence
/venv/bin/python -m tools.gen
cd coq
coq_makefile -f _CoqProject -o Makefile.coq $(ls lib/*.v gen/*.v model/*.v proofs/*.v props/*.v 2>/dev/null)
timeout 3000 make -f Makefile.coq -j16 -k || true
