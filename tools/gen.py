"""Regenerate coq/gen/*.v and build/ir.json from /repo's working tree (T1..T4)."""
from __future__ import annotations

import json
import os
import sys
import time

ROOT = os.path.dirname(os.path.dirname(os.path.abspath(__file__)))


def main():
    t0 = time.time()
    from tools.vtrace import emit, t1
    ir, tracer = t1.build_ir()
    comp = emit.emit_compute(ir)
    tabs, meta = emit.emit_tables(ir)
    ir["table_meta"] = meta
    gen = os.environ.get("VERIF_GEN_DIR") or os.path.join(ROOT, "coq", "gen")
    build = os.environ.get("VERIF_BUILD_DIR") or os.path.join(ROOT, "build")
    ch = [emit.write_if_changed(os.path.join(gen, "Compute.v"), comp),
          emit.write_if_changed(os.path.join(gen, "Tables.v"), tabs),
          emit.write_if_changed(os.path.join(gen, "Unfold.v"), emit.emit_unfold(ir)),
          emit.write_if_changed(os.path.join(gen, "Totality.v"), emit.emit_totality(ir, meta))]
    os.makedirs(build, exist_ok=True)
    # T3 in its own process (it re-wires the object backend)
    import subprocess
    objapi = os.path.join(build, "objapi.json")
    p3 = subprocess.run([sys.executable, "-m", "tools.vtrace.t3run", objapi], cwd=ROOT, capture_output=True, text=True, timeout=600)
    if p3.returncode != 0:
        print(p3.stdout[-2000:], p3.stderr[-4000:])
        raise RuntimeError("T3 (object API symbolic execution) failed")
    from tools.vtrace import emit_obj
    recs = json.load(open(objapi))
    aborted = [r for fam in recs.values() for r in fam if r["out"].get("kind") == "abort"]
    if aborted:
        raise RuntimeError(f"T3: {len(aborted)} API calls aborted on symbolic values, e.g. {aborted[0]}")
    # T5 in its own process as well (it captures the Numba registrations at import time)
    nbapi = os.path.join(build, "nbapi.json")
    p5 = subprocess.run([sys.executable, "-m", "tools.vtrace.t5run", nbapi], cwd=ROOT, capture_output=True, text=True, timeout=900)
    if p5.returncode != 0:
        print(p5.stdout[-2000:], p5.stderr[-4000:])
        raise RuntimeError("T5 (Numba overload layer symbolic execution) failed")
    t5stats = json.loads(p5.stdout.strip().splitlines()[-1])
    nbrecs = json.load(open(nbapi))
    nb_aborted = [r for r in nbrecs if "abort" in (r["nb"].get("kind"), r["py"].get("kind"))]
    if nb_aborted:
        raise RuntimeError(f"T5: {len(nb_aborted)} program points aborted on symbolic values, e.g. {json.dumps(nb_aborted[0])[:600]}")
    # T6: the NumPy backend on object-dtype arrays of symbolic values (own process: it re-wires both backends' lib)
    npapi = os.path.join(build, "npapi.json")
    p6 = subprocess.run([sys.executable, "-m", "tools.vtrace.t6run", npapi], cwd=ROOT, capture_output=True, text=True, timeout=900)
    if p6.returncode != 0:
        print(p6.stdout[-2000:], p6.stderr[-4000:])
        raise RuntimeError("T6 (NumPy backend symbolic execution) failed")
    t6stats = json.loads(p6.stdout.strip().splitlines()[-1])
    nprecs = json.load(open(npapi))
    sprecs = json.load(open(npapi.replace("npapi", "spapi")))
    nprecs_all = nprecs + sprecs
    redrecs = json.load(open(npapi.replace("npapi", "npreduce")))
    red_bad = [r for r in redrecs if r["out"].get("kind") != "elements"]
    if red_bad:
        raise RuntimeError(f"T6: {len(red_bad)} reductions did not run symbolically, e.g. {json.dumps(red_bad[0])[:600]}")
    np_bad = [r for r in nprecs_all if r["np"].get("kind") in ("abort", "other") or r["py"].get("kind") in ("abort", "other")]
    if np_bad:
        raise RuntimeError(f"T6: {len(np_bad)} program points could not be described symbolically, e.g. {json.dumps(np_bad[0])[:600]}")
    from tools.vtrace import emit_nb
    api_v, names_v, bin_v, more = emit_obj.emit(recs, ir, extra=lambda simp: dict(emit_nb.emit(nbrecs, simp), **emit_nb.emit_np(nprecs, simp),
                                                                                   **emit_nb.emit_np(sprecs, simp, prefix="Sp", tab="sp_tab", what="T6): the SymPy backend's glue executed with the recording lib, next to the object backend"),
                                                                                   **emit_nb.emit_reduce(redrecs, simp)))
    for fn, txt in more.items():
        ch.append(emit.write_if_changed(os.path.join(gen, fn), txt))
    import glob
    for stale in glob.glob(os.path.join(gen, "NbApi_*.v")) + glob.glob(os.path.join(gen, "NpApi_*.v")) + glob.glob(os.path.join(gen, "SpApi_*.v")):
        if os.path.basename(stale) not in more:
            for ext in ("", "o", "ok", "os"):
                if os.path.exists(stale + ext):
                    os.remove(stale + ext)
    ch.append(emit.write_if_changed(os.path.join(gen, "ObjApiBin.v"), bin_v))
    ch.append(emit.write_if_changed(os.path.join(gen, "ObjApi.v"), api_v))
    ch.append(emit.write_if_changed(os.path.join(gen, "ObjNames.v"), names_v))
    t3counts = {k: len(v) for k, v in recs.items()}
    from tools.vtrace import t2
    eff_v, eff_meta = t2.emit()
    ch.append(emit.write_if_changed(os.path.join(gen, "EffectSkel.v"), eff_v))
    json.dump(eff_meta, open(os.path.join(build, "t2.json"), "w"), indent=1)
    emit.write_if_changed(os.path.join(build, "ir.json"), json.dumps(ir))
    from tools.vtrace import validate
    seed = int(os.environ.get("VERIF_SEED", "0") or 0)
    val = validate.validate(ir, tracer, seed=seed, per_fn=int(os.environ.get("VERIF_T1_SAMPLES", "7")))
    json.dump(val, open(os.path.join(build, "t1_validation.json"), "w"))
    if val["n_mismatches"]:
        print("T1-VALIDATION-FAILED", json.dumps(val["mismatches"][:3]))
        sys.exit(4)
    print(json.dumps({"t1_validation_evaluations": val["evaluations"], "strata": val["strata"]}))
    print(json.dumps({"functions": len(ir["functions"]), "entries": sum(len(t["entries"]) for t in ir["tables"].values()),
                      "audited": ir["audited"], "t3_records": t3counts, "t5": t5stats, "t6": t6stats, "changed": ch, "wall_s": round(time.time() - t0, 2)}))


if __name__ == "__main__":
    try:
        main()
    except Exception as e:  # fail-closed: the driver treats this like a broken proof
        import traceback
        traceback.print_exc()
        print("GEN-FAILED:", type(e).__name__, e)
        sys.exit(3)
