"""Run the repository's pinned suite and compare with /root/.vp/BASELINE.json stable_pass."""
import json, os, subprocess, sys, tempfile
import xml.etree.ElementTree as ET
b = json.load(open("/root/.vp/BASELINE.json"))
out = tempfile.mktemp(suffix=".xml", dir="/tmp")
env = {k: v for k, v in os.environ.items() if k not in ("VECTOR_VERIF", "PYTHONPATH")}
cmd = b["cmd"].replace("<file>", out)
if len(sys.argv) > 1:  # run against a scratch worktree instead of /repo
    cmd = cmd.replace("cd /repo", "cd " + sys.argv[1])
    env["PYTHONPATH"] = sys.argv[1] + "/src"
subprocess.run(cmd, shell=True, env=env, stdout=subprocess.DEVNULL, stderr=subprocess.DEVNULL)
passed = set()
for tc in ET.parse(out).getroot().iter("testcase"):
    if not any(c.tag in ("failure", "error", "skipped") for c in tc):
        passed.add(f"{tc.get('classname')}::{tc.get('name')}")
os.remove(out)
missing = [t for t in b["stable_pass"] if t not in passed]
print(json.dumps({"stable_pass": len(b["stable_pass"]), "passed_now": len(passed), "missing": missing[:20], "n_missing": len(missing)}))
sys.exit(1 if missing else 0)
