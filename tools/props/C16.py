"""C16 — operations never modify their operands: bit-level snapshots of every operand around every catalogued call."""
from __future__ import annotations

import numpy

from tools import arrayharness as AH
from tools import harness as H

COQ_TARGETS = ["props/C16.vo"]
RULE = ("every getter, unary method (incl. negative and array-valued scalar arguments), binary operation on every backend pairing, "
        "conversion, comparison and reduction of the catalogue; operands snapshotted before and after: object slots, NumPy bytes + dtype "
        "+ class, Awkward to_list + type + form; per coordinate system and flavor; distinct = distinct (container(s), operation, system, flavor)")
ASSUMPTIONS = ["buffer aliasing inside NumPy / Awkward is only visible through these snapshots (the model cannot exhibit it)"]


def run(ctx):
    import awkward as ak
    import vector
    deep = ctx.tier == "thorough" or bool(ctx.broken)
    st = AH.run_agreement(ctx, ctx.seed, deep, values=False, snapshots=True, prop="C16")
    n = st["evaluations"]
    # reductions, comparisons and conversions with snapshots
    with numpy.errstate(all="ignore"):
        for dim in (2, 3, 4):
            for names in H.SYS[dim]:
                for mom in (False, True):
                    rng = H.rng_for(ctx.seed, "C16r", names, mom)
                    pts = [AH.point(rng, names, dim) for _ in range(4)]
                    keyn = [H.MOM.get(k, k) if mom else k for k in names]
                    a = vector.array({kn: numpy.array([p[nm] for p in pts]) for nm, kn in zip(names, keyn)}).reshape(2, 2)
                    A = vector.Array(ak.Array([[AH.rec(names, p, mom, {"charge": 1}) for p in pts[:3]], [], [AH.rec(names, pts[3], mom, {"charge": -1})]]))
                    o = H.obj(vector, names, pts[0], momentum=mom)
                    site0 = f"{dim}D:{H.sysname(names)}:{'momentum' if mom else 'generic'}"
                    calls = [("numpy.sum", a, lambda: numpy.sum(a, axis=0)), ("numpy.sum:None", a, lambda: a.sum()), ("numpy.count_nonzero", a, lambda: numpy.count_nonzero(a, axis=1)),
                             ("ak.sum", A, lambda: ak.sum(A, axis=1)), ("ak.count_nonzero", A, lambda: ak.count_nonzero(A, axis=1)), ("ak.count", A, lambda: ak.count(A, axis=1)),
                             ("numpy ==", a, lambda: a == a), ("numpy isclose", a, lambda: a.isclose(a)), ("awkward ==", A, lambda: A == A), ("awkward isclose", A, lambda: A.isclose(A)),
                             ("object ==", o, lambda: o == o), ("object to_xyzt", o, lambda: o.to_xyzt()), ("object like", o, lambda: o.like(vector.obj(x=1, y=2))),
                             ("numpy to_rhophietatau", a, lambda: a.to_rhophietatau()), ("awkward to_Vector4D", A, lambda: A.to_Vector4D()),
                             ("numpy asarray", a, lambda: numpy.asarray(a)), ("numpy a[0]", a, lambda: a[0]), ("awkward A[0]", A, lambda: A[0]),
                             ("numpy negative", a, lambda: -a), ("awkward negative", A, lambda: -A), ("numpy scale(-2)", a, lambda: a * -2.0), ("awkward scale(-2)", A, lambda: A * -2.0),
                             ("numpy view momentum", a, lambda: a.view(type(a))),
                             # scalar-valued ufuncs of a vector (abs, square, sqrt, cbrt, power with 2 / 3 / 0.5 / array exponents)
                             ("numpy abs", a, lambda: abs(a)), ("numpy square", a, lambda: numpy.square(a)), ("numpy sqrt", a, lambda: numpy.sqrt(a)),
                             ("numpy cbrt", a, lambda: numpy.cbrt(a)), ("numpy **2", a, lambda: a ** 2), ("numpy **3", a, lambda: a ** 3),
                             ("numpy **0.5", a, lambda: a ** 0.5), ("numpy power 2", a, lambda: numpy.power(a, 2)), ("numpy power 3", a, lambda: numpy.power(a, 3)),
                             ("numpy power array", a, lambda: numpy.power(a, numpy.array([[2.0, 3.0], [0.5, 1.0]]))),
                             ("awkward abs", A, lambda: abs(A)), ("awkward **2", A, lambda: A ** 2), ("awkward **3", A, lambda: A ** 3),
                             ("awkward power 3", A, lambda: numpy.power(A, 3)), ("awkward sqrt", A, lambda: numpy.sqrt(A)),
                             ("object abs", o, lambda: abs(o)), ("object **2", o, lambda: o ** 2), ("object **3", o, lambda: o ** 3),
                             ("object power 3", o, lambda: numpy.power(o, 3)), ("object sqrt", o, lambda: numpy.sqrt(o)),
                             ("numpy *=-like scale", a, lambda: numpy.multiply(a, 2.0)), ("numpy true_divide", a, lambda: numpy.true_divide(a, 2.0)),
                             ("numpy unit", a, lambda: a.unit()), ("awkward unit", A, lambda: A.unit()),
                             ("numpy to_beta3", a, lambda: a.to_beta3() if dim == 4 else None), ("numpy boostX", a, lambda: a.boostX(beta=0.3) if dim == 4 else None)]
                    for nm, operand, f in calls:
                        n += 1
                        before = AH.snapshot(operand)
                        try:
                            f()
                        except Exception:
                            pass
                        if AH.snapshot(operand) != before:
                            ctx.fail(f"{site0}:{nm}:operand_modified", f"{nm} changed its operand", {"points": pts})
    ctx.coverage["evaluations"] = n
    ctx.coverage["distinct_nontrivial"] = st["distinct"]
    ctx.coverage["samples"] = [{"snapshot_kinds": ["object slots", "numpy bytes+dtype+class", "awkward to_list+type+form"]}]
    ctx.coverage["correspondences"] = {"operand snapshots before/after every catalogued call": {"ok": not ctx.failures}}


def replay(rec):
    return {"site": (rec.get("failure") or {}).get("site"), "what": (rec.get("failure") or {}).get("what"), "still_fails": None}
