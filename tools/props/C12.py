"""C12 — equality / inequality / closeness: correspondence and search on the real code."""
from __future__ import annotations

import itertools

import numpy

from tools import harness as H

COQ_TARGETS = ["props/C12.vo"]
RULE = ("real-code cases: (dimension, system pairing, stratum) with the second operand identical / differing in one / "
        "several stored components / exactly convertible across systems; a case is non-trivial when the two operands "
        "are distinct objects; distinct = distinct (dim, sig1, sig2, stratum, variant) tuples")
ASSUMPTIONS = ["NaN-free operands (the property's own proviso)",
               "numpy / awkward apply ==, !=, isclose element by element (library semantics)"]
TRUSTED = ["BoolLaws: comparisons of the carrier form a decidable equivalence (true of reals and NaN-free floats)"]

EXACT = {  # points whose conversions are exact in float64: used for cross-system == True cases
    2: [(2.0, 0.0, 0.0, 0.0), (0.0, 0.0, 0.0, 0.0)],
    3: [(3.0, 0.0, 0.0, 0.0), (2.0, 0.0, 0.0, 0.0)],
    4: [(3.0, 0.0, 0.0, 5.0), (1.0, 0.0, 0.0, 1.0)],
}


def variants(rng, names, coords):
    """second operand's stored coordinates derived from the first's"""
    out = [("identical", dict(coords))]
    for n in names:
        c = dict(coords)
        c[n] = c[n] + rng.choice([1.0, -0.5, 1e-9, 1e-3])
        out.append((f"one:{n}", c))
    c = {n: v + rng.uniform(0.1, 1) for n, v in coords.items()}
    out.append(("all", c))
    if len(names) > 2:
        c = dict(coords)
        for n in rng.sample(list(names), 2):
            c[n] += 0.25
        out.append(("several", c))
    return out


def check_pair(ctx, vector, dim, n1, n2, a, b, tag, stats, tol):
    site = f"object:{dim}D:{H.sysname(n1)}|{H.sysname(n2)}"
    inp = {"a": repr(a), "b": repr(b), "case": tag}
    stats["evaluations"] += 1
    eq, ne = a == b, a != b
    if bool(ne) != (not bool(eq)):
        ctx.fail(site + ":ne_is_not_negation", f"a != b is {ne} while a == b is {eq}", inp)
    if bool(eq) != bool(b == a):
        ctx.fail(site + ":eq_not_symmetric", f"a == b is {eq}, b == a is {b == a}", inp)
    if not (bool(a.equal(b)) == bool(eq) == bool(numpy.equal(a, b))):
        ctx.fail(site + ":operator_vs_method:eq", "==, .equal, numpy.equal disagree", inp)
    if not (bool(a.not_equal(b)) == bool(ne) == bool(numpy.not_equal(a, b))):
        ctx.fail(site + ":operator_vs_method:ne", "!=, .not_equal, numpy.not_equal disagree", inp)
    if n1 == n2:
        stored = all(getattr(a, n) == getattr(b, n) for n in n1)
        if bool(eq) != stored:
            ctx.fail(site + ":same_system_eq", f"== is {eq} but stored coordinates equal is {stored}", inp)
    rtol, atol, rtol2, atol2 = tol
    c1 = a.isclose(b, rtol=rtol, atol=atol)
    c2 = a.isclose(b, rtol=rtol2, atol=atol2)
    if bool(eq) and not bool(c1):
        ctx.fail(site + ":eq_implies_isclose", "a == b but not a.isclose(b)", dict(inp, rtol=rtol, atol=atol))
    if bool(c1) and not bool(c2):
        ctx.fail(site + ":isclose_monotone", "isclose became stricter when tolerances grew",
                 dict(inp, tol=[rtol, atol, rtol2, atol2]))
    if n1 == n2:
        want = all(abs(getattr(a, n) - getattr(b, n)) <= atol + rtol * abs(getattr(b, n)) for n in n1)
        got = bool(c1)
        # float rounding of the bound itself: compare with numpy's own evaluation of the same formula
        want_np = all(bool(numpy.isclose(getattr(a, n), getattr(b, n), rtol, atol)) for n in n1)
        if got != want_np:
            ctx.fail(site + ":same_system_isclose", f"isclose is {got}, per-coordinate formula gives {want_np} ({want})",
                     dict(inp, rtol=rtol, atol=atol))
    return eq


def arrays_agree(ctx, vector, dim, n1, n2, A, B, stats):
    """NumPy and Awkward results equal the object results element by element."""
    import awkward as ak
    cols1 = {n: numpy.array([a[n] for a in A]) for n in n1}
    cols2 = {n: numpy.array([b[n] for b in B]) for n in n2}
    objs = [(H.obj(vector, n1, a), H.obj(vector, n2, b)) for a, b in zip(A, B)]
    want = {"eq": [bool(a == b) for a, b in objs], "ne": [bool(a != b) for a, b in objs],
            "close": [bool(a.isclose(b)) for a, b in objs]}
    site = f"{dim}D:{H.sysname(n1)}|{H.sysname(n2)}"
    for backend in ("numpy", "awkward"):
        if backend == "numpy":
            va, vb = vector.array(cols1), vector.array(cols2)
            conv = lambda r: [bool(x) for x in numpy.asarray(r)]  # noqa: E731
        else:
            va, vb = vector.Array(ak.zip(cols1)), vector.Array(ak.zip(cols2))
            conv = lambda r: [bool(x) for x in ak.to_list(r)]  # noqa: E731
        got = {"eq": conv(va == vb), "ne": conv(va != vb), "close": conv(va.isclose(vb)),
               "eq_m": conv(va.equal(vb)), "ne_m": conv(va.not_equal(vb)), "eq_np": conv(numpy.equal(va, vb)),
               "ne_np": conv(numpy.not_equal(va, vb))}
        stats["evaluations"] += len(A)
        for k, w in (("eq", "eq"), ("ne", "ne"), ("close", "close"), ("eq_m", "eq"), ("ne_m", "ne"), ("eq_np", "eq"), ("ne_np", "ne")):
            if got[k] != want[w]:
                i = next(i for i, (g, x) in enumerate(zip(got[k], want[w])) if g != x)
                ctx.fail(f"{backend}:{site}:{k}", f"element {i}: {backend} gives {got[k][i]}, object backend gives {want[w][i]}",
                         {"a": A[i], "b": B[i], "names": [n1, n2]})
        if backend == "numpy":
            if bool(va.allclose(vb)) != all(want["close"]) or bool(numpy.allclose(va, vb)) != all(want["close"]):
                ctx.fail(f"numpy:{site}:allclose", "allclose differs from all(isclose)", {"A": A, "B": B})
            if conv(numpy.isclose(va, vb)) != want["close"]:
                ctx.fail(f"numpy:{site}:numpy.isclose", "numpy.isclose differs from the object backend", {"A": A, "B": B})


def run(ctx):
    import vector
    deep = ctx.tier == "thorough" or bool(ctx.broken)
    reps = 6 if deep else 2
    stats = {"evaluations": 0}
    distinct = set()
    samples = []
    n_true = 0
    with numpy.errstate(all="ignore"):
        for dim in (2, 3, 4):
            for n1, n2 in H.pairs(dim):
                rng = H.rng_for(ctx.seed, "C12", dim, n1, n2)
                batchA, batchB = [], []
                for stratum in H.STRATA:
                    for rep in range(reps):
                        cart = H.cart_stratum(rng, stratum, dim)
                        ca = H.from_cart(n1, *cart)
                        a = H.obj(vector, n1, ca, momentum=(rep % 2 == 1))
                        tol = sorted([rng.choice([0, 1e-9, 1e-5, 1e-2]), rng.choice([0, 1e-9, 1e-5, 1e-2, 1.0])])
                        tol = (tol[0], rng.choice([0, 1e-8, 1e-3]), tol[1], 1e-3 + rng.choice([0, 1.0]))
                        if n1 == n2:
                            for tag, cb in variants(rng, n1, ca):
                                b = H.obj(vector, n2, cb)
                                n_true += bool(check_pair(ctx, vector, dim, n1, n2, a, b, f"{stratum}:{tag}", stats, tol))
                                distinct.add((dim, n1, n2, stratum, tag))
                                batchA.append(ca), batchB.append(cb)
                        else:
                            cart2 = cart if rep % 2 == 0 else H.cart_stratum(rng, stratum, dim)
                            cb = H.from_cart(n2, *cart2)
                            b = H.obj(vector, n2, cb)
                            n_true += bool(check_pair(ctx, vector, dim, n1, n2, a, b, f"{stratum}:cross{rep % 2}", stats, tol))
                            distinct.add((dim, n1, n2, stratum, f"cross{rep % 2}"))
                            batchA.append(ca), batchB.append(cb)
                        if len(samples) < 6 and rep == 0 and stratum == "quadrants":
                            samples.append({"a": repr(a), "b": repr(b), "a==b": bool(a == b), "a!=b": bool(a != b)})
                for cart in EXACT[dim]:
                    ca, cb = H.from_cart(n1, *cart), H.from_cart(n2, *cart)
                    a, b = H.obj(vector, n1, ca), H.obj(vector, n2, cb)
                    n_true += bool(check_pair(ctx, vector, dim, n1, n2, a, b, "exact", stats, (1e-5, 1e-8, 1e-3, 1e-3)))
                    distinct.add((dim, n1, n2, "exact", cart))
                    batchA.append(ca), batchB.append(cb)
                if deep or (hash((n1, n2)) + ctx.seed) % 4 == 0 or dim < 4:
                    arrays_agree(ctx, vector, dim, n1, n2, batchA, batchB, stats)
    with numpy.errstate(all="ignore"):
        allclose_lattice(ctx, vector, stats)
    ctx.coverage["evaluations"] = stats["evaluations"]
    ctx.coverage["distinct_nontrivial"] = len(distinct)
    ctx.coverage["equal_true_cases"] = n_true
    ctx.coverage["samples"] = samples
    ctx.coverage["correspondences"] = {
        "object backend: operators == methods == numpy functions; laws on stratified operands": {"ok": not ctx.failures},
        "numpy/awkward elementwise == object": {"ok": not any(f["site"].startswith(("numpy", "awkward")) for f in ctx.failures)},
    }


def allclose_lattice(ctx, vector, stats):
    """allclose = all(isclose), with the caller's rtol AND atol, on every backend class (6 NumPy, 6 Awkward classes, objects):
    same-system pairs that differ in ONE stored coordinate by d, expected |a-b| <= atol + rtol*|b| computed here"""
    import awkward as ak
    TOLS = [(1e-5, 1e-8), (1e-5, 1e-2), (0.0, 1e-2), (1e-2, 0.0), (1e-3, 1e-6), (0.5, 2.0)]
    DIFFS = [0.0, 3e-6, 3e-3, 0.3, 1.5]
    for dim in (2, 3, 4):
        for si, names in enumerate(H.SYS[dim]):
            for mom in (False, True):
                rng = H.rng_for(ctx.seed, "C12allclose", names, mom)
                base = [H.from_cart(names, *H.cart_stratum(rng, "quadrants", dim)) for _ in range(3)]
                keys = [H.MOM.get(k, k) if mom else k for k in names]
                for ci, cname in enumerate(names):
                    for d in DIFFS:
                        other = [dict(p) for p in base]
                        other[1][cname] = other[1][cname] + d
                        for rtol, atol in TOLS:
                            want = all(abs(p[k] - q[k]) <= atol + rtol * abs(q[k]) for p, q in zip(base, other) for k in names)
                            A = {kn: numpy.array([p[k] for p in base]) for k, kn in zip(names, keys)}
                            B = {kn: numpy.array([p[k] for p in other]) for k, kn in zip(names, keys)}
                            na, nb = vector.array(A), vector.array(B)
                            aa, ab = vector.Array(ak.zip(A)), vector.Array(ak.zip(B))
                            oa, ob = H.obj(vector, names, base[1], momentum=mom), H.obj(vector, names, other[1], momentum=mom)
                            owant = all(abs(base[1][k] - other[1][k]) <= atol + rtol * abs(other[1][k]) for k in names)
                            got = {"numpy.allclose method": bool(na.allclose(nb, rtol=rtol, atol=atol)),
                                   "numpy.allclose function": bool(numpy.allclose(na, nb, rtol=rtol, atol=atol)),
                                   "numpy all(isclose)": bool(numpy.all(na.isclose(nb, rtol=rtol, atol=atol))),
                                   "awkward.allclose method": bool(aa.allclose(ab, rtol=rtol, atol=atol)),
                                   "awkward all(isclose)": bool(ak.all(aa.isclose(ab, rtol=rtol, atol=atol)))}
                            stats["evaluations"] += 6
                            for k_, v in got.items():
                                if v != want:
                                    ctx.fail(f"allclose:{k_}:{dim}D:{H.sysname(names)}:{'momentum' if mom else 'generic'}",
                                             f"{k_}(rtol={rtol}, atol={atol}) = {v} for arrays differing by {d} in {cname}; |a-b| <= atol + rtol|b| gives {want}",
                                             {"a": base, "b": other, "rtol": rtol, "atol": atol})
                            og = bool(oa.isclose(ob, rtol=rtol, atol=atol))
                            if og != owant:
                                ctx.fail(f"allclose:object.isclose:{dim}D:{H.sysname(names)}", f"isclose(rtol={rtol}, atol={atol}) = {og}, by hand {owant}", {"a": base[1], "b": other[1]})


_run_without_compiled = run


def run(ctx):
    _run_without_compiled(ctx)
    from tools import nbrows
    nbrows.check(ctx, ['equal', '==', 'not_equal', '!=', 'isclose', 'isclose_tol'], 'the comparisons')


def replay(rec):
    import vector  # noqa: F401
    f = rec.get("failure") or {}
    inp = f.get("input") or {}
    out = {"site": f.get("site"), "input": inp}
    if "a" in inp and isinstance(inp["a"], str):
        ns = {"VectorObject2D": vector.VectorObject2D, "VectorObject3D": vector.VectorObject3D,
              "VectorObject4D": vector.VectorObject4D, "MomentumObject2D": vector.MomentumObject2D,
              "MomentumObject3D": vector.MomentumObject3D, "MomentumObject4D": vector.MomentumObject4D,
              "inf": float("inf"), "nan": float("nan")}
        a, b = eval(inp["a"], ns), eval(inp["b"], ns)
        out.update({"a==b": bool(a == b), "a!=b": bool(a != b), "isclose": bool(a.isclose(b))})
        out["still_fails"] = bool(a != b) != (not bool(a == b)) if "ne_is_not_negation" in f.get("site", "") else None
    return out
