"""C19 — NumPy vector arrays as arrays of vectors: exhaustive-lattice correspondence with the real backend."""
from __future__ import annotations

import copy
import pickle

import numpy

from tools import harness as H

COQ_TARGETS = ["props/C19.vo"]
RULE = ("all 20 coordinate systems x 2 flavors x shapes (4,), (2,3), (2,2,2), (0,), () x index kinds (every integer index, "
        "slices, boolean masks, reshape, view, transpose, field name and every momentum synonym, obj<->array, asarray / "
        "asanyarray, pickle, copy, deepcopy); values compared bit for bit; distinct = distinct (system, flavor, shape, kind)")
ASSUMPTIONS = ["NumPy's own indexing / view semantics"]
GEN = {"px": "x", "py": "y", "pt": "rho", "pz": "z", "E": "t", "e": "t", "energy": "t", "M": "tau", "m": "tau", "mass": "tau"}
SYN = {"x": ["px"], "y": ["py"], "rho": ["pt"], "z": ["pz"], "t": ["E", "e", "energy"], "tau": ["M", "m", "mass"]}


def obj_sys(o):
    from vector._methods import _aztype, _coordinate_class_to_names, _ltype, _ttype
    n = list(_coordinate_class_to_names[_aztype(o)])
    if hasattr(o, "longitudinal"):
        n += _coordinate_class_to_names[_ltype(o)]
    if hasattr(o, "temporal"):
        n += _coordinate_class_to_names[_ttype(o)]
    return n


def run(ctx):
    import vector
    n = 0
    distinct = set()
    samples = []
    for dim in (2, 3, 4):
        for names in H.SYS[dim]:
            for mom in (False, True):
                sysn = H.sysname(names)
                keyn = [H.MOM.get(k, k) if mom else k for k in names]
                for shape in ((4,), (2, 3), (2, 2, 2), (0,), ()):
                    rng = H.rng_for(ctx.seed, "C19", names, mom, shape)
                    size = int(numpy.prod(shape)) if shape else 1
                    cols = {kn: numpy.array([rng.uniform(0.1, 3) for _ in range(size)]).reshape(shape) for kn in keyn}
                    a = vector.array(cols)
                    site0 = f"{dim}D:{sysn}:{'momentum' if mom else 'generic'}:shape={shape}"
                    cls = type(a)
                    n += 1
                    distinct.add(site0)

                    def same_array(b, idx, kind):
                        """b must be the same class/system/flavor holding cols[idx]"""
                        if type(b) is not cls:
                            ctx.fail(f"{site0}:{kind}", f"class {cls.__name__} -> {type(b).__name__}", {})
                            return
                        for nm, kn in zip(names, keyn):
                            want = cols[kn][idx] if idx is not None else cols[kn]
                            got = numpy.asarray(b[nm]) if b.dtype.names else None
                            if got is None or got.shape != numpy.asarray(want).shape or not numpy.array_equal(got, want):
                                ctx.fail(f"{site0}:{kind}", f"column {nm} differs", {"columns": {k: v.tolist() for k, v in cols.items()}})
                                return
                    # integer indices -> vector objects
                    if shape and size:
                        for idx in numpy.ndindex(*shape):
                            o = a[idx if len(idx) > 1 else idx[0]]
                            n += 1
                            okc = isinstance(o, vector.backends.object.VectorObject) and ("Momentum" in type(o).__name__) == mom and type(o).__name__.endswith(f"{dim}D")
                            if not okc or obj_sys(o) != list(names) or any(getattr(o, nm) != cols[kn][idx] for nm, kn in zip(names, keyn)):
                                ctx.fail(f"{site0}:int_index", f"a[{idx}] = {o!r} (system {obj_sys(o) if okc else '?'}), stored {[cols[kn][idx] for kn in keyn]} as {list(names)}", {"index": list(idx)})
                                break
                    if shape == ():
                        o = a[()]
                        if not isinstance(o, vector.backends.object.VectorObject) or obj_sys(o) != list(names):
                            ctx.fail(f"{site0}:int_index", f"a[()] = {o!r}", {})
                    if shape and size:
                        sl = (slice(1, None),) if len(shape) == 1 else (slice(None), slice(0, 1))
                        same_array(a[sl if len(sl) > 1 else sl[0]], sl if len(sl) > 1 else sl[0], "slice")
                        m = numpy.zeros(shape, dtype=bool)
                        m.flat[::2] = True
                        same_array(a[m], m, "mask")
                        b = a.reshape(-1)
                        if type(b) is not cls or any(not numpy.array_equal(numpy.asarray(b[nm]), cols[kn].reshape(-1)) for nm, kn in zip(names, keyn)):
                            ctx.fail(f"{site0}:reshape", "reshape(-1) changed class or values", {})
                        same_array(a.view(), None, "view")
                        same_array(a.T.T, None, "transpose")
                        same_array(numpy.asanyarray(a), None, "asanyarray")
                    # field names and synonyms -> the stored column
                    for nm, kn in zip(names, keyn):
                        keys = {nm, kn} | (set(SYN.get(nm, [])) if mom else set())
                        for key in keys:
                            n += 1
                            try:
                                col = a[key]
                            except Exception as e:
                                ctx.fail(f"{site0}:field[{key}]", f"raises {type(e).__name__}", {})
                                continue
                            if isinstance(col, vector._methods.Vector) or not numpy.array_equal(numpy.asarray(col), cols[kn]):
                                ctx.fail(f"{site0}:field[{key}]", "a[name] is not the stored column", {})
                    # asarray: plain structured array with the same fields
                    p = numpy.asarray(a)
                    if type(p) is not numpy.ndarray or [GEN.get(f, f) for f in p.dtype.names] != list(names):
                        ctx.fail(f"{site0}:asarray", f"numpy.asarray gives {type(p).__name__} with fields {p.dtype.names}", {})
                    # pickle / copy
                    for kind, f in (("pickle", lambda x: pickle.loads(pickle.dumps(x))), ("copy", copy.copy), ("deepcopy", copy.deepcopy), (".copy()", lambda x: x.copy())):
                        n += 1
                        try:
                            b = f(a)
                        except Exception as e:
                            ctx.fail(f"{site0}:{kind}", f"raises {type(e).__name__}: {e}"[:200], {})
                            continue
                        if type(b) is not cls or b.dtype != a.dtype or b.shape != a.shape or not numpy.array_equal(numpy.asarray(b), numpy.asarray(a)):
                            ctx.fail(f"{site0}:{kind}", f"round trip gives {type(b).__name__} dtype {b.dtype}", {})
                # object -> array form
                rng = H.rng_for(ctx.seed, "C19o", names, mom)
                o = H.obj(vector, names, {k: rng.uniform(0.1, 3) for k in names}, momentum=mom)
                n += 1
                arr = numpy.asanyarray(o)
                back = arr[()] if arr.shape == () else arr[0]
                if not isinstance(arr, vector.backends.numpy.VectorNumpy) or isinstance(arr, vector._methods.Momentum) != mom or [GEN.get(f, f) for f in arr.dtype.names] != list(names) \
                        or not isinstance(back, vector.backends.object.VectorObject) or repr(back) != repr(o):
                    ctx.fail(f"{dim}D:{sysn}:{'momentum' if mom else 'generic'}:obj_to_array", f"asanyarray(obj) = {arr!r}; element {back!r}; object {o!r}", {})
                pl = numpy.asarray(o)
                if [GEN.get(f, f) for f in (pl.dtype.names or [])] != list(names):
                    ctx.fail(f"{dim}D:{sysn}:{'momentum' if mom else 'generic'}:obj_asarray", f"numpy.asarray(obj) fields {pl.dtype.names}", {})
                if len(samples) < 3 and dim == 3 and mom:
                    samples.append({"object": repr(o), "asanyarray": repr(arr)})
    ctx.coverage["evaluations"] = n
    ctx.coverage["distinct_nontrivial"] = len(distinct)
    ctx.coverage["exhaustive"] = True
    ctx.coverage["samples"] = samples
    ctx.coverage["correspondences"] = {"NumPy backend indexing/views/fields/pickle vs the array-of-records model": {"ok": not ctx.failures}}


def replay(rec):
    return {"site": (rec.get("failure") or {}).get("site"), "what": (rec.get("failure") or {}).get("what"), "still_fails": None}
