"""C07 — Numba-compiled code behaves like the interpreter.

Deciding step: Coq theorems over gen/NbApi*.v, the table of every program point executed symbolically through the
Numba overload layer (T5, typing level) and through the interpreter (props/C07.v).  This harness
  * mirrors the row classification in Python to name the points that disagree and confirms each kind on the REAL
    code with a compiled probe (the replay of a violation / of a known finding);
  * validates the typing-level executor T5 against real `numba.njit` compilation on a seeded sample of program points
    (class, stored coordinates, values);
  * checks the Awkward typer (record field names -> VectorObject type) over the name-set lattice without compiling,
    and runs a few compiled loops over Awkward arrays of vectors.
"""
from __future__ import annotations

import json
import os
import random

COQ_TARGETS = ["props/C07.vo"]
RULE = ("program points = getters, keyword-free conversions, unary / binary methods and operators, numpy ufuncs, vector.obj name sets, "
        "chains of 2-3 calls; lattice = 20 coordinate systems x 2 flavors (x second operand: full same-dimension lattice for the "
        "result-typing methods, generic flavors for scalar-valued ones, one representative pairing per mixed dimension); "
        "distinct = distinct (family, name, signatures) points on which both paths return")
ASSUMPTIONS = ["the LLVM code Numba generates for a compute function computes what its Python source says (exercised by the compiled probes only)",
               "Numba resolves attributes by MRO / registration order and tries non-literal before literal typing unless prefer_literal (mirrored by T5, validated by the probes)",
               "boxing / unboxing of vector objects is the identity on (class, coordinates) (exercised by every probe)"]
TRUSTED = ["translator tools/vtrace/t5.py (typing-level executor of _numba_object.py), validated against real compilation on this run",
           "compiled probes tools/nbprobe.py"]
ROOT = os.path.dirname(os.path.dirname(os.path.dirname(os.path.abspath(__file__))))
SYM_OPS = ("==", "!=")
FLAVOR_METHODS = ("add", "+", "subtract", "-", "cross", "np_add", "np_subtract", "boost", "boost_p4", "boost_beta3", "boostCM_of",
                  "boostCM_of_p4", "boostCM_of_beta3")
UNREGISTERED = ("e", "e2", "et", "et2", "m", "m2", "mt", "mt2")


def returns(o):
    return o["kind"] in ("vector", "scalar")


def strip(o):
    o = {k: v for k, v in o.items() if k != "msg"}
    return o


def unflavor(o):
    o = dict(o)
    if o.get("kind") == "vector":
        o["cls"] = o["cls"].replace("Momentum", "Vector")
    return o


def classify(r):
    nb, py = strip(r["nb"]), strip(r["py"])
    if not returns(py):
        return "py-raises-nb-returns" if returns(nb) else "both-fail"
    if not returns(nb):
        if r["fam"] == "chain" and len(r["srcs"]) == 2 and r["srcs"][0]["momentum"] != r["srcs"][1]["momentum"]:
            return "known-flavor"      # a momentum-only attribute read from an intermediate that the compiled path made generic
        if r["fam"] == "chain" and r["name"].rsplit(":", 1)[-1] in UNREGISTERED:
            return "unregistered"
        return "unregistered" if r["name"] in UNREGISTERED else "nb-unsupported"
    if nb == py:
        return "agree"
    if r["fam"] == "binary" and r["name"] in SYM_OPS:
        return "reflected-eq"          # decided in Coq against the method rows (C12 symmetry)
    if unflavor(nb) == unflavor(py):
        mixed = len(r["srcs"]) == 2 and r["srcs"][0]["momentum"] != r["srcs"][1]["momentum"]
        if r["fam"] == "binary" and r["name"] in FLAVOR_METHODS and mixed and "Momentum" not in nb["cls"] and "Momentum" in py["cls"]:
            return "known-flavor"
        if r["fam"] == "chain" and mixed:
            return "known-flavor"
        return "flavor"
    if r["fam"] == "unary" and r["name"] == "np_power2":
        return "known-np-power2"
    return "differ"


def make_probe(r, rng, pid, expect_from="nb"):
    from tools import arrayharness as AH
    vecs = {}
    for n, s in zip(("a", "b"), r["srcs"]):
        role = "beta3" if (n == "b" and s["dim"] == 3 and ("boost" in r["name"] or r["fam"] == "chain")) else "vec"
        vecs[n] = {"names": s["sys"], "coords": AH.point(rng, tuple(s["sys"]), s["dim"], role), "momentum": s["momentum"]}
    o = r[expect_from]
    exp = {"kind": o["kind"]}
    if o["kind"] == "vector":
        exp["cls"] = o["cls"]
    p = {"id": pid, "text": r["text"], "name": r["name"], "vecs": vecs, "expect": exp, "fam": r["fam"]}
    if r["fam"] == "obj":
        names = r["name"].split(",")
        p["values"] = {f"a{i}": round(rng.uniform(0.3, 2.5), 3) + (10.0 if nm in ("t", "E", "e", "energy") else 0.0) for i, nm in enumerate(names)}
    return p


def run(ctx):
    from tools import nbprobe
    recs = json.load(open(os.path.join(ROOT, "build", "nbapi.json")))
    deep = ctx.tier == "thorough" or bool(ctx.broken)
    rng = random.Random(f"C07:{ctx.seed}")
    cls = {}
    for i, r in enumerate(recs):
        r["_i"] = i
        cls.setdefault(classify(r), []).append(r)
    counts = {k: len(v) for k, v in cls.items()}
    ctx.coverage["point_classes"] = counts
    ctx.coverage["distinct_nontrivial"] = sum(len(cls.get(k, [])) for k in ("agree", "reflected-eq", "known-flavor", "known-np-power2", "flavor", "differ"))
    probes, meta = [], {}

    def add_probe(r, why, **extra):
        p = make_probe(r, rng, len(probes))
        p.update(extra)
        probes.append(p)
        meta[p["id"]] = (why, r)

    # 1. every point that disagrees outside the listed findings: confirm on the real code (one probe per (name, kind, dims))
    seen = set()
    for kind in ("differ", "flavor", "nb-unsupported"):
        for r in cls.get(kind, []):
            if r["name"].startswith("aktyper__"):
                # the typer lattice needs no compilation: the two type descriptions are the replay
                ctx.fail(f"ak-typer:{r['name'][9:]}", f"an Awkward record with fields {r['name'][9:]} is typed {strip(r['nb'])} in compiled code, the equivalent object {strip(r['py'])}",
                         {"names": r["name"][9:].split(",")})
                continue
            k = (kind, r["fam"], r["name"], tuple(s["dim"] for s in r["srcs"]))
            if k in seen and not deep:
                continue
            seen.add(k)
            if len([1 for x in seen if x[0] == kind]) > (400 if deep else 40):
                break
            add_probe(r, "violation:" + kind)
    # 2. the known findings are replayed (one compiled probe each family)
    for kind, sel in (("known-flavor", lambda r: r["fam"] == "binary"), ("known-np-power2", lambda r: r["srcs"][0]["dim"] == 4 and r["srcs"][0]["sys"][-1] == "t")):
        rows = [r for r in cls.get(kind, []) if sel(r)]
        if rows:
            r = rows[rng.randrange(len(rows))]
            extra = {}
            if kind == "known-np-power2":
                # a space-like vector makes the difference visible in the value: tau2 < 0 but abs(v)**2 > 0
                extra["force_spacelike"] = True
            add_probe(r, "known:" + kind, **extra)
    # 3. validation of T5 against real compilation: seeded sample over every family (both-return points first)
    pool = [r for k in ("agree", "reflected-eq", "known-flavor") for r in cls.get(k, []) if not r["name"].startswith("aktyper__")]
    by = {}
    for r in pool:
        by.setdefault((r["fam"], r["name"]), []).append(r)
    keys = sorted(by)
    rng.shuffle(keys)
    nval = len(keys) if deep else 56
    for k in keys[:nval]:
        rows = by[k]
        for _ in range(3 if deep else 1):
            add_probe(rows[rng.randrange(len(rows))], "validate")
    # typing errors T5 predicts (unregistered spellings, wrong dimension): the real compiler must refuse too
    neg = cls.get("unregistered", []) + [r for r in cls.get("both-fail", []) if r["fam"] in ("getter", "unary")]
    neg = [r for r in neg if not r["name"].startswith("aktyper__")]
    for r in rng.sample(neg, min(len(neg), 24 if deep else 6)):
        add_probe(r, "validate-raise")
    for p in probes:
        if p.get("force_spacelike"):
            c = p["vecs"]["a"]["coords"]
            if "t" in c:
                c["t"] = 0.25
    results = nbprobe.run_many(probes)
    nb_eval = len(results)
    stat = {}
    samples = []
    for res in results:
        why, r = meta[res["id"]]
        st = res["status"]
        stat[(why.split(":")[0], st)] = stat.get((why.split(":")[0], st), 0) + 1
        site_src = "|".join(f"{s['dim']}D:{''.join(s['sys'])}:{'momentum' if s['momentum'] else 'generic'}" for s in r["srcs"])
        inp = {"program": res["text"], "operands": probes[res["id"]]["vecs"], "scalars": nbprobe.scalar_values(r["name"]), "values": probes[res["id"]].get("values")}
        if len(samples) < 6 and st == "ok":
            samples.append({"program": res["text"], "operands": site_src, "compiled": res.get("nb"), "interpreted": res.get("py")})
        if st == "singular":
            continue          # division by zero / non-finite interpreted value: outside the property's domain
        if st == "harness_error":
            ctx.broke("correspondence", f"compiled probe crashed: {res['text']}", res.get("why", ""))
            continue
        if why.startswith("known:"):
            kind = why.split(":", 1)[1]
            nbv, pyv = res.get("nb", {}), res.get("py", {})
            differs = (nbv.get("cls") != pyv.get("cls")) if kind == "known-flavor" else (st == "mismatch")
            if differs:
                ctx.fail(f"known:{kind}", f"compiled {res['text']} returns {nbv}, interpreted {pyv}", inp)
            else:
                ctx.notes.append(f"known finding {kind} did not reproduce on {res['text']}")
            continue
        if why.startswith("violation:"):
            kind = why.split(":", 1)[1]
            if kind == "nb-unsupported":
                if "raise" in (res.get("nb") or {}) and "raise" not in (res.get("py") or {}):
                    ctx.fail(f"nb:{r['fam']}:{r['name']}:unsupported", f"{res['text']} on {site_src} does not compile ({res['nb'].get('raise')}) but the interpreter returns {res.get('py')}", inp)
                else:
                    ctx.broke("translator", f"T5 predicted a typing error for {res['text']} on {site_src}", json.dumps(res)[:600])
            elif st in ("mismatch",) or (kind == "flavor" and res.get("nb", {}).get("cls") != res.get("py", {}).get("cls")):
                ctx.fail(f"nb:{r['fam']}:{r['name']}:{kind}", f"compiled {res['text']} on {site_src} returns {res.get('nb')}, interpreted {res.get('py')}", inp)
            elif st == "t5_mismatch":
                ctx.broke("translator", f"T5 mispredicts {res['text']} on {site_src}", res.get("why", ""))
            else:
                # the symbolic outcomes differ but these operand values do not show it: keep the point, name the theorem
                ctx.broke("proof", f"props/C07.v:C07_every_point_agrees ({r['fam']} {r['name']} on {site_src})",
                          f"symbolic outcomes differ: compiled {json.dumps(strip(r['nb']))[:300]} vs interpreted {json.dumps(strip(r['py']))[:300]}")
            continue
        # validation probes
        if why == "validate-raise":
            if st != "ok":
                ctx.broke("translator", f"T5 predicted a typing error for {res['text']} on {site_src}, real compilation: {st}", json.dumps(res)[:600])
            continue
        if st == "ok":
            continue
        if st == "t5_mismatch":
            ctx.broke("translator", f"T5 mispredicts {res['text']} on {site_src}", res.get("why", ""))
        elif st == "nb_error":
            ctx.broke("translator", f"T5 predicted {r['nb']['kind']} for {res['text']} on {site_src}, real compilation fails", json.dumps(res.get("nb"))[:600])
        elif st == "mismatch":
            cl = classify(r)
            if cl == "known-flavor" and nbprobe._close(unflavor_leaf(res.get("nb")), unflavor_leaf(res.get("py"))):
                continue
            ctx.fail(f"nb:{r['fam']}:{r['name']}:value", f"compiled {res['text']} on {site_src} returns {res.get('nb')}, interpreted {res.get('py')} (T5 predicted agreement)", inp)
        elif st == "py_error":
            ctx.broke("translator", f"T3 predicted a value for {res['text']} on {site_src}, the interpreter raises", json.dumps(res.get("py"))[:300])
    # 4. Awkward: typer lattice (no compilation) + compiled loops
    ak_stat = awkward_checks(ctx, rng, deep)
    ctx.coverage["evaluations"] = len(recs) * 2 + nb_eval + ak_stat.get("typer_points", 0) + ak_stat.get("compiled_loops", 0)
    ctx.coverage["compiled_probes"] = {f"{a}:{b}": n for (a, b), n in sorted(stat.items())}
    ctx.coverage["awkward"] = ak_stat
    ctx.coverage["samples"] = samples
    ctx.coverage["correspondences"] = {
        "T5 typing-level executor vs real numba.njit compilation (class, stored coordinates, values)": {
            "ok": not any(b["kind"] == "translator" for b in ctx.broken), "probes": nb_eval},
        "Awkward typer lattice + compiled loops over Awkward arrays": {"ok": ak_stat.get("ok", False), **{k: v for k, v in ak_stat.items() if k != "ok"}},
    }


def unflavor_leaf(x):
    x = dict(x or {})
    if "cls" in x:
        x["cls"] = x["cls"].replace("Momentum", "Vector")
    return x


def awkward_checks(ctx, rng, deep):
    import awkward as ak
    import numba
    import numpy
    import vector
    from tools import arrayharness as AH
    from tools import harness as H
    from tools.vtrace import t5run
    vector.register_awkward()
    ak.numba.register_and_check()
    import vector.backends._numba_object as NO  # noqa: F401
    st = {"typer_points": 0, "compiled_loops": 0, "ok": True}
    # typer: record with the given field names (+ an extra field) -> the VectorObject type of the equivalent object
    for names in t5run.name_sets():
        try:
            o = vector.obj(**{n: 1.5 for n in names})
        except Exception:
            continue
        st["typer_points"] += 1
        arr = vector.Array(ak.Array([dict({n: 1.5 for n in names}, extra=1)]))
        try:
            av = numba.typeof(arr)
            rv = ak._connect.numba.arrayview.RecordViewType(av)
            name = arr.layout.parameter("__record__")
            got = vector.backends.awkward.behavior["__numba_typer__", name](rv)
            want = numba.typeof(o)
            if str(got) != str(want) or type(got) is not type(want):
                st["ok"] = False
                ctx.fail(f"ak-typer:{','.join(names)}", f"Awkward record with fields {names} is typed {got} in compiled code, the equivalent object {want}", {"names": list(names)})
        except Exception as e:
            st["ok"] = False
            ctx.broke("correspondence", f"awkward typer harness failed on {names}", f"{type(e).__name__}: {e}")
            break
    # compiled loops: sum of a scalar program over the elements of Awkward arrays of vectors
    progs = [("a.x + a.rho", 2), ("a.z * a.eta", 3), ("a.tau + a.t", 4), ("a.dot(b)", 3), ("a.add(b).rho", 2), ("a.deltaR(b)", 3),
             ("a.boost(b).t", 4), ("a.rotateZ(0.3).phi", 3), ("(a + b).mag", 3), ("a.unit().x", 4), ("a.cross(b).z", 3), ("a.to_xyzt().x", 4)]
    rng.shuffle(progs)
    for text, dim in progs[: (len(progs) if deep else 4)]:
        for mom in (False, True):
            n1 = H.SYS[dim][rng.randrange(len(H.SYS[dim]))]
            n2 = H.SYS[dim][rng.randrange(len(H.SYS[dim]))]
            pa = [AH.point(rng, n1, dim) for _ in range(5)]
            pb = [AH.point(rng, n2, dim) for _ in range(5)]
            A = vector.Array(ak.Array([AH.rec(n1, p, mom) for p in pa]))
            B = vector.Array(ak.Array([AH.rec(n2, p, False) for p in pb]))
            src = f"def loop(A, B):\n    s = 0.0\n    for i in range(len(A)):\n        a = A[i]\n        b = B[i]\n        s += {text}\n    return s\n"
            g = {}
            exec(src, g)
            st["compiled_loops"] += 1
            try:
                with numpy.errstate(all="ignore"):
                    got = numba.njit(g["loop"])(A, B)
                    want = 0.0
                    for p, q in zip(pa, pb):
                        a, b = H.obj(vector, n1, p, momentum=mom), H.obj(vector, n2, q)
                        want += eval(text, {"a": a, "b": b})
                if not abs(got - want) <= 1e-9 * max(1.0, abs(want)):
                    st["ok"] = False
                    ctx.fail(f"ak-loop:{text}", f"compiled loop over Awkward arrays ({''.join(n1)} / {''.join(n2)}, momentum={mom}) of {text} gives {got}, interpreter {want}",
                             {"a": pa, "b": pb, "program": text})
            except Exception as e:
                st["ok"] = False
                ctx.fail(f"ak-loop:{text}", f"compiled loop over Awkward arrays of {text} ({''.join(n1)} / {''.join(n2)}) fails: {type(e).__name__}: {str(e)[:200]}", {"program": text})
    return st


def replay(rec):
    from tools import nbprobe
    f = rec.get("failure") or {}
    inp = f.get("input") or {}
    if not inp.get("program") or not inp.get("operands"):
        return {"site": f.get("site"), "what": f.get("what"), "still_fails": None}
    p = {"id": 0, "text": inp["program"], "name": "", "vecs": inp["operands"], "values": inp.get("values") or {}}
    res = nbprobe.run_probe(p)
    return {"site": f.get("site"), "result": res, "still_fails": res["status"] != "ok"}
