"""C09 — boosts: search / correspondence on the real code (all systems of vector and booster, all spellings)."""
from __future__ import annotations

import math

import numpy

from tools import harness as H

COQ_TARGETS = ["props/C09.vo"]
RULE = ("real-code cases: every 4D system of the boosted vector x every 3D/4D system of the booster (round-robin) x "
        "velocity strata (|beta| in 0.1..0.9, ultra-relativistic 1-1e-4.., both hemispheres) x spellings; compared in "
        "Cartesian components against an independent Lorentz matrix; distinct = distinct (check, systems, stratum, rep)")
ASSUMPTIONS = ["|beta| < 1, time-like forward boosters; float64 tolerance scaled with gamma^2"]


def boost_ref(v, b):
    x, y, z, t = v
    bx, by, bz = b
    b2 = bx * bx + by * by + bz * bz
    g = 1 / math.sqrt(1 - b2)
    k = (g - 1) / b2 if b2 > 0 else 0.0
    bp = bx * x + by * y + bz * z
    return [x + k * bp * bx + g * bx * t, y + k * bp * by + g * by * t, z + k * bp * bz + g * bz * t, g * (t + bp)]


def c4(v):
    return [v.x, v.y, v.z, v.t]


def mink(u, v):
    return u[3] * v[3] - u[0] * v[0] - u[1] * v[1] - u[2] * v[2]


def near(a, b, scale, tol):
    return all(abs(p - q) <= tol * max(scale, abs(p), abs(q)) for p, q in zip(a, b))


def run(ctx):
    import awkward as ak
    import vector
    deep = ctx.tier == "thorough" or bool(ctx.broken)
    reps = 3 if deep else 1
    n = 0
    distinct = set()
    samples = []
    S3, S4 = H.SYS[3], H.SYS[4]
    with numpy.errstate(all="ignore"):
        for i, n1 in enumerate(S4):
            for j in range(len(S4)):
                nb4 = S4[j]
                nb3 = S3[(i + j) % 6]
                nw = S4[(i + 5 * j + 3) % 12]
                rng = H.rng_for(ctx.seed, "C09", n1, nb4)
                for stratum in ("moderate", "ultra", "backward", "at_rest"):
                    for rep in range(reps):
                        x, y, z, t = H.cart_stratum(rng, "quadrants", 4)
                        v = H.obj(vector, n1, H.from_cart(n1, x, y, z, t), momentum=bool(rep % 2))
                        cv = [x, y, z, t]
                        wx, wy, wz, wt = H.cart_stratum(rng, "quadrants", 4)
                        w = H.obj(vector, nw, H.from_cart(nw, wx, wy, wz, wt))
                        cw = [wx, wy, wz, wt]
                        # booster velocity
                        d = [rng.uniform(0.2, 1) * rng.choice([-1, 1]) for _ in range(3)]
                        if stratum == "backward":
                            d[2] = -abs(d[2])
                        dn = math.sqrt(sum(q * q for q in d))
                        bmag = rng.choice([1 - 1e-4, 1 - 1e-6]) if stratum == "ultra" else rng.uniform(0.1, 0.9)
                        beta = [q / dn * bmag for q in d]
                        nb3_, nb4_ = nb3, nb4
                        if stratum == "at_rest":
                            # the identity boost: velocity exactly zero / booster exactly at rest (representable with z storage)
                            bmag, beta = 0.0, [0.0, 0.0, 0.0]
                            nb3_ = nb3 if "z" in nb3 else ("x", "y", "z")
                            nb4_ = nb4 if "z" in nb4 else ("x", "y", "z", "t")
                        g = 1 / math.sqrt(1 - bmag * bmag)
                        tol = 1e-9 * g * g
                        S = max(map(abs, cv + cw)) * g + 1
                        m = rng.uniform(0.5, 3)
                        p4c = [g * m * q for q in beta] + [g * m]
                        b3 = H.obj(vector, nb3_, H.from_cart(nb3_, *beta))
                        p4 = H.obj(vector, nb4_, H.from_cart(nb4_, *p4c))
                        site = f"object:{H.sysname(n1)}|b3={H.sysname(nb3_)}|p4={H.sysname(nb4_)}"
                        inp = {"v": repr(v), "w": repr(w), "beta3": repr(b3), "p4": repr(p4), "stratum": stratum}
                        n += 1
                        distinct.add((n1, nb4, stratum, rep))

                        def chk(name, got, want, tol_=tol, scale=S):
                            if not near(got, want, scale, tol_):
                                ctx.fail(site + ":" + name, f"{name}: got {got}, want {want}", inp)
                        want = boost_ref(cv, beta)
                        r3 = v.boost_beta3(b3)
                        r4 = v.boost_p4(p4)
                        chk("boost_beta3", c4(r3), want)
                        chk("boost_p4", c4(r4), want)
                        chk("boost_dispatch_3D", c4(v.boost(b3)), c4(r3), 1e-15)
                        chk("boost_dispatch_4D", c4(v.boost(p4)), c4(r4), 1e-15)
                        chk("boost_p4_vs_to_beta3", c4(v.boost_beta3(p4.to_beta3())), c4(r4))
                        chk("minkowski_invariant", [mink(c4(r3), c4(w.boost_beta3(b3)))], [mink(cv, cw)], tol * 10, S * S)
                        chk("inverse", c4(r3.boost_beta3(-b3)), cv, tol * g * g)
                        if type(r3) is not type(v):
                            ctx.fail(site + ":class", f"boost changed the class: {type(v).__name__} -> {type(r3).__name__}", inp)
                        if "tau" in n1:
                            if r3.temporal.elements != v.temporal.elements or r4.temporal.elements != v.temporal.elements:
                                ctx.fail(site + ":tau_kept", "tau-stored vector: boost did not keep the stored tau", inp)
                        # axis spellings
                        bb = rng.uniform(-0.9, 0.9) if stratum != "ultra" else rng.choice([-1, 1]) * (1 - 1e-4)
                        if stratum == "at_rest":
                            bb = 0.0
                        gg = 1 / math.sqrt(1 - bb * bb)
                        for ax, e in (("X", (1, 0, 0)), ("Y", (0, 1, 0)), ("Z", (0, 0, 1))):
                            ra = getattr(v, "boost" + ax)(beta=bb)
                            chk("boost" + ax + "_beta", c4(ra), boost_ref(cv, [bb * q for q in e]), 1e-9 * gg * gg)
                            rg = getattr(v, "boost" + ax)(gamma=math.copysign(gg, bb))
                            chk("boost" + ax + "_gamma", c4(rg), c4(ra), 1e-7 * gg * gg)
                            if ax != "Z" or True:
                                axis3 = H.obj(vector, "xyz" and ("x", "y", "z"), {"x": bb * e[0], "y": bb * e[1], "z": bb * e[2]})
                                chk("boost" + ax + "_vs_beta3", c4(v.boost_beta3(axis3)), c4(ra), 1e-9 * gg * gg)
                        b1, b2_ = rng.uniform(-0.8, 0.8), rng.uniform(-0.8, 0.8)
                        if stratum == "at_rest":
                            b2_ = -b1       # composition to the identity
                        chk("velocity_addition", c4(v.boostX(beta=b2_).boostX(beta=b1)), c4(v.boostX(beta=(b1 + b2_) / (1 + b1 * b2_))), 1e-8)
                        # centre of mass
                        for nm, r in (("boostCM_of_p4", p4.boostCM_of_p4(p4)), ("boostCM_of", p4.boostCM_of(p4)),
                                      ("boostCM_of_beta3", p4.boostCM_of_beta3(p4.to_beta3()))):
                            chk(nm, c4(r), [0.0, 0.0, 0.0, m], 1e-9 * g * g * g, g * m)
                        if len(samples) < 3 and stratum == "backward":
                            samples.append({"v": repr(v), "p4": repr(p4), "boost_p4": repr(r4)})
            # array backends agree with objects
            rng = H.rng_for(ctx.seed, "C09arr", n1)
            pts = [H.from_cart(n1, *H.cart_stratum(rng, "quadrants", 4)) for _ in range(3)]
            objs = [H.obj(vector, n1, p) for p in pts]
            b3 = vector.obj(x=0.3, y=-0.4, z=-0.5)
            for backend in ("numpy", "awkward"):
                cols = {k_: numpy.array([p[k_] for p in pts]) for k_ in n1}
                va = vector.array(cols) if backend == "numpy" else vector.Array(ak.zip(cols))
                tl = (lambda r: [float(q) for q in numpy.asarray(r)]) if backend == "numpy" else (lambda r: [float(q) for q in ak.to_list(r)])
                got = va.boost_beta3(b3)
                n += 3
                for comp in ("x", "y", "z", "t"):
                    if not near(tl(getattr(got, comp)), [getattr(o.boost_beta3(b3), comp) for o in objs], 10.0, 1e-12):
                        ctx.fail(f"{backend}:{H.sysname(n1)}:boost_beta3", f"{backend} differs from object in {comp}", {"points": pts})
    ctx.coverage["evaluations"] = n
    ctx.coverage["distinct_nontrivial"] = len(distinct)
    ctx.coverage["samples"] = samples
    ctx.coverage["correspondences"] = {"object backend vs independent Lorentz matrix (all spellings)": {"ok": not any(f["site"].startswith("object") for f in ctx.failures)},
                                       "numpy/awkward == object": {"ok": not any(f["site"].startswith(("numpy", "awkward")) for f in ctx.failures)}}


_run_without_compiled = run


def run(ctx):
    _run_without_compiled(ctx)
    from tools import nbrows
    nbrows.check(ctx, ['boostX_beta', 'boostY_beta', 'boostZ_beta', 'boostX_gamma', 'boostY_gamma', 'boostZ_gamma', 'boostX_pos', 'boost_p4', 'boost_beta3', 'boost', 'boostCM_of', 'boostCM_of_p4', 'boostCM_of_beta3', 'to_beta3'], 'the boosts')


def replay(rec):
    import vector
    f = rec.get("failure") or {}
    inp = f.get("input") or {}
    ns = {k: getattr(vector, k) for k in ("VectorObject2D", "VectorObject3D", "VectorObject4D", "MomentumObject2D", "MomentumObject3D", "MomentumObject4D")}
    out = {"site": f.get("site"), "what": f.get("what"), "input": inp}
    if "v" in inp and "p4" in inp:
        v, p4 = eval(inp["v"], ns), eval(inp["p4"], ns)
        a, b = c4(v.boost_p4(p4)), c4(v.boost_beta3(p4.to_beta3()))
        out.update(boost_p4=a, boost_beta3_of_to_beta3=b, still_fails=not near(a, b, 10.0, 1e-6))
    return out
