"""C04 — conversions / dimension changes: the T3 records are replayed on concrete values (validating T3) and
on the NumPy and Awkward backends (the lattice theorems are about the object backend)."""
from __future__ import annotations

import json
import math
import os

import numpy

from tools import harness as H

COQ_TARGETS = ["props/C04.vo"]
ROOT = os.path.dirname(os.path.dirname(os.path.dirname(os.path.abspath(__file__))))
RULE = ("every conversion record of the T3 lattice (40 sources x 40 to_* methods + to_VectorND/to_ND/like, x keyword "
        "choices) is replayed with concrete values on the object backend (must equal the evaluated symbolic outcome) and on "
        "NumPy / Awkward arrays (must equal the object backend bit for bit, same class flavor, dimension, field names); "
        "distinct = distinct (source, method, keywords, backend)")
ASSUMPTIONS = ["keyword values and coordinates are generic finite floats; NumPy/Awkward broadcast scalars elementwise"]
KWVAL = {"z": 0.75, "pz": 0.75, "theta": 1.25, "eta": -0.6, "t": 12.5, "e": 12.5, "E": 12.5, "energy": 12.5, "tau": 3.5, "m": 3.5,
         "M": 3.5, "mass": 3.5}
GEN = {"px": "x", "py": "y", "pt": "rho", "pz": "z", "E": "t", "e": "t", "energy": "t", "M": "tau", "m": "tau", "mass": "tau"}


def fields_of(v):
    """(generic field names, values) of an object / array vector"""
    names = []
    from vector._methods import _aztype, _coordinate_class_to_names, _ltype, _ttype
    names += _coordinate_class_to_names[_aztype(v)]
    if hasattr(v, "longitudinal"):
        names += _coordinate_class_to_names[_ltype(v)]
    if hasattr(v, "temporal"):
        names += _coordinate_class_to_names[_ttype(v)]
    return list(names)


def eval_expr(e, env, fns):
    op = e[0]
    if op == "var":
        return env[e[1]]
    if op == "const":
        n, d = int(e[1]), int(e[2])
        return n if d == 1 else n / d
    if op == "call":
        return fns[e[1]](numpy, *[eval_expr(a, env, fns) for a in e[2:]])
    if op == "proj":
        return eval_expr(e[2], env, fns)[e[1]]
    raise ValueError(op)


def run(ctx):
    import awkward as ak
    import vector
    from tools.vtrace import t1
    deep = ctx.tier == "thorough" or bool(ctx.broken)
    recs = json.load(open(os.path.join(ROOT, "build", "objapi.json")))["conversions"]
    tr = t1.Tracer()
    fns = {n: f for f, n in tr.funcs.values()}
    n = 0
    distinct = set()
    samples = []
    with numpy.errstate(all="ignore"):
        for idx, r in enumerate(recs):
            s = r["src"]
            names = tuple(s["sys"])
            dim = s["dim"]
            rng = H.rng_for(ctx.seed, "C04", idx)
            pts = [H.from_cart(names, *H.cart_stratum(rng, "quadrants", dim)) for _ in range(3)]
            kw = {k: KWVAL[k] for k in r["kw"]}
            meth = r["method"]

            def call(v, other_cls=None):
                if meth.startswith("like"):
                    od = int(meth[4])
                    other = vector.obj(**{k_: 1.0 for k_ in H.SYS[od][-1]})
                    return v.like(other)
                return getattr(v, meth)(**kw)
            objs = [H.obj(vector, names, p, momentum=s["momentum"]) for p in pts]
            site = f"{meth}({','.join(r['kw'])}) on {dim}D:{H.sysname(names)}:{'momentum' if s['momentum'] else 'generic'}"
            out = r["out"]
            try:
                res = [call(o) for o in objs]
                raised = None
            except Exception as e:
                res, raised = None, type(e).__name__
            n += 1
            distinct.add((idx, "object"))
            if out["kind"] == "raise":
                if raised != out["exc"]:
                    ctx.fail("t3-validation:" + site, f"symbolic execution raised {out['exc']}, concrete execution {raised}", {"record": idx})
                continue
            if raised:
                ctx.fail("t3-validation:" + site, f"concrete execution raised {raised}, symbolic execution returned a vector", {"record": idx})
                continue
            # T3-validation: evaluate the symbolic outcome on the concrete stored values
            for o, p, rr in zip(objs, pts, res):
                env = {f"a{i}": p[nm] for i, nm in enumerate(names)}
                env.update({"kw_" + k: v for k, v in kw.items()})
                want = [eval_expr(c, env, fns) for c in out["coords"]]
                got = [getattr(rr, f) for f in fields_of(rr)]
                okv = len(want) == len(got) and all((a == b) or (math.isnan(a) and math.isnan(b)) for a, b in zip(want, got))
                if type(rr).__name__ != out["cls"] or not okv:
                    ctx.fail("t3-validation:" + site, f"symbolic outcome {out['cls']}{want} vs concrete {type(rr).__name__}{got}", {"record": idx, "point": p})
                    break
            # independent oracle (not derived from the symbolic record): stored coordinates of the source that the result
            # keeps under the same name are bit-identical; a coordinate group the source lacks holds the keyword value or 0
            rf = fields_of(res[0])
            for o, p, rr in zip(objs, pts, res):
                bad = None
                for f in rf:
                    if f in names and getattr(rr, f) != p[f]:
                        bad = f"stored {f}={p[f]} became {getattr(rr, f)}"
                group = {"z": "lg", "theta": "lg", "eta": "lg", "t": "tm", "tau": "tm"}
                have = {group[nm] for nm in names if nm in group}
                for f in rf:
                    g_ = group.get(f)
                    if g_ and g_ not in have:
                        given = [k for k in kw if group.get(GEN.get(k, k)) == g_]
                        want = KWVAL[given[0]] if len(given) == 1 else 0.0
                        if len(given) == 1 and GEN.get(given[0], given[0]) != f and not meth.startswith("to_V") and not meth[3:4].isdigit():
                            continue
                        if len(given) == 1 and GEN.get(given[0], given[0]) != f:
                            bad = f"keyword {given[0]} given but the result stores {f}"
                        elif getattr(rr, f) != want:
                            bad = f"missing coordinate {f}: expected {want} (keywords {sorted(kw)}), got {getattr(rr, f)}"
                if bad:
                    ctx.fail("object:" + site, bad, {"record": idx, "point": p, "kw": kw})
                    break
            # array backends (sampled in quick)
            if not deep and (idx + ctx.seed) % 3 != 0:
                continue
            want_fields = fields_of(res[0])
            for backend in ("numpy", "awkward"):
                cols = {k_: numpy.array([p[k_] for p in pts]) for k_ in names}
                if s["momentum"]:
                    cols = {H.MOM.get(k_, k_): v for k_, v in cols.items()}
                va = vector.array(cols) if backend == "numpy" else vector.Array(ak.zip(cols))
                try:
                    ra = call(va)
                except Exception as e:
                    ctx.fail(f"{backend}:" + site, f"raises {type(e).__name__}: {e}"[:300], {"record": idx, "points": pts, "kw": kw})
                    continue
                n += 1
                distinct.add((idx, backend))
                got_fields = [GEN.get(f, f) for f in (ra.dtype.names if backend == "numpy" else ak.fields(ra))]
                is_mom = isinstance(ra, vector._methods.Momentum) if backend == "numpy" else "Momentum" in type(ra).__name__
                if got_fields != want_fields or is_mom != s["momentum"]:
                    ctx.fail(f"{backend}:" + site, f"fields {got_fields} (momentum={is_mom}), object backend {want_fields} (momentum={s['momentum']})",
                             {"record": idx, "points": pts, "kw": kw})
                    continue
                for f, cexpr in zip(want_fields, out["coords"]):
                    col = getattr(ra, f)
                    gv = [float(x) for x in (numpy.asarray(col) if backend == "numpy" else ak.to_list(col))]
                    wv = [float(getattr(o, f)) for o in res]
                    passthrough = cexpr[0] in ("var", "const")     # stored coordinate / keyword / literal: bit for bit
                    same = all((math.isnan(a) and math.isnan(b)) or a == b or
                               (not passthrough and abs(a - b) <= 1e-12 * max(1.0, abs(a), abs(b))) for a, b in zip(gv, wv))
                    if not same:
                        ctx.fail(f"{backend}:" + site, f"stored {f}: {backend} {gv}, object backend {wv}", {"record": idx, "points": pts, "kw": kw})
                        break
            if len(samples) < 4 and r["kw"] and dim == 2 and idx % 97 == 0:
                samples.append({"call": site, "result": repr(res[0])})
    ctx.coverage["evaluations"] = n
    ctx.coverage["distinct_nontrivial"] = len(distinct)
    ctx.coverage["records"] = len(recs)
    ctx.coverage["samples"] = samples
    ctx.coverage["correspondences"] = {
        "T3-validation: symbolic outcome == concrete execution (object backend)": {"ok": not any(f["site"].startswith("t3-validation") for f in ctx.failures)},
        "numpy/awkward conversions == object backend (fields, flavor, values bit for bit)": {"ok": not any(f["site"].startswith(("numpy", "awkward")) for f in ctx.failures)}}


_run_without_compiled = run


def run(ctx):
    _run_without_compiled(ctx)
    from tools import arrayharness as _AH
    import numpy as _np
    with _np.errstate(all="ignore"):
        ctx.coverage["evaluations"] = ctx.coverage.get("evaluations", 0) + _AH.spelling_lattice(ctx, ctx.seed)
    ctx.coverage["correspondences"]["every spelling of every coordinate through every array constructor (incl. Awkward arrays that keep the spelled field names): getters, synonyms and conversions == vector.obj"] = {"ok": not any(f["site"].startswith("spelling:") for f in ctx.failures)}
    from tools import nbrows
    nbrows.check(ctx, ['to_xy', 'to_xyz', 'to_xyzt', 'to_xyztau', 'to_xytheta', 'to_xythetat', 'to_xythetatau', 'to_xyeta', 'to_xyetat', 'to_xyetatau', 'to_rhophi', 'to_rhophiz', 'to_rhophizt', 'to_rhophiztau', 'to_rhophitheta', 'to_rhophithetat', 'to_rhophithetatau', 'to_rhophieta', 'to_rhophietat', 'to_rhophietatau', 'to_Vector2D', 'to_Vector3D', 'to_Vector4D'], 'the conversions')


def replay(rec):
    return {"site": (rec.get("failure") or {}).get("site"), "what": (rec.get("failure") or {}).get("what"), "still_fails": None}
