"""C11 — vector-space / dot / cross / unit laws and norm functions: search on the real code (all backends)."""
from __future__ import annotations

import math

import numpy

from tools import harness as H

COQ_TARGETS = ["props/C11.vo"]
RULE = ("real-code cases: (dimension, signature triple sampled round-robin over all systems, stratum incl. space-like 4D "
        "vectors, scalar factors of both signs); laws compared in Cartesian components with relative tolerance 1e-9 on "
        "well-conditioned strata; distinct = distinct (law, dim, signatures, stratum, rep)")
ASSUMPTIONS = ["well-conditioned finite operands; float64 tolerance 1e-9 relative",
               "numpy / awkward broadcast elementwise (library semantics)"]


def cart(v, dim):
    out = [v.x, v.y]
    if dim >= 3:
        out.append(v.z)
    if dim == 4:
        out.append(v.t)
    return out


def near(a, b, scale, tol=1e-9):
    return all(abs(p - q) <= tol * max(scale, abs(p), abs(q)) for p, q in zip(a, b))


def mk(vector, rng, dim, names, stratum):
    x, y, z, t = H.cart_stratum(rng, "quadrants" if stratum == "spacelike" else stratum, dim)
    if stratum == "spacelike":
        t = math.sqrt(x * x + y * y + z * z) * rng.uniform(0.2, 0.8)
    return H.obj(vector, names, H.from_cart(names, x, y, z, t)), (x, y, z, t)[:dim]


def run(ctx):
    import awkward as ak
    import vector
    deep = ctx.tier == "thorough" or bool(ctx.broken)
    reps = 3 if deep else 1
    n = 0
    distinct = set()
    samples = []
    with numpy.errstate(all="ignore"):
        for dim in (2, 3, 4):
            systems = H.SYS[dim]
            k = len(systems)
            for i, n1 in enumerate(systems):
                for j, n2 in enumerate(systems):
                    n3 = systems[(i + 2 * j + 1) % k]
                    rng = H.rng_for(ctx.seed, "C11", dim, n1, n2)
                    for stratum in ("generic", "quadrants", "large") + (("spacelike",) if dim == 4 else ()):
                        for rep in range(reps):
                            a, ca = mk(vector, rng, dim, n1, stratum)
                            b, cb = mk(vector, rng, dim, n2, "quadrants" if stratum == "spacelike" else stratum)
                            c, cc = mk(vector, rng, dim, n3, "quadrants" if stratum == "spacelike" else stratum)
                            f, g = rng.uniform(0.3, 3) * rng.choice([-1, 1]), rng.uniform(0.3, 3) * rng.choice([-1, 1])
                            S = max(map(abs, ca + cb + cc)) + 1.0
                            site = f"object:{dim}D:{H.sysname(n1)}|{H.sysname(n2)}|{H.sysname(n3)}"
                            inp = {"a": repr(a), "b": repr(b), "c": repr(c), "f": f, "g": g, "stratum": stratum}
                            n += 1
                            distinct.add((dim, n1, n2, stratum, rep))
                            tau_neg = dim == 4 and any("tau" in nn for nn in (n1, n2, n3))

                            def chk(name, got, want, scale=S, tol=1e-9):
                                if not near(got, want, scale, tol):
                                    ctx.fail(site + ":" + name, f"{name}: got {got}, want {want}", inp)
                            chk("add_commutative", cart(a + b, dim), cart(b + a, dim))
                            chk("add_is_cartesian_sum", cart(a + b, dim), [p + q for p, q in zip(ca, cb)])
                            if not (dim == 4 and stratum == "spacelike"):
                                chk("add_associative", cart((a + b) + c, dim), cart(a + (b + c), dim))
                            diff = [p - q for p, q in zip(ca, cb)]
                            diff_ok = dim < 4 or not ("tau" in n1 and "tau" in n2) or (diff[3] > 0 and diff[3] ** 2 > sum(q * q for q in diff[:3]))
                            if diff_ok:     # a tau+tau difference is returned with tau: needs a forward time-like exact result
                                chk("subtract_inverse", cart((a - b) + b, dim), list(ca))
                            if not (tau_neg and f < 0):     # negative time is not representable with tau storage
                                chk("scale_distributes", cart((a + b) * abs(f), dim), cart(a * abs(f) + b * abs(f), dim))
                                chk("scale_composes", cart((a * abs(f)) * abs(g), dim), cart(a * (abs(f) * abs(g)), dim))
                            if "tau" not in n1:
                                chk("scale_is_cartesian", cart(a * f, dim), [p * f for p in ca])
                                chk("neg_is_scale_minus1", cart(-a, dim), cart(a.scale(-1), dim))
                                chk("div_is_scale_inverse", cart(a / f, dim), [p / f for p in ca])
                            sgn = [-1] * 3 + [1] if dim == 4 else [1] * dim
                            mdot = lambda u, v: sum(s * p * q for s, p, q in zip(sgn, u, v))  # noqa: E731
                            chk("dot_symmetric", [a.dot(b)], [b.dot(a)], S * S)
                            chk("dot_value", [a @ b], [mdot(ca, cb)], S * S)
                            chk("dot_bilinear", [(a + b).dot(c)], [a.dot(c) + b.dot(c)], S * S, 1e-8)
                            norm2 = {2: "rho2", 3: "mag2", 4: "tau2"}[dim]
                            chk("dot_self", [a.dot(a)], [getattr(a, norm2)], S * S)
                            if dim == 3:
                                cr = cart(a.cross(b), 3)
                                chk("cross_antisymmetric", cr, [-q for q in cart(b.cross(a), 3)], S * S)
                                chk("cross_orthogonal", [sum(p * q for p, q in zip(cr, ca)), sum(p * q for p, q in zip(cr, cb))], [0.0, 0.0], S ** 3, 1e-8)
                                lag = sum(p * p for p in ca) * sum(p * p for p in cb) - sum(p * q for p, q in zip(ca, cb)) ** 2
                                chk("cross_lagrange", [sum(p * p for p in cr)], [lag], S ** 4, 1e-8)
                            # unit: norm one and parallel
                            u = a.unit()
                            nrm = {2: "rho", 3: "mag", 4: "tau"}[dim]
                            if abs(abs(getattr(u, nrm)) - 1) > 1e-9:
                                ctx.fail(site + ":unit_norm", f"|unit| = {getattr(u, nrm)}", inp)
                            an = math.sqrt(abs(mdot(ca, ca)))
                            chk("unit_parallel", cart(u, dim), [p / an for p in ca], 1.0, 1e-8)
                            # abs, **2, sqrt, cbrt, power are functions of the norm
                            nv = getattr(a, nrm)
                            chk("abs", [abs(a)], [nv], S)
                            chk("square", [a ** 2], [getattr(a, norm2)], S * S)
                            if getattr(a, norm2) > 0:
                                chk("sqrt", [numpy.sqrt(a)], [math.sqrt(abs(nv))], S)
                                chk("cbrt", [numpy.cbrt(a)], [abs(nv) ** (1 / 3)], S)
                                chk("power", [numpy.power(a, 3), a ** 3], [nv ** 3, nv ** 3], S ** 3)
                            if len(samples) < 4 and rep == 0 and stratum == "spacelike":
                                samples.append({"a": repr(a), "unit": repr(u), "tau(unit)": u.tau})
                    # arrays: NumPy and Awkward agree with objects on a few norm functions and laws
                    if (i + j) % (1 if deep else 3) == 0:
                        rng = H.rng_for(ctx.seed, "C11arr", dim, n1, n2)
                        A = [H.from_cart(n1, *H.cart_stratum(rng, "quadrants", dim)) for _ in range(4)]
                        B = [H.from_cart(n2, *H.cart_stratum(rng, "quadrants", dim)) for _ in range(4)]
                        objsA = [H.obj(vector, n1, q) for q in A]
                        objsB = [H.obj(vector, n2, q) for q in B]
                        for backend in ("numpy", "awkward"):
                            if backend == "numpy":
                                va = vector.array({k_: numpy.array([q[k_] for q in A]) for k_ in n1})
                                vb = vector.array({k_: numpy.array([q[k_] for q in B]) for k_ in n2})
                                tl = lambda r: [float(v) for v in numpy.asarray(r)]  # noqa: E731
                            else:
                                va = vector.Array(ak.zip({k_: numpy.array([q[k_] for q in A]) for k_ in n1}))
                                vb = vector.Array(ak.zip({k_: numpy.array([q[k_] for q in B]) for k_ in n2}))
                                tl = lambda r: [float(v) for v in ak.to_list(r)]  # noqa: E731
                            n += 4
                            checks = {"abs": (tl(abs(va)), [abs(o) for o in objsA]),
                                      "square": (tl(va ** 2), [o ** 2 for o in objsA]),
                                      "dot": (tl(va.dot(vb)), [p @ q for p, q in zip(objsA, objsB)]),
                                      "add.x": (tl((va + vb).x), [(p + q).x for p, q in zip(objsA, objsB)]),
                                      "unit.y": (tl(va.unit().y), [p.unit().y for p in objsA]),
                                      "scale.x": (tl((va * 2.5).x), [(p * 2.5).x for p in objsA])}
                            for nm_, (got, want) in checks.items():
                                if not near(got, want, 1.0 + max(map(abs, want)), 1e-12):
                                    ctx.fail(f"{backend}:{dim}D:{H.sysname(n1)}|{H.sysname(n2)}:{nm_}", f"{backend} {got} vs object {want}",
                                             {"A": A, "B": B})
    # norm-ufunc lattice: abs, **2, sqrt, cbrt, power are functions of the norm on EVERY backend x flavor x dimension x system
    with numpy.errstate(all="ignore"):
        for dim in (2, 3, 4):
            nrm = {2: "rho", 3: "mag", 4: "tau"}[dim]
            for names in H.SYS[dim]:
                rng = H.rng_for(ctx.seed, "C11ufunc", dim, names)
                P = [H.from_cart(names, *H.cart_stratum(rng, "quadrants", dim)) for _ in range(3)]
                norms = [float(getattr(H.obj(vector, names, q), nrm)) for q in P]
                for mom in (False, True):
                    cols = {(H.MOM.get(k_, k_) if mom else k_): numpy.array([q[k_] for q in P]) for k_ in names}
                    for backend in ("numpy", "awkward"):
                        if backend == "numpy":
                            va = vector.array(cols)
                            tl = lambda r: [float(v) for v in numpy.asarray(r)]  # noqa: E731
                        else:
                            va = vector.Array(ak.zip(cols))
                            tl = lambda r: [float(v) for v in ak.to_list(r)]  # noqa: E731
                        cat = {"abs": (lambda v: abs(v), lambda m: abs(m)), "np.absolute": (numpy.absolute, lambda m: abs(m)),
                               "**2": (lambda v: v ** 2, lambda m: m * m), "np.square": (numpy.square, lambda m: m * m),
                               "np.sqrt": (numpy.sqrt, lambda m: math.sqrt(abs(m))), "np.cbrt": (numpy.cbrt, lambda m: abs(m) ** (1 / 3)),
                               "np.power3": (lambda v: numpy.power(v, 3), lambda m: m ** 3), "**3": (lambda v: v ** 3, lambda m: m ** 3)}
                        for nm_, (f_, ref) in cat.items():
                            n += 1
                            distinct.add(("ufunc", nm_, backend, mom, dim, names))
                            site_ = f"{backend}:{dim}D:{H.sysname(names)}:{'momentum' if mom else 'generic'}:{nm_}"
                            try:
                                got = tl(f_(va))
                            except Exception as e:
                                ctx.fail(site_, f"raises {type(e).__name__}: {e}"[:200], {"points": P})
                                continue
                            want = [ref(m) for m in norms]
                            if not near(got, want, 1.0 + max(map(abs, want)), 1e-9):
                                ctx.fail(site_, f"{nm_} of the array gives {got}, the same function of the norm ({nrm}) gives {want}", {"points": P})
    ctx.coverage["evaluations"] = n
    ctx.coverage["distinct_nontrivial"] = len(distinct)
    ctx.coverage["samples"] = samples
    ctx.coverage["correspondences"] = {"object backend laws vs Cartesian arithmetic": {"ok": not any(f["site"].startswith("object") for f in ctx.failures)},
                                       "numpy/awkward == object elementwise": {"ok": not any(f["site"].startswith(("numpy", "awkward")) for f in ctx.failures)}}


_run_without_compiled = run


def run(ctx):
    _run_without_compiled(ctx)
    from tools import nbrows
    nbrows.check(ctx, ['add', '+', 'subtract', '-', 'dot', '@', 'cross', 'scale', 'mul', 'rmul', 'div', 'neg', 'pos', 'unit', 'abs', 'pow2', 'pow3', 'scale2D', 'scale3D', 'scale4D', 'np_add', 'np_subtract', 'np_matmul', 'np_absolute', 'np_square', 'np_sqrt', 'np_cbrt', 'np_negative', 'np_positive', 'np_multiply', 'np_true_divide', 'np_power3'], 'the arithmetic')


def replay(rec):
    import vector
    f = rec.get("failure") or {}
    inp = f.get("input") or {}
    ns = {k: getattr(vector, k) for k in ("VectorObject2D", "VectorObject3D", "VectorObject4D", "MomentumObject2D", "MomentumObject3D", "MomentumObject4D")}
    out = {"site": f.get("site"), "what": f.get("what")}
    if "a" in inp:
        a = eval(inp["a"], ns)
        out["a.unit()"] = repr(a.unit())
    return out
