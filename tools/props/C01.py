"""C01 — results do not depend on the storage system: search over every dispatch_map entry (real code)."""
from __future__ import annotations

from tools import computeharness as CH

COQ_TARGETS = ["props/C01.vo"]
RULE = ("every (module, signature) of the 82 compute modules is evaluated on operands converted from common Cartesian "
        "points (strata: first octant, all octants, large) and compared, in its declared return system, with the "
        "all-Cartesian variant; distinct = distinct (module, signature, stratum, rep); non-trivial = signature differs "
        "from the all-Cartesian one")
ASSUMPTIONS = ["operands representable in the systems involved; well-conditioned strata only (float64 comparison)",
               "float64 rounding is not part of the theorems (reals)"]


def run(ctx):
    deep = ctx.tier == "thorough" or bool(ctx.broken)
    st = CH.run_storage_independence(ctx, ctx.seed, reps=4 if deep else 1)
    ctx.coverage["evaluations"] = st["evaluations"]
    ctx.coverage["distinct_nontrivial"] = st["distinct"]
    ctx.coverage["variants_exercised"] = st["variants"]
    ctx.coverage["modules_exercised"] = st["modules"]
    ctx.coverage["samples"] = st["samples"]
    ctx.coverage["correspondences"] = {"all 2404 variants vs the all-Cartesian variant on the real code (float64)": {"ok": not ctx.failures}}


_run_without_compiled = run


def run(ctx):
    _run_without_compiled(ctx)
    from tools import nbrows
    nbrows.check(ctx, ['x', 'y', 'z', 'rho', 'phi', 'theta', 'eta', 't', 'tau', 'mag', 'mag2', 'rho2', 't2', 'tau2', 'neg2D', 'neg3D', 'neg4D'], 'the accessors')


def replay(rec):
    f = rec.get("failure") or {}
    inp = f.get("input") or {}
    if "module" in inp:
        got, want = CH.replay_compute(inp)
        return {"site": f.get("site"), "variant": got, "cartesian": want, "still_fails": None, "input": inp}
    return {"site": f.get("site"), "input": inp}
