"""C13 — ranges, signs, predicates: search / correspondence on the real code (object + NumPy backends)."""
from __future__ import annotations

import math

import numpy

from tools import harness as H

COQ_TARGETS = ["props/C13.vo"]
RULE = ("real-code cases: every 2D/3D/4D coordinate system (and every pairing for binary predicates) x strata "
        "(generic, quadrants, near-axis, near-light-cone, axis-aligned, large, ultra-relativistic, exactly light-like, "
        "antiparallel/perpendicular pairs) x tolerances; non-trivial = operands not all-zero; distinct = distinct "
        "(check, signature, stratum, rep)")
ASSUMPTIONS = ["finite operands", "off the z axis for theta/eta storage where a sign of z is asserted"]
EPS = 1e-9


def close(a, b, tol=1e-7):
    return abs(a - b) <= tol * max(1.0, abs(a), abs(b))


def run(ctx):
    import vector
    deep = ctx.tier == "thorough" or bool(ctx.broken)
    reps = 8 if deep else 2
    n = 0
    distinct = set()
    samples = []
    pi = math.pi
    with numpy.errstate(all="ignore"):
        # ---- unary: ranges and signs
        for dim in (2, 3, 4):
            for names in H.SYS[dim]:
                sysn = H.sysname(names)
                rng = H.rng_for(ctx.seed, "C13u", dim, names)
                for stratum in H.STRATA:
                    for rep in range(reps):
                        x, y, z, t = H.cart_stratum(rng, stratum, dim)
                        if rep % 3 == 2 and dim == 4:   # spacelike / tachyonic
                            t = math.sqrt(x * x + y * y + z * z) * rng.uniform(0.1, 0.9)
                        co = H.from_cart(names, x, y, z, t)
                        if stratum == "generic" and rep % 2 == 1:   # stored coordinates drawn directly
                            co = H.stored_stratum(rng, names)
                            x, y = (co["x"], co["y"]) if "x" in co else (co["rho"] * math.cos(co["phi"]), co["rho"] * math.sin(co["phi"]))
                            rh = math.hypot(x, y)
                            z = co["z"] if "z" in co else (rh / math.tan(co["theta"]) if "theta" in co else (rh * math.sinh(co["eta"]) if "eta" in co else 0.0))
                            if dim == 4:
                                t = co["t"] if "t" in co else math.sqrt(max(math.copysign(co["tau"] ** 2, co["tau"]) + x * x + y * y + z * z, 0.0))
                        v = H.obj(vector, names, co, momentum=bool(rep % 2))
                        site = f"object:{dim}D:{sysn}"
                        inp = {"v": repr(v), "stratum": stratum}
                        n += 1
                        distinct.add(("unary", sysn, stratum, rep))
                        if not (-pi <= v.phi <= pi) and "phi" not in names:
                            ctx.fail(site + ":phi_range", f"phi={v.phi}", inp)
                        if v.rho < 0 and "rho" not in names or v.rho2 < 0:
                            ctx.fail(site + ":rho_nonneg", f"rho={v.rho} rho2={v.rho2}", inp)
                        if dim >= 3:
                            if "theta" not in names and not (0 <= v.theta <= pi):
                                ctx.fail(site + ":theta_range", f"theta={v.theta}", inp)
                            if v.mag < 0 or v.mag2 < 0:
                                ctx.fail(site + ":mag_nonneg", f"mag={v.mag} mag2={v.mag2}", inp)
                            zz = v.z
                            if math.hypot(x, y) > 1e-6 and abs(zz) > 1e-9:
                                for nm in ("costheta", "cottheta"):
                                    val = getattr(v, nm)
                                    if (val > 0) != (zz > 0):
                                        ctx.fail(site + f":{nm}_sign", f"{nm}={val} z={zz}", inp)
                        if dim == 4:
                            if v.t2 < 0:
                                ctx.fail(site + ":t2_nonneg", f"t2={v.t2}", inp)
                            if "tau" in names:
                                tt = v.t
                                if math.isnan(tt) or tt < 0:
                                    ctx.fail(site + ":t_from_tau", f"t={tt}", inp)
                            else:
                                tau, t2m = v.tau, t * t - (x * x + y * y + z * z)
                                if abs(t2m) > 1e-6 * t * t and (tau < 0) != (t2m < 0):
                                    ctx.fail(site + ":tau_sign", f"tau={tau} but t^2-mag^2={t2m}", inp)
                            if "tau" not in names and t > 0 and t * t > (x * x + y * y + z * z) * (1 + 1e-6):
                                if not (0 <= v.beta < 1) or not (v.gamma >= 1):
                                    ctx.fail(site + ":beta_gamma", f"beta={v.beta} gamma={v.gamma}", inp)
                            for tol in (0.0, 1e-5, 0.5, rng.uniform(0, 3)):
                                tl, ll, sl = v.is_timelike(tol), v.is_lightlike(tol), v.is_spacelike(tol)
                                n += 1
                                if int(bool(tl)) + int(bool(ll)) + int(bool(sl)) > 1:
                                    ctx.fail(site + ":causal_overlap", f"timelike={tl} lightlike={ll} spacelike={sl} tol={tol}",
                                             dict(inp, tol=tol))
                                d = v.dot(v)
                                if (tl and not d > 0) or (sl and not d < 0):
                                    ctx.fail(site + ":causal_sign", f"timelike={tl} spacelike={sl} v.v={d}", dict(inp, tol=tol))
                                if abs(d) > 1e-6 * t * t and tol == 0.0 and not (tl or sl):
                                    ctx.fail(site + ":causal_sign", f"neither timelike nor spacelike, v.v={d}", dict(inp, tol=tol))
                        if len(samples) < 4 and stratum == "near_lightcone" and dim == 4:
                            samples.append({"v": repr(v), "is_timelike": bool(v.is_timelike()), "tau": v.tau})
                # exactly light-like (3-4-5 style) vectors
                if dim == 4:
                    for (x, y, z, t) in [(3.0, 4.0, 0.0, 5.0), (1.0, 2.0, 2.0, 3.0), (0.0, 0.0, 2.0, 2.0)]:
                        co = H.from_cart(names, x, y, z, t)
                        v = H.obj(vector, names, co)
                        n += 1
                        distinct.add(("lightlike", sysn, x))
                        for tol in (1e-5, 1e-3):
                            if v.is_lightlike(tol) and v.is_spacelike(tol) or v.is_lightlike(tol) and v.is_timelike(tol):
                                ctx.fail(f"object:4D:{sysn}:causal_overlap", "a light-like vector is also classified time/space-like",
                                         {"v": repr(v), "tol": tol})
                        if "tau" not in names and math.hypot(x, y) > 0 and not close(v.beta, 1.0, 1e-6):
                            ctx.fail(f"object:4D:{sysn}:beta_lightlike", f"beta={v.beta}", {"v": repr(v)})
        # ---- binary: deltaphi, deltaangle, parallel predicates
        for dim in (2, 3):
            for n1, n2 in H.pairs(dim):
                rng = H.rng_for(ctx.seed, "C13b", dim, n1, n2)
                site = f"object:{dim}D:{H.sysname(n1)}|{H.sysname(n2)}"
                for stratum in ("quadrants", "near_axis", "large", "special"):
                    for rep in range(reps + 2):
                        if stratum == "special":
                            x, y, z, _ = H.cart_stratum(rng, "quadrants", dim)
                            k = [(-1.0, "anti"), (2.5, "par"), (None, "perp"), (-3.0, "anti")][rep % 4]
                            if k[0] is None:
                                c2 = (-y, x, 0.0, 0.0)
                            else:
                                c2 = (k[0] * x, k[0] * y, k[0] * z, 0.0)
                            c1 = (x, y, z, 0.0)
                        else:
                            c1, c2 = H.cart_stratum(rng, stratum, dim), H.cart_stratum(rng, stratum, dim)
                        if dim == 2:
                            c1, c2 = (c1[0], c1[1], 0.0, 0.0), (c2[0], c2[1], 0.0, 0.0)
                        a = H.obj(vector, n1, H.from_cart(n1, *c1))
                        b = H.obj(vector, n2, H.from_cart(n2, *c2))
                        inp = {"a": repr(a), "b": repr(b), "stratum": stratum}
                        n += 1
                        distinct.add(("binary", n1, n2, stratum, rep))
                        dp = a.deltaphi(b)
                        if not (-pi <= dp <= pi):
                            ctx.fail(site + ":deltaphi_range", f"deltaphi={dp}", inp)
                        if dim == 3:
                            da = a.deltaangle(b)
                            if not (0 <= da <= pi):
                                ctx.fail(site + ":deltaangle_range", f"deltaangle={da}", inp)
                        dot = sum(p * q for p, q in zip(c1[:3], c2[:3]))
                        m1 = math.sqrt(sum(p * p for p in c1[:3]))
                        m2 = math.sqrt(sum(p * p for p in c2[:3]))
                        if m1 * m2 == 0:
                            continue
                        cosv = dot / (m1 * m2)
                        for tol in (1e-5, 1e-2, 0.3):
                            margin = 1e-7
                            want = {"is_parallel": cosv > 1 - tol, "is_antiparallel": cosv < -1 + tol, "is_perpendicular": abs(cosv) < tol}
                            dist = {"is_parallel": abs(cosv - (1 - tol)), "is_antiparallel": abs(cosv - (-1 + tol)),
                                    "is_perpendicular": abs(abs(cosv) - tol)}
                            for m, w in want.items():
                                if dist[m] < margin:
                                    continue  # on the decision boundary up to rounding: undecidable in floats
                                got = bool(getattr(a, m)(b, tol))
                                if got != w:
                                    ctx.fail(site + f":{m}", f"{m}(tol={tol}) is {got}, cosine of the angle is {cosv}", dict(inp, tol=tol))
    ctx.coverage["evaluations"] = n
    ctx.coverage["distinct_nontrivial"] = len(distinct)
    ctx.coverage["samples"] = samples
    ctx.coverage["correspondences"] = {"object backend vs independent float64 geometry (ranges, signs, predicates)": {"ok": not ctx.failures}}


def boundary_axis(ctx):
    """vectors exactly on the +-z axis, on the x / y axes and in the z = 0 plane, in the storages that represent them (z storage),
    with IEEE arithmetic (NumPy arrays, Awkward arrays, objects holding numpy scalars): costheta and cottheta have the sign of z
    (+-1 and +-inf on the axis, 0 in the plane), theta is 0 / pi / pi/2, eta is +-inf with the sign of z on the axis"""
    import awkward as ak
    import vector
    n = 0
    pts = [(0.0, 0.0, 2.5), (0.0, 0.0, -2.5), (0.0, 0.0, 1e-3), (0.0, 0.0, -4e5), (1.5, 0.0, 0.0), (0.0, -1.5, 0.0), (-2.0, 0.0, 0.0), (1.0, 1.0, 0.0)]
    with numpy.errstate(all="ignore"):
        for names in (("x", "y", "z"), ("rho", "phi", "z"), ("x", "y", "z", "t"), ("rho", "phi", "z", "tau"), ("rho", "phi", "z", "t"), ("x", "y", "z", "tau")):
            for mom in (False, True):
                cols = {}
                for x, y, z in pts:
                    c = H.from_cart(names[:3], x, y, z)
                    c.update({"t": 10.0, "tau": 3.0})
                    for k in names:
                        cols.setdefault(H.MOM.get(k, k) if mom else k, []).append(c[k])
                arrs = {"numpy": vector.array({k: numpy.array(v) for k, v in cols.items()}),
                        "awkward": vector.Array(ak.zip({k: ak.Array(v) for k, v in cols.items()})),
                        "object(numpy scalars)": [vector.obj(**{k: numpy.float64(v[i]) for k, v in cols.items()}) for i in range(len(pts))]}
                for be, a in arrs.items():
                    for q in ("costheta", "cottheta", "theta", "eta"):
                        n += 1
                        try:
                            vals = [float(getattr(o, q)) for o in a] if isinstance(a, list) else [float(v) for v in (numpy.asarray(getattr(a, q)) if be == "numpy" else ak.to_list(getattr(a, q)))]
                        except Exception as e:
                            ctx.fail(f"boundary:{be}:{H.sysname(names)}:{q}", f"raises {type(e).__name__}: {e}"[:200], {"points": pts})
                            continue
                        for (x, y, z), v in zip(pts, vals):
                            rho = math.hypot(x, y)
                            sz = (z > 0) - (z < 0)
                            if q in ("costheta", "cottheta", "eta"):
                                ok = (not math.isnan(v)) and ((v > 0) - (v < 0)) == sz
                                if q == "costheta" and rho == 0:
                                    ok = ok and abs(v) == 1.0
                                if q in ("cottheta", "eta") and rho == 0:
                                    ok = ok and math.isinf(v)
                            else:
                                want = (0.0 if z > 0 else math.pi) if rho == 0 else (math.pi / 2 if z == 0 else math.atan2(rho, z))
                                ok = 0.0 <= v <= math.pi and abs(v - want) < 1e-12
                            if not ok:
                                ctx.fail(f"boundary:{be}:{H.sysname(names)}:{'momentum' if mom else 'generic'}:{q}",
                                         f"{q} = {v!r} for the vector (x, y, z) = {(x, y, z)} stored as {names} ({be}); z has sign {sz}", {"point": [x, y, z], "names": list(names)})
    return n


_run_without_compiled = run


def run(ctx):
    _run_without_compiled(ctx)
    ctx.coverage["evaluations"] = ctx.coverage.get("evaluations", 0) + boundary_axis(ctx)
    ctx.coverage["correspondences"]["boundary strata (on the z axis, on the x / y axes, in the z = 0 plane) on NumPy / Awkward / numpy-scalar objects"] = {"ok": not any(f["site"].startswith("boundary:") for f in ctx.failures)}
    from tools import nbrows
    nbrows.check(ctx, ['phi', 'theta', 'eta', 'rho', 'rho2', 'mag', 'mag2', 'costheta', 'cottheta', 't', 't2', 'tau', 'tau2', 'beta', 'gamma', 'rapidity', 'deltaphi', 'deltaangle', 'deltaeta', 'deltaR', 'deltaR2', 'deltaRapidityPhi', 'deltaRapidityPhi2', 'is_timelike', 'is_spacelike', 'is_lightlike', 'is_timelike_tol', 'is_spacelike_tol', 'is_parallel', 'is_antiparallel', 'is_perpendicular', 'is_parallel_tol'], 'the ranged quantities and predicates')


def replay(rec):
    import vector
    f = rec.get("failure") or {}
    inp = f.get("input") or {}
    ns = {k: getattr(vector, k) for k in ("VectorObject2D", "VectorObject3D", "VectorObject4D", "MomentumObject2D",
                                          "MomentumObject3D", "MomentumObject4D")}
    ns.update(inf=float("inf"), nan=float("nan"))
    out = {"site": f.get("site"), "input": inp}
    site = f.get("site", "")
    if "v" in inp:
        v = eval(inp["v"], ns)
        tol = inp.get("tol", 1e-5)
        if len(v.__slots__) == 3:
            out.update(timelike=bool(v.is_timelike(tol)), lightlike=bool(v.is_lightlike(tol)), spacelike=bool(v.is_spacelike(tol)))
            if "causal_overlap" in site:
                out["still_fails"] = out["timelike"] + out["lightlike"] + out["spacelike"] > 1
    if "a" in inp:
        a, b = eval(inp["a"], ns), eval(inp["b"], ns)
        m = site.split(":")[-1]
        if m.startswith("is_"):
            out[m] = bool(getattr(a, m)(b, inp.get("tol", 1e-5)))
            out["note"] = f["what"]
            out["still_fails"] = None
    return out
