"""C20 — no trace in process-wide state; thread determinism.  Correspondence of model/Effects.v with the interpreter:
the observable state is snapshotted before and after every catalogued public call (returning and raising) under several
prior settings, on every backend; registration is run twice in a child process; identical call lists are run
sequentially and on 16 threads and compared bit for bit; the per-thread error state the model assumes is probed."""
from __future__ import annotations

import copy
import json
import os
import subprocess
import sys
import threading
import warnings
from concurrent.futures import ThreadPoolExecutor

import numpy

from tools import arrayharness as AH
from tools import harness as H

COQ_TARGETS = ["props/C20.vo"]
RULE = ("every catalogued getter / unary / binary call plus 14 raising calls x backends (object, numpy, awkward flat and jagged, sympy) x "
        "coordinate systems x 5 prior settings of numpy.seterr / warnings.filters / printoptions / awkward.behavior; the observable "
        "state is compared before/after each call; distinct = distinct (backend, operation, system, flavor, setting, outcome kind); "
        "thread runs: the same call list sequentially and on 16 threads under 3 partitions, results compared bit for bit")
ASSUMPTIONS = ["state observed: numpy.geterr(), numpy.geterrcall(), warnings.filters, numpy.get_printoptions(), awkward.behavior, "
               "vector.backends.awkward.behavior, vector._awkward_registered, every module-level dict / list / set of the vector package (sizes; keys of the small ones) (sys.modules / import caches are not observed)",
               "the CPython scheduler chooses the interleavings of the 16-thread runs; the theorem C20_threads_deterministic covers all of them in the model"]
TRUSTED = ["T2 (tools/vtrace/t2.py): Python-ast effect skeletons of every dispatch(), scan of global writers and context managers",
           "numpy.errstate restores the previous setting on every exit and is per thread (probed by this harness on every run)",
           "the compute functions below dispatch() only evaluate lib expressions (T1 fail-closed audit)"]


# ------------------------------------------------------------------ observable state
_containers = {"n": -1, "list": []}


class CommonKeys(dict):
    """compared on the keys both snapshots have: a lazily imported module adds containers, which is not a change of state"""

    def __eq__(self, other):
        return all(other[k] == v for k, v in self.items() if k in other)

    def __ne__(self, other):
        return not self.__eq__(other)

    def get(self, k, default=None):
        return dict.get(self, k, _ABSENT)


class _Absent:
    def __eq__(self, other):
        return True

    def __ne__(self, other):
        return False


_ABSENT = _Absent()


def vector_tables():
    """every module-level dict / list / set of the vector package (dispatch maps, alias tables, class registries): sizes, and the
    keys of the alias / registry tables of vector._methods and the backends; the list of containers is recomputed only when a new
    vector module has been imported"""
    nmods = sum(1 for k in sys.modules if k == "vector" or k.startswith("vector."))
    if nmods != _containers["n"]:
        lst = []
        for mk, m in list(sys.modules.items()):
            if m is None or not (mk == "vector" or mk.startswith("vector.")):
                continue
            for k, v in list(vars(m).items()):
                if isinstance(v, (dict, list, set)) and not k.startswith("__"):
                    lst.append((f"{m.__name__}.{k}", v, (mk == "vector._methods" or mk.startswith("vector.backends")) and k != "behavior"))
        _containers["n"], _containers["list"] = nmods, lst
    out = CommonKeys()
    for name, v, keyed in _containers["list"]:
        out[name] = (len(v), tuple(map(repr, v)) if keyed and len(v) <= 64 else None)
    return out


def snapshot():
    import awkward
    import vector
    import vector.backends.awkward as VA
    po = numpy.get_printoptions()
    return {
        "vector module-level tables": vector_tables(),
        "numpy.geterr": dict(numpy.geterr()),
        "numpy.geterrcall": id(numpy.geterrcall()),
        "warnings.filters": [(f[0], getattr(f[1], "pattern", f[1]), f[2].__name__, getattr(f[3], "pattern", f[3]), f[4]) for f in warnings.filters],
        "numpy.printoptions": {k: (v if not callable(v) else id(v)) for k, v in po.items()},
        "awkward.behavior": {repr(k): id(v) for k, v in awkward.behavior.items()},
        "vector.backends.awkward.behavior": {repr(k): id(v) for k, v in VA.behavior.items()},
        "vector._awkward_registered": vector._awkward_registered,
    }


def diff(a, b):
    out = []
    for k in a:
        if a[k] != b[k]:
            if isinstance(a[k], dict):
                ks = [x for x in set(a[k]) | set(b[k]) if a[k].get(x, "<absent>") != b[k].get(x, "<absent>")]
                out.append(f"{k}: keys {sorted(ks)[:4]} changed")
            else:
                out.append(f"{k}: {str(a[k])[:80]} -> {str(b[k])[:80]}")
    return out


class Setting:
    """a prior setting of the process-wide state, restored on exit"""

    def __init__(self, name):
        self.name = name

    def __enter__(self):
        import awkward
        self.err = numpy.geterr()
        self.filters = warnings.filters[:]
        self.po = numpy.get_printoptions()
        self.beh = dict(awkward.behavior)
        n = self.name
        if n == "raise":
            numpy.seterr(all="raise")
            warnings.simplefilter("error")
        elif n == "ignore":
            numpy.seterr(all="ignore")
            warnings.simplefilter("ignore")
        elif n == "mixed":
            numpy.seterr(divide="raise", over="warn", under="ignore", invalid="print")
            warnings.filterwarnings("always", category=RuntimeWarning, module="zzz_verif")
            numpy.set_printoptions(precision=3, threshold=7, suppress=True)
        elif n == "custom_behavior":
            awkward.behavior["zzz_verif_custom"] = CustomRecord
            numpy.seterr(all="warn")
            warnings.simplefilter("default")
        return self

    def __exit__(self, *exc):
        import awkward
        numpy.seterr(**self.err)
        warnings.filters[:] = self.filters
        if hasattr(warnings, "_filters_mutated"):
            warnings._filters_mutated()
        numpy.set_printoptions(**self.po)
        awkward.behavior.clear()
        awkward.behavior.update(self.beh)
        return False


try:
    import awkward as _ak

    class CustomRecord(_ak.Record):
        pass
except Exception:  # pragma: no cover
    CustomRecord = None

import itertools
_fresh = itertools.count()
SETTINGS = ["default", "raise", "ignore", "mixed", "custom_behavior"]


# ------------------------------------------------------------------ catalogue of calls
def operands(backend, names, mom, rng, n=3, role="vec"):
    import vector
    dim = len(names)
    pts = [AH.point(rng, names, dim, role) for _ in range(n)]
    if backend == "object":
        return H.obj(vector, names, pts[0], momentum=mom)
    if backend == "numpy":
        return vector.array({(H.MOM.get(k, k) if mom else k): numpy.array([p[k] for p in pts]) for k in names})
    if backend == "awkward":
        return vector.Array([AH.rec(names, p, mom) for p in pts])
    if backend == "awkward_jagged":
        return vector.Array([[AH.rec(names, pts[0], mom)], [], [AH.rec(names, p, mom) for p in pts[1:]]])
    if backend == "awkward_custom":          # data that already carries its own behavior
        import awkward
        base = awkward.Array([AH.rec(names, p, mom) for p in pts], behavior={"zzz_own": CustomRecord, f"__zzz_own_{next(_fresh)}__": 1})
        return vector.Array(base)
    if backend == "sympy":
        import sympy
        from vector.backends import sympy as VS
        cls = {(2, False): VS.VectorSympy2D, (3, False): VS.VectorSympy3D, (4, False): VS.VectorSympy4D,
               (2, True): VS.MomentumSympy2D, (3, True): VS.MomentumSympy3D, (4, True): VS.MomentumSympy4D}[(dim, mom)]
        return cls(**{(H.MOM.get(k, k) if mom else k): sympy.Symbol(f"s{rng.randrange(10**6)}_{k}", real=True) for k in names})
    raise KeyError(backend)


def raising_calls():
    """(name, thunk) — public calls that raise (TypeError / ValueError / AttributeError / ZeroDivisionError) or hit singular inputs"""
    import vector
    o2 = vector.obj(x=1.0, y=2.0)
    o3 = vector.obj(x=1.0, y=2.0, z=3.0)
    o4 = vector.obj(x=1.0, y=2.0, z=3.0, t=1.0)
    a3 = vector.array({"x": [1.0, 0.0], "y": [2.0, 0.0], "z": [3.0, 0.0]})
    k4 = vector.Array([{"x": 0.0, "y": 0.0, "z": 0.0, "t": 0.0}, {"x": 1.0, "y": 1.0, "z": 1.0, "t": 0.5}])
    return [
        ("obj+str", lambda: o2 + "x"), ("cross(3D,2D)", lambda: o3.cross(o2)), ("obj(duplicate)", lambda: vector.obj(x=1, px=2, y=3)),
        ("obj(missing)", lambda: vector.obj(x=1)), ("array(bad names)", lambda: vector.array({"x": [1.0], "q": [2.0]})),
        ("Array(str field)", lambda: vector.Array([{"x": "a", "y": "b"}])), ("to_Vector4D(bad kw)", lambda: o2.to_Vector4D(foo=1)),
        ("boost(beta>=1)", lambda: o4.boostX(beta=1.0)), ("boost(both)", lambda: o4.boostX(beta=0.1, gamma=2.0)), ("unit(zero array)", lambda: a3.unit()),
        ("singular awkward", lambda: (k4.eta, k4.rapidity, k4.unit(), k4.beta, k4.gamma)), ("rotate_euler(bad order)", lambda: o3.rotate_euler(0.1, 0.2, 0.3, order="abc")),
        ("4D.dot(2D)", lambda: o4.dot(o2)), ("object zero unit", lambda: vector.obj(x=0.0, y=0.0).unit()), ("setattr", lambda: setattr(o2, "x", 5)),
        ("str coordinates inside the override", lambda: vector.array({"x": numpy.array(["a", "b"], dtype=object), "y": numpy.array(["c", "d"], dtype=object)}).rho),
        ("None coordinate inside the override", lambda: vector.obj(x=None, y=1.0).rho), ("complex phi", lambda: vector.obj(x=1j, y=1.0).phi),
        ("deltaangle(zero)", lambda: vector.obj(x=0.0, y=0.0, z=0.0).deltaangle(o3)),
    ]


def raising_inside_every_dispatch():
    """(name, thunk) — for every getter / unary / binary method of the catalogue a call whose failure happens INSIDE the compute
    dispatch (after the error state was switched): operands that cannot be broadcast, and object-dtype coordinates holding None"""
    import vector
    out = []
    none = lambda n: numpy.array([None, 1.0, 2.0][:n], dtype=object)  # noqa: E731
    for dim in (2, 3, 4):
        for names in (H.SYS[dim][0], H.SYS[dim][-1]):
            try:
                bad = vector.array({k: none(3) for k in names})
            except Exception:
                bad = None
            good3 = vector.array({k: numpy.array([1.0, 2.0, 3.0]) + i for i, k in enumerate(names)})
            good4 = vector.array({k: numpy.array([1.0, 2.0, 3.0, 4.0]) + i for i, k in enumerate(names)})
            tag = f"{dim}D:{H.sysname(names)}"
            for g in AH.GETTERS[dim]:
                if bad is not None:
                    out.append((f"None-coordinate:{tag}:{g}", (lambda v=bad, g=g: getattr(v, g))))
            for nm, (mind, f) in AH.UNARY.items():
                if mind <= dim and bad is not None:
                    out.append((f"None-coordinate:{tag}:{nm}", (lambda v=bad, f=f: f(v))))
            for nm, (da, db, f) in AH.BINARY.items():
                if (da or dim) != dim:
                    continue
                bd = db or dim
                o4 = vector.array({k: numpy.array([1.0, 2.0, 3.0, 4.0]) * 0.1 + 0.05 * i for i, k in enumerate(H.SYS[bd][0])})
                out.append((f"no-broadcast:{tag}:{nm}", (lambda a=good3, b=o4, f=f: f(a, b))))
                if bad is not None and bd == dim:
                    out.append((f"None-coordinate:{tag}:{nm}", (lambda a=bad, b=good3, f=f: f(a, b))))
    return out


def build_calls(ctx_seed, deep):
    """list of (site, thunk) over backends x systems x flavors; operands are built once, outside the observed call"""
    calls = []
    backends = ["object", "numpy", "awkward", "awkward_jagged", "awkward_custom", "sympy"]
    for backend in backends:
        for dim in (2, 3, 4):
            systems = H.SYS[dim] if (deep or backend in ("object", "awkward_custom")) else [H.SYS[dim][0], H.SYS[dim][-1]]
            for si, names in enumerate(systems):
                for mom in ((False, True) if (deep or backend == "object") else (si % 2 == 0,)):
                    rng = H.rng_for(ctx_seed, "C20", backend, names, mom)
                    try:
                        v = operands(backend, names, mom, rng)
                        other_names = H.SYS[dim][(si + 3) % len(H.SYS[dim])]
                        w = operands(backend if backend != "awkward_custom" else "awkward", other_names, False, rng)
                        b3 = operands(backend if backend != "awkward_custom" else "awkward", H.SYS[3][si % 6], False, rng, role="beta3") if dim == 4 else None
                    except Exception as e:  # constructing is itself a public call; reported by the constructor checks below
                        calls.append((f"{backend}:{dim}D:{H.sysname(names)}:construct-failed:{type(e).__name__}", None))
                        continue
                    site0 = f"{backend}:{dim}D:{H.sysname(names)}:{'momentum' if mom else 'generic'}"
                    calls.append((f"{site0}:construct", (lambda backend=backend, names=names, mom=mom: operands(backend, names, mom, H.rng_for(ctx_seed, "C20c", backend, names, mom)))))
                    for g in AH.GETTERS[dim]:
                        calls.append((f"{site0}:{g}", (lambda v=v, g=g: getattr(v, g))))
                    for nm, (mind, f) in AH.UNARY.items():
                        if mind <= dim:
                            calls.append((f"{site0}:{nm}", (lambda v=v, f=f: f(v))))
                    for nm, (da, db, f) in AH.BINARY.items():
                        if (da or dim) != dim:
                            continue
                        other = b3 if (db == 3 and dim == 4) else w
                        calls.append((f"{site0}|{H.sysname(other_names)}:{nm}", (lambda v=v, other=other, f=f: f(v, other))))
                    calls.append((f"{site0}:repr", (lambda v=v: (repr(v), str(v)))))
                    if backend == "numpy":      # explicit in-place assignments (on a private copy: the operands are shared with the thread runs) may change their operand, never a process-wide table
                        keys = list(names) + ([H.MOM.get(k, k) for k in names if H.MOM.get(k, k) != k] if mom else [])
                        for key in keys:
                            calls.append((f"{site0}:setitem[{key}]", (lambda v=v, key=key: v.copy().__setitem__(key, numpy.asarray(v[key]) * 1.0))))
                        calls.append((f"{site0}:setitem[0]", (lambda v=v: v.copy().__setitem__(0, v[1]))))
                    if backend in ("object", "numpy", "sympy") and w is not None:
                        calls.append((f"{site0}:iadd", (lambda v=v, w=w: copy.deepcopy(v).__iadd__(w))))
                        calls.append((f"{site0}:imul", (lambda v=v: copy.deepcopy(v).__imul__(1.0))))
    return calls


def canon(r):
    """bit-exact canonical form of a result"""
    import vector
    try:
        import awkward
        if isinstance(r, (awkward.Array, awkward.Record)):
            return ("ak", str(r.type) if hasattr(r, "type") else "", json.dumps(awkward.to_list(r), default=lambda x: float(x).hex() if isinstance(x, float) else str(x), sort_keys=True))
    except Exception:
        pass
    if isinstance(r, numpy.ndarray):
        return ("np", type(r).__name__, str(r.dtype), r.shape, r.tobytes())
    if isinstance(r, vector._methods.Vector):
        fs = AH.vec_fields(r)
        return ("obj", type(r).__name__, tuple((f, canon(getattr(r, f))) for f in fs))
    if isinstance(r, (float, numpy.floating)):
        return ("f", float(r).hex())
    if isinstance(r, tuple):
        return tuple(canon(x) for x in r)
    return ("o", type(r).__name__, str(r))


# ------------------------------------------------------------------ the checks
REG_CHILD = r"""
import json, sys
import numpy, warnings
from tools.props import C20
import vector, awkward
import vector.backends.awkward as VA
out = {"fail": []}
s0 = C20.snapshot()
vector.register_awkward(); s1 = C20.snapshot()
vector.register_awkward(); s2 = C20.snapshot()
if s1 != s2: out["fail"].append(["register_awkward:twice", C20.diff(s1, s2)])
d = C20.diff(s0, s1)
allowed = ("awkward.behavior", "vector._awkward_registered")
if any(not x.startswith(allowed) for x in d): out["fail"].append(["register_awkward:other-state", d])
if not all(awkward.behavior.get(k) is v for k, v in VA.behavior.items()): out["fail"].append(["register_awkward:entries", "awkward.behavior lacks vector's entries"])
if not vector._awkward_registered: out["fail"].append(["register_awkward:flag", "flag not set"])
# operations in the registered mode leave no trace either
n = 0
for site, th in C20.build_calls(int(sys.argv[1]), False):
    if th is None or not site.startswith("awkward"): continue
    b = C20.snapshot()
    try: th()
    except Exception: pass
    a = C20.snapshot(); n += 1
    if a != b: out["fail"].append(["registered:" + site, C20.diff(b, a)])
try:
    t0 = C20.snapshot(); vector.register_numba(); t1 = C20.snapshot(); vector.register_numba(); t2 = C20.snapshot()
    if t0 != t1 or t1 != t2: out["fail"].append(["register_numba:observed-state", C20.diff(t0, t2)])
    import numba
    from numba.core import typing
    out["numba"] = True
except ImportError:
    out["numba"] = False
out["registered_calls"] = n
print("RESULT " + json.dumps(out))
"""


def run(ctx):
    import vector
    deep = ctx.tier == "thorough" or bool(ctx.broken)
    n = 0
    distinct = set()
    kinds = {"returned": 0, "raised": 0}
    exc_kinds = {}
    s_start = snapshot()
    calls = build_calls(ctx.seed, deep)
    if snapshot() != s_start:
        # find the constructor that did it
        for backend in ("object", "numpy", "awkward", "awkward_jagged", "awkward_custom", "sympy"):
            for dim in (2, 3, 4):
                for names in H.SYS[dim]:
                    b = snapshot()
                    try:
                        operands(backend, names, False, H.rng_for(ctx.seed, "C20s", backend, names))
                    except Exception:
                        pass
                    a = snapshot()
                    if a != b:
                        ctx.fail(f"trace:{backend}:{dim}D:{H.sysname(names)}:construct", "the constructor changed " + "; ".join(diff(b, a)), {"backend": backend})
        if not ctx.failures:
            ctx.fail("trace:constructors", "building the operands changed " + "; ".join(diff(s_start, snapshot())), {})
    for site, th in calls:
        if th is None:
            ctx.fail(site, "constructor raised on a valid record", {})
    calls = [(s, t) for s, t in calls if t is not None]
    raising = raising_calls() + raising_inside_every_dispatch()
    for setting in SETTINGS:
        with Setting(setting):
            for site, th in calls + [("raising:" + nm, t) for nm, t in raising]:
                before = snapshot()
                outcome = "returned"
                try:
                    th()
                except Exception as e:
                    outcome = "raised"
                    exc_kinds[type(e).__name__] = exc_kinds.get(type(e).__name__, 0) + 1
                after = snapshot()
                n += 1
                kinds[outcome] += 1
                distinct.add((site, setting, outcome))
                if after != before:
                    ctx.fail(f"trace:{site}", f"under prior setting {setting!r} the call {outcome} and changed " + "; ".join(diff(before, after)), {"setting": setting, "site": site})
    ctx.coverage["calls_observed"] = n
    ctx.coverage["outcomes"] = kinds
    ctx.coverage["exception_kinds"] = exc_kinds

    # registration: idempotent, touches only the registries — in a child process (it is irreversible)
    p = subprocess.run([sys.executable, "-c", REG_CHILD, str(ctx.seed)], capture_output=True, text=True, timeout=900,
                       env=dict(os.environ, PYTHONPATH=(os.environ.get("VERIF_REPO") or "/repo") + "/src:" + os.path.dirname(os.path.dirname(os.path.dirname(os.path.abspath(__file__)))), PYTHONHASHSEED="0"))
    res = None
    for line in p.stdout.splitlines():
        if line.startswith("RESULT "):
            res = json.loads(line[7:])
    if res is None:
        ctx.fail("register:child", "registration child process failed: " + p.stderr[-400:], {})
    else:
        for site, what in res["fail"]:
            ctx.fail(site, str(what)[:300], {})
        ctx.coverage["registered_mode_calls"] = res["registered_calls"]
        n += res["registered_calls"]

    # the model's assumption: the error state is per thread and restored by the context manager on every exit
    probe = {}
    bar = threading.Barrier(2)

    def holder():
        numpy.seterr(all="warn")
        try:
            with numpy.errstate(all="ignore"):
                bar.wait(timeout=20)
                bar.wait(timeout=20)
                raise ValueError("leave by exception")
        except ValueError:
            pass
        probe["holder_after"] = dict(numpy.geterr())

    def watcher():
        numpy.seterr(all="raise")
        bar.wait(timeout=20)
        probe["watcher_during"] = dict(numpy.geterr())
        bar.wait(timeout=20)

    ths = [threading.Thread(target=holder), threading.Thread(target=watcher)]
    main_before = dict(numpy.geterr())
    [t.start() for t in ths]
    [t.join() for t in ths]
    if set(probe.get("watcher_during", {}).values()) != {"raise"} or set(probe.get("holder_after", {}).values()) != {"warn"} or dict(numpy.geterr()) != main_before:
        ctx.fail("threads:errstate-probe", f"numpy's error state is not per-thread / not restored: {probe}", {})

    # threads: identical call lists sequentially and on 16 threads
    tcalls = [(s, t) for s, t in calls if not s.startswith("sympy")] + [("raising:" + nm, t) for nm, t in raising if nm != "setattr"]
    if not deep:
        tcalls = tcalls[::3]

    def run_one(th):
        try:
            return ("ok", canon(th()))
        except Exception as e:
            return ("exc", type(e).__name__, str(e)[:200])

    with numpy.errstate(all="ignore"):
        seq = [run_one(t) for _, t in tcalls]
    nthreads = 16
    part_names = ["every thread runs the whole list", "round-robin partition", "contiguous blocks"]
    errs_seen = []
    for pi, pname in enumerate(part_names):
        if pi == 0:
            parts = [list(range(len(tcalls))) for _ in range(nthreads if deep else 4)]
        elif pi == 1:
            parts = [list(range(k, len(tcalls), nthreads)) for k in range(nthreads)]
        else:
            sz = (len(tcalls) + nthreads - 1) // nthreads
            parts = [list(range(k * sz, min(len(tcalls), (k + 1) * sz))) for k in range(nthreads)]
        start = threading.Barrier(len(parts))

        def worker(k, idxs):
            mode = ("ignore", "warn", "ignore", "print")[k % 4]
            numpy.seterr(all="ignore" if mode == "print" else mode)
            mine = dict(numpy.geterr())
            start.wait(timeout=60)
            out = [(i, run_one(tcalls[i][1])) for i in idxs]
            return out, mine, dict(numpy.geterr())

        before = snapshot()
        with warnings.catch_warnings():
            warnings.simplefilter("ignore")
            filt_before = snapshot()
            with ThreadPoolExecutor(max_workers=len(parts)) as ex:
                futs = [ex.submit(worker, k, idxs) for k, idxs in enumerate(parts)]
                results = [f.result(timeout=1200) for f in futs]
            filt_after = snapshot()
        after = snapshot()
        if filt_after != filt_before or after != before:
            ctx.fail(f"threads:{pname}:trace", "process-wide state changed during the threaded run: " + "; ".join(diff(filt_before, filt_after) + diff(before, after)), {})
        for k, (out, mine, mine_after) in enumerate(results):
            if mine != mine_after:
                ctx.fail(f"threads:{pname}:errstate", f"thread {k}: error state {mine} -> {mine_after}", {})
            for i, r in out:
                n += 1
                if r != seq[i]:
                    ctx.fail(f"threads:{tcalls[i][0]}", f"{pname}: thread {k} got a different result than the sequential run: {str(r)[:120]} vs {str(seq[i])[:120]}", {"call": tcalls[i][0], "partition": pname})
                    errs_seen.append(i)
                    break
        distinct.add(("threads", pname))
    ctx.coverage["thread_calls"] = len(tcalls)
    ctx.coverage["thread_partitions"] = part_names
    ctx.coverage["evaluations"] = n
    ctx.coverage["distinct_nontrivial"] = len(distinct)
    _t2p = os.path.join(os.path.dirname(os.path.dirname(os.path.dirname(os.path.abspath(__file__)))), "build", "t2.json")
    t2 = json.load(open(_t2p)) if os.path.exists(_t2p) else {}
    ctx.coverage["t2"] = {k: t2.get(k) for k in ("dispatch_functions", "global_writers", "context_managers")}
    ctx.coverage["correspondences"] = {
        "observable process-wide state before == after every catalogued call (returning and raising, 5 prior settings)": {"ok": not any(f["site"].startswith("trace:") for f in ctx.failures)},
        "register_awkward / register_numba idempotent and confined to the registries (child process)": {"ok": not any(f["site"].startswith("register") for f in ctx.failures)},
        "16-thread runs == sequential run, bit for bit; per-thread error state (model assumption) probed": {"ok": not any(f["site"].startswith("threads:") for f in ctx.failures)}}


def replay(rec):
    return {"site": (rec.get("failure") or {}).get("site"), "what": (rec.get("failure") or {}).get("what"), "still_fails": None}
