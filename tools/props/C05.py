"""C05 — result backend / flavor / dimension / coordinate system on the REAL code for every backend pairing
(object, NumPy, Awkward array, Awkward record), against the rule written down here (not derived from the code)."""
from __future__ import annotations

import numpy

from tools import harness as H

COQ_TARGETS = ["props/C05.vo"]
RULE = ("lattice: method x coordinate systems of the operands (all in thorough, rotating subset in quick) x {generic, "
        "momentum}^2 x backend pairing (object, numpy, awkward array, awkward record)^2 x operand order x dimension pairing; "
        "expected backend = highest priority counted operand, flavor = any counted momentum, dimension/system = the object "
        "backend's (object x object is decided by the lattice theorems); distinct = distinct lattice points")
ASSUMPTIONS = ["values are generic; only types, classes, field names and raised exceptions are compared (values are C03)"]
PRIO = {"object": 0, "numpy": 1, "awkward": 3, "record": 3}
BIN = ["add", "subtract", "dot", "equal", "not_equal", "isclose", "is_parallel", "is_antiparallel", "is_perpendicular", "cross",
       "deltaphi", "deltaR", "deltaangle", "boost_p4", "boost_beta3", "boost", "rotate_axis"]
OPS = {"add": lambda a, b: a + b, "subtract": lambda a, b: a - b, "equal": lambda a, b: a == b, "not_equal": lambda a, b: a != b,
       "dot": lambda a, b: a @ b}


SAME_DIM = ("add", "subtract", "dot", "equal", "not_equal", "isclose", "is_parallel", "is_antiparallel", "is_perpendicular")


def must_raise(m, d1, d2):
    """the dimension rule of the property, written down independently of the code (same rule as expect_raise in
    coq/model/ObjChecksBin.v): True = must raise, False = must return, None = no rule stated"""
    if m in SAME_DIM:
        return d1 != d2
    if m == "cross":
        return not (d1 == 3 and d2 == 3)
    if m == "rotate_axis":
        return not (d1 >= 3 and d2 == 3)
    if m == "boost_p4":
        return not (d1 == 4 and d2 == 4)
    if m == "boost_beta3":
        return not (d1 == 4 and d2 == 3)
    if m == "boost":
        return not (d1 == 4 and d2 in (3, 4))
    return None


def known_pattern(m, fname, b1, b2, n1, m1, m2, wexc, gexc, want, got):
    """site strings of the listed known findings (anything else keeps its specific site and alarms)"""
    rec = "record" in (b1, b2)
    if fname == "operator" and m in ("equal", "not_equal") and rec and (gexc == "AssertionError" or (got and not got[1])):
        return "known:operator ==/!= with an Awkward record operand"
    if fname == "operator" and m == "dot" and ({b1, b2} & {"awkward", "record"}) and gexc in ("NotImplementedError", "AssertionError", "TypeError"):
        return "known:operator @ with an Awkward operand"
    if fname == "operator" and m in ("add", "subtract") and want and got and want[1] and got[1] and want[2] and not got[2] \
            and ((b1 == "numpy" and m1 and b2 in ("awkward", "record")) or (b2 == "numpy" and m2 and b1 in ("awkward", "record"))):
        return "known:operator +/- of an Awkward vector and a momentum NumPy vector loses the momentum flavor"
    if fname == "method" and m in ("boost", "boost_beta3", "boost_p4") and b1 == "object" and b2 == "awkward" and "tau" in n1 and gexc == "TypeError" and not wexc:
        return "known:tau-stored object boosted by an Awkward array"
    return None

UN = ["unit", "rotateZ", "scale2D", "neg2D", "rotateX", "scale3D", "scale", "to_beta3", "boostX", "to_Vector2D", "to_Vector3D", "to_Vector4D",
      "to_xyz", "to_rhophietatau", "transform2D", "rotate_euler", "neg4D", "is_timelike", "mag"]


def make(vector, ak, backend, names, mom, rng, dim):
    pts = [H.from_cart(names, *H.cart_stratum(rng, "quadrants", dim)) for _ in range(3)]
    cols = {(H.MOM.get(k, k) if mom else k): numpy.array([p[k] for p in pts]) for k in names}
    if backend == "object":
        return H.obj(vector, names, pts[0], momentum=mom)
    if backend == "numpy":
        return vector.array(cols)
    arr = vector.Array(ak.zip(cols))
    return arr if backend == "awkward" else arr[0]


def describe(vector, ak, r):
    """(backend, is_vector, momentum, dim, field names)"""
    from vector._methods import Momentum, Vector, Vector2D, Vector3D, Vector4D
    if isinstance(r, Vector):
        mod = type(r).__module__
        be = "object" if mod.endswith("object") else "numpy" if mod.endswith("numpy") else "awkward"
        dim = 2 if isinstance(r, Vector2D) else 3 if isinstance(r, Vector3D) else 4
        if be == "object":
            fields = [f for f in ("x", "y", "rho", "phi") if f in type(r.azimuthal)._fields]
            if hasattr(r, "longitudinal"):
                fields += list(type(r.longitudinal)._fields)
            if hasattr(r, "temporal"):
                fields += list(type(r.temporal)._fields)
        elif be == "numpy":
            fields = [{"px": "x", "py": "y", "pt": "rho", "pz": "z", "E": "t", "e": "t", "energy": "t", "M": "tau", "m": "tau", "mass": "tau"}.get(f, f) for f in r.dtype.names]
        else:
            fields = [{"px": "x", "py": "y", "pt": "rho", "pz": "z", "E": "t", "e": "t", "energy": "t", "M": "tau", "m": "tau", "mass": "tau"}.get(f, f) for f in ak.fields(r)]
        return (be, True, isinstance(r, Momentum), dim, fields)
    if isinstance(r, ak.Array) or isinstance(r, ak.Record):
        return ("awkward", False, None, None, None)
    if isinstance(r, numpy.ndarray):
        return ("numpy", False, None, None, None)
    return ("object", False, None, None, None)


def run(ctx):
    import awkward as ak
    import vector
    deep = ctx.tier == "thorough" or bool(ctx.broken)
    n = 0
    distinct = set()
    samples = []
    BE = ["object", "numpy", "awkward", "record"]
    kfac = {"scale": 2.5, "scale2D": 2.5, "scale3D": 2.5, "rotateZ": 0.3, "rotateX": 0.3}
    with numpy.errstate(all="ignore"):
        # ---- unary: type of the result = type rules, on every backend, every system
        for dim in (2, 3, 4):
            for names in H.SYS[dim]:
                for mom in (False, True):
                    rng = H.rng_for(ctx.seed, "C05u", names, mom)
                    ref = make(vector, ak, "object", names, mom, rng, dim)
                    for m in UN:
                        def call(v):
                            if m in kfac:
                                return getattr(v, m)(kfac[m])
                            if m == "boostX":
                                return v.boostX(beta=0.3)
                            if m == "transform2D":
                                return v.transform2D({"xx": 1.0, "xy": 0.5, "yx": -0.5, "yy": 2.0})
                            if m == "rotate_euler":
                                return v.rotate_euler(0.1, 0.2, 0.3, "YZY")
                            if m == "to_Vector3D" and dim == 2:
                                return v.to_Vector3D(eta=0.5)
                            if m == "to_Vector4D" and dim < 4:
                                return v.to_Vector4D(mass=1.5) if dim == 3 else v.to_Vector4D(z=1.0, mass=1.5)
                            a = getattr(v, m)
                            return a() if callable(a) else a
                        try:
                            want = describe(vector, ak, call(ref))
                            wexc = None
                        except Exception as e:
                            want, wexc = None, type(e).__name__
                        for be in BE[1:]:
                            rng2 = H.rng_for(ctx.seed, "C05u", names, mom, be)
                            v = make(vector, ak, be, names, mom, rng2, dim)
                            site = f"unary:{m}:{be}:{dim}D:{H.sysname(names)}:{'momentum' if mom else 'generic'}"
                            n += 1
                            distinct.add(site)
                            try:
                                got = describe(vector, ak, call(v))
                                gexc = None
                            except Exception as e:
                                got, gexc = None, type(e).__name__
                            if wexc or gexc:
                                if (wexc is None) != (gexc is None):
                                    ctx.fail(site, f"object backend {'raises ' + wexc if wexc else 'returns'}, {be} {'raises ' + gexc if gexc else 'returns'}", {})
                                continue
                            exp_be = "awkward" if be in ("awkward", "record") else be
                            if want[1]:
                                if not got[1] or got[0] != exp_be or got[2:] != want[2:]:
                                    ctx.fail(site, f"{be} result {got}, expected backend {exp_be} with {want[2:]}", {})
                            elif got[1]:
                                ctx.fail(site, f"{be} returned a vector where the object backend returns a scalar", {})
        # ---- binary: backend priority, flavor, dimension, errors, for every backend pairing
        systems = {2: H.SYS[2], 3: H.SYS[3], 4: H.SYS[4]}
        for d1 in (2, 3, 4):
            for d2 in (2, 3, 4):
                for i, n1 in enumerate(systems[d1]):
                    for j, n2 in enumerate(systems[d2]):
                        if not deep and (i * 5 + j + ctx.seed) % (4 if d1 == d2 else 18) != 0:
                            continue
                        for m1 in (False, True):
                            for m2 in (False, True):
                                rng = H.rng_for(ctx.seed, "C05b", n1, n2, m1, m2)
                                oa = make(vector, ak, "object", n1, m1, rng, d1)
                                ob = make(vector, ak, "object", n2, m2, rng, d2)
                                for m in BIN:
                                    def call(a, b):
                                        if m == "rotate_axis":
                                            return a.rotate_axis(b, 0.4)
                                        return getattr(a, m)(b)
                                    try:
                                        want = describe(vector, ak, call(oa, ob))
                                        wexc = None
                                    except Exception as e:
                                        want, wexc = None, type(e).__name__
                                    mr = must_raise(m, d1, d2)
                                    n += 1
                                    if mr is True and wexc not in ("TypeError", "AttributeError"):
                                        ctx.fail(f"binary:{m}:objectxobject:{d1}D|{d2}D:dimension_rule",
                                                 f"{d1}D.{m}({d2}D) on object vectors {'raises ' + wexc if wexc else 'returns ' + str(want)}; operands of these dimensions must be rejected with TypeError",
                                                 {"a": repr(oa), "b": repr(ob), "method": m})
                                    elif mr is False and wexc:
                                        ctx.fail(f"binary:{m}:objectxobject:{d1}D|{d2}D:dimension_rule", f"{d1}D.{m}({d2}D) on object vectors raises {wexc}; these dimensions are documented to work",
                                                 {"a": repr(oa), "b": repr(ob), "method": m})
                                    for b1 in BE:
                                        for b2 in BE:
                                            if b1 == "object" and b2 == "object":
                                                continue
                                            if not deep and (hash((m, b1, b2, i, j)) + ctx.seed) % 3 != 0:
                                                continue
                                            a = make(vector, ak, b1, n1, m1, H.rng_for(ctx.seed, "a", n1, m1, b1), d1)
                                            b = make(vector, ak, b2, n2, m2, H.rng_for(ctx.seed, "b", n2, m2, b2), d2)
                                            site = f"binary:{m}:{b1}x{b2}:{d1}D:{H.sysname(n1)}|{d2}D:{H.sysname(n2)}:{int(m1)}{int(m2)}"
                                            n += 1
                                            distinct.add(site)
                                            forms = [("method", call)] + ([("operator", OPS[m])] if m in OPS else [])
                                            for fname, f in forms:
                                                try:
                                                    got = describe(vector, ak, f(a, b))
                                                    gexc = None
                                                except Exception as e:
                                                    got, gexc = None, type(e).__name__
                                                kp = known_pattern(m, fname, b1, b2, n1, m1, m2, wexc, gexc, want, got)
                                                if wexc or gexc:
                                                    if (wexc is None) != (gexc is None):
                                                        ctx.fail(kp or (site + ":" + fname), f"object x object {'raises ' + wexc if wexc else 'returns'}, {b1} x {b2} {'raises ' + str(gexc) if gexc else 'returns'} ({site})", {})
                                                    continue
                                                counted = [b1] if m == "rotate_axis" else [b1, b2]
                                                top = max(counted, key=lambda q: PRIO[q])
                                                exp_be = "awkward" if PRIO[top] == 3 else top
                                                if want[1]:
                                                    if not got[1] or got[0] != exp_be or got[2:] != want[2:]:
                                                        ctx.fail(kp or (site + ":" + fname), f"result {got}; expected backend {exp_be}, (momentum, dim, fields) = {want[2:]} ({site})", {})
                                                else:
                                                    # scalar results: records and objects hold scalars; the array type is that of the array operands
                                                    arr_be = "awkward" if "awkward" in (b1, b2) else ("numpy" if "numpy" in (b1, b2) else None)
                                                    if got[1] or (arr_be is not None and got[0] != arr_be):
                                                        ctx.fail(kp or (site + ":" + fname), f"scalar result of backend {got[0]}, expected {arr_be} ({site})", {})
                                if len(samples) < 3 and d1 == d2 == 3:
                                    samples.append({"a": repr(oa), "b": repr(ob), "a.add(b)": repr(oa.add(ob)) if d1 == d2 else None})
    ctx.coverage["evaluations"] = n
    ctx.coverage["distinct_nontrivial"] = len(distinct)
    ctx.coverage["samples"] = samples
    ctx.coverage["exhaustive"] = bool(deep)
    ctx.coverage["correspondences"] = {"result type rule vs the real code for every backend pairing": {"ok": not ctx.failures}}


def replay(rec):
    return {"site": (rec.get("failure") or {}).get("site"), "what": (rec.get("failure") or {}).get("what"), "still_fails": None}
