"""C18 — Awkward arrays keep structure and extra fields: correspondence of the layout model with the real backend."""
from __future__ import annotations

import numpy

from tools import arrayharness as AH
from tools import harness as H

COQ_TARGETS = ["props/C18.vo"]
RULE = ("layouts: flat, jagged with empty lists, option at list level, option at record level, depth 3 (thorough: depth 4 with "
        "options, empty) x extra fields (charge:int, w:float) x unary / binary operations of the catalogue x coordinate systems "
        "(rotating third in quick, all in thorough) x flavors; expected = the model's lmap / lzip of the object-backend "
        "results; distinct = distinct (layout kind, operation, system, flavor)")
ASSUMPTIONS = ["ak.to_list / ak.zip / ak.transform semantics of the awkward library"]
EXTRA = {"charge": 1, "w": 0.25}


def run(ctx):
    import awkward as ak
    import vector
    deep = ctx.tier == "thorough" or bool(ctx.broken)
    n = 0
    distinct = set()
    samples = []
    with numpy.errstate(all="ignore"):
        for dim in (2, 3, 4):
            for si, names in enumerate(H.SYS[dim]):
                if not deep and (si + ctx.seed) % 3 != 0:
                    continue
                for mom in (False, True):
                    sysn = H.sysname(names)
                    rng = H.rng_for(ctx.seed, "C18", names, mom)
                    cnt = [0]

                    def mk():
                        cnt[0] += 1
                        return (AH.point(rng, names, dim), {"charge": cnt[0] % 3 - 1, "w": 0.25 * cnt[0]})
                    for kind, struct in AH.layouts(rng, mk, deep):
                        AH.next_spelling()
                        recs = AH.lmap(lambda pe: AH.rec(names, pe[0], mom, pe[1]), struct)
                        objs = AH.lmap(lambda pe: H.obj(vector, names, pe[0], momentum=mom), struct)
                        extras = AH.lmap(lambda pe: pe[1], struct)
                        try:
                            A = vector.Array(ak.Array(recs)) if recs else None
                        except Exception as e:
                            ctx.fail(f"awkward:{kind}:{dim}D:{sysn}:construct", f"vector.Array raises {type(e).__name__}: {e}"[:200], {"records": recs})
                            continue
                        if A is None:
                            continue
                        site0 = f"awkward:{kind}:{dim}D:{sysn}:{'momentum' if mom else 'generic'}"
                        # ---- getters: structure preserved, element = object getter
                        for g in AH.GETTERS[dim]:
                            n += 1
                            distinct.add((kind, g, sysn, mom))
                            want = AH.lmap(lambda o: AH.leaf_value(getattr(o, g)), objs)
                            try:
                                got = AH.ak_to_leaves(getattr(A, g), False)
                            except Exception as e:
                                ctx.fail(f"{site0}:{g}", f"raises {type(e).__name__}: {e}"[:200], {"records": recs})
                                continue
                            d = AH.compare_nested(got, want)
                            if d:
                                ctx.fail(f"{site0}:{g}", f"at {d[0]}: {d[1]}", {"records": recs})
                        # ---- unary methods: structure, values, extras carried, no stale coordinates
                        for nm, (mind, f) in AH.UNARY.items():
                            if mind > dim:
                                continue
                            n += 1
                            distinct.add((kind, nm, sysn, mom))
                            wobj = AH.lmap(f, objs)
                            want = AH.lmap(AH.leaf_value, wobj)
                            try:
                                r = f(A)
                            except Exception as e:
                                ctx.fail(f"{site0}:{nm}", f"raises {type(e).__name__}: {e}"[:200], {"records": recs})
                                continue
                            got = AH.ak_to_leaves(r, True)
                            isvec = isinstance(AH.lmap(lambda x: x, wobj), list) and _first_leaf(wobj) is not None and isinstance(_first_leaf(wobj), vector._methods.Vector)
                            if isvec:
                                # expected leaf = coordinates of the object result + the extra fields, nothing else
                                want_full = AH.lzip(lambda w, e: dict(w, **{k: (float(v) if isinstance(v, float) else v) for k, v in e.items()}), want, extras)
                                d = AH.compare_nested(_floatify(got), _floatify(want_full))
                                if d:
                                    ctx.fail("known:record-level missing value becomes a record of missing fields" if _known_option_record(got, want_full) else f"{site0}:{nm}",
                                             f"at {d[0]}: {d[1]} ({site0}:{nm})", {"records": recs})
                                elif isinstance(r, ak.Array) and ("Momentum" in type(r).__name__) != mom:
                                    ctx.fail(f"{site0}:{nm}:flavor", f"result class {type(r).__name__}", {})
                            else:
                                d = AH.compare_nested(got, want)
                                if d:
                                    ctx.fail(f"{site0}:{nm}", f"at {d[0]}: {d[1]}", {"records": recs})
                        # ---- the same array built WITHOUT vector.Array: ak.Array(..., with_name="MomentumND") keeps the momentum
                        # spellings (px, py, pt, pz, E, mass) as field names; results must have the same dimension, the same
                        # vector and the same extras, and no coordinate may appear twice (fresh under its generic name + stale)
                        if mom and kind in ("flat", "jagged", "option_list"):
                            try:
                                Araw = ak.Array(recs, with_name=f"Momentum{dim}D", behavior=vector.backends.awkward.behavior)
                            except Exception as e:
                                Araw = None
                                ctx.fail(f"awkward-raw:{kind}:{dim}D:{sysn}:construct", f"ak.Array(with_name) raises {type(e).__name__}: {e}"[:200], {"records": recs})
                            for nm, (mind, f) in (AH.UNARY.items() if Araw is not None else ()):
                                if mind > dim:
                                    continue
                                n += 1
                                distinct.add((kind + ":raw", nm, sysn, mom))
                                wobj = AH.lmap(f, objs)
                                want = AH.lmap(AH.leaf_value, wobj)
                                try:
                                    r = f(Araw)
                                except Exception as e:
                                    ctx.fail(f"awkward-raw:{kind}:{dim}D:{sysn}:{nm}", f"raises {type(e).__name__}: {e}"[:200], {"records": recs})
                                    continue
                                if _first_leaf(wobj) is not None and isinstance(_first_leaf(wobj), vector._methods.Vector):
                                    got = AH.lmap(_generic_names, AH.ak_to_leaves(r, True))
                                    want_full = AH.lzip(lambda w, e: dict(w, **{k: (float(v) if isinstance(v, float) else v) for k, v in e.items()}), want, extras)
                                    d = AH.compare_nested(_floatify(got), _floatify(want_full))
                                    wdim = len(AH.vec_fields(_first_leaf(wobj)))
                                    gdim = {"2": 2, "3": 3, "4": 4}.get(type(r).__name__[-2:-1]) if isinstance(r, ak.Array) else None
                                    if d:
                                        ctx.fail(f"awkward-raw:{kind}:{dim}D:{sysn}:{nm}", f"at {d[0]}: {d[1]} (fields of the result: {ak.fields(r)})", {"records": recs})
                                    elif gdim is not None and gdim != wdim:
                                        ctx.fail(f"awkward-raw:{kind}:{dim}D:{sysn}:{nm}:dimension", f"result class {type(r).__name__}, the object result is {wdim}D", {"records": recs})
                                else:
                                    d = AH.compare_nested(AH.ak_to_leaves(r, False), want)
                                    if d:
                                        ctx.fail(f"awkward-raw:{kind}:{dim}D:{sysn}:{nm}", f"at {d[0]}: {d[1]}", {"records": recs})
                        # ---- binary with an array of the same structure, and broadcasting an object / record
                        for nm, (da, db, f) in AH.BINARY.items():
                            if (da or dim) != dim:
                                continue
                            bd = db or dim
                            bn = H.SYS[bd][(si + 1) % len(H.SYS[bd])]
                            role = "beta3" if nm == "boost_beta3" else "vec"
                            struct_b = AH.lmap(lambda pe: AH.point(rng, bn, bd, role), struct)
                            recs_b = AH.lmap(lambda p: AH.rec(bn, p, False, {"q": 7}), struct_b)
                            objs_b = AH.lmap(lambda p: H.obj(vector, bn, p), struct_b)
                            one = AH.point(rng, bn, bd, role)
                            B = vector.Array(ak.Array(recs_b))
                            cases = [("array", B, objs_b), ("object", H.obj(vector, bn, one), H.obj(vector, bn, one))]
                            if deep or kind == "jagged":
                                cases.append(("record", vector.Array(ak.Array([AH.rec(bn, one, False)]))[0], H.obj(vector, bn, one)))
                            for bkind, bval, bobj in cases:
                                n += 1
                                distinct.add((kind, nm + ":" + bkind, sysn, mom))
                                want = AH.lmap(AH.leaf_value, AH.lzip(f, objs, bobj))
                                if nm in ("rotate_axis", "boost_p4", "boost_beta3"):
                                    # the axis / booster is a secondary argument: these act on ONE vector and carry its extra fields
                                    want = AH.lzip(lambda w, e: dict(w, **e) if isinstance(w, dict) else w, want, extras)
                                try:
                                    r = f(A, bval)
                                except Exception as e:
                                    ctx.fail(f"{site0}:{nm}:{bkind}", f"raises {type(e).__name__}: {e}"[:200], {"records": recs})
                                    continue
                                gotb = AH.ak_to_leaves(r, True)
                                d = AH.compare_nested(_floatify(gotb), _floatify(want))
                                if d:
                                    ctx.fail("known:record-level missing value becomes a record of missing fields" if _known_option_record(gotb, want) else f"{site0}:{nm}:{bkind}",
                                             f"at {d[0]}: {d[1]} (two-vector operations return coordinates only) ({site0}:{nm}:{bkind})", {"records": recs})
                        # ---- a record selected from the array behaves like the object
                        leaf_paths = list(_paths(struct))
                        if leaf_paths:
                            p = leaf_paths[0]
                            r, o = A, objs
                            for i in p:
                                r, o = r[i], o[i]
                            n += 1
                            for g in AH.GETTERS[dim]:
                                if not AH.close(AH.leaf_value(getattr(r, g)), AH.leaf_value(getattr(o, g))):
                                    ctx.fail(f"{site0}:record:{g}", f"record {getattr(r, g)} vs object {getattr(o, g)}", {"records": recs})
                            ru, ou = r.unit(), o.unit()
                            if not isinstance(ru, vector._methods.Vector) or not AH.close({k: float(getattr(ru, k)) for k in AH.vec_fields(ou)}, AH.leaf_value(ou)):
                                ctx.fail(f"{site0}:record:unit", f"record.unit() = {ru!r} ({type(ru).__name__}), object {ou!r}", {"records": recs})
                            # every unary operation and dimension change on the selected record: a vector record of the object's flavor,
                            # dimension and values (select-then-operate = operate on the equivalent object)
                            rec_ops = [(nm, f) for nm, (mind, f) in AH.UNARY.items() if mind <= dim] + \
                                      [(m, (lambda v, m=m: getattr(v, m)())) for m in ("to_Vector2D", "to_Vector3D", "to_Vector4D", "to_xy", "to_rhophi", "to_xyz", "to_rhophieta", "to_xyzt", "to_rhophithetatau")]
                            for nm, f in rec_ops:
                                n += 1
                                try:
                                    oo = f(o)
                                except Exception:
                                    continue
                                try:
                                    rr = f(r)
                                except Exception as e:
                                    known_rec = isinstance(e, AssertionError) and nm in ("abs", "pow2")
                                    ctx.fail("known:abs() and ** on an Awkward vector record" if known_rec else f"{site0}:record:{nm}",
                                             f"raises {type(e).__name__}: {e} ({site0}:record:{nm})"[:200], {"records": recs})
                                    continue
                                if isinstance(oo, vector._methods.Vector):
                                    okv = isinstance(rr, vector._methods.Vector) and isinstance(rr, vector._methods.Momentum) == isinstance(oo, vector._methods.Momentum) \
                                        and AH.vec_fields(rr) == AH.vec_fields(oo) and AH.close({k: float(getattr(rr, k)) for k in AH.vec_fields(oo)}, AH.leaf_value(oo))
                                    if not okv:
                                        ctx.fail(f"{site0}:record:{nm}", f"record.{nm} = {rr!r} ({type(rr).__name__}), the equivalent object gives {oo!r}", {"records": recs})
                                elif not AH.close(AH.leaf_value(rr), AH.leaf_value(oo)):
                                    ctx.fail(f"{site0}:record:{nm}", f"record.{nm} = {rr!r}, the equivalent object gives {oo!r}", {"records": recs})
                        if len(samples) < 3 and kind == "option_record" and dim == 3:
                            samples.append({"layout": kind, "records": str(recs)[:200], "rotateZ": str(ak.to_list(A.rotateZ(0.7)))[:200]})
    ctx.coverage["evaluations"] = n
    ctx.coverage["distinct_nontrivial"] = len(distinct)
    ctx.coverage["samples"] = samples
    ctx.coverage["correspondences"] = {"awkward layouts: structure, values, extra fields vs lmap/lzip of object results": {"ok": not ctx.failures}}


_GENERIC = {"px": "x", "py": "y", "pt": "rho", "pz": "z", "E": "t", "e": "t", "energy": "t", "M": "tau", "m": "tau", "mass": "tau"}


def _generic_names(leaf):
    """a result record with momentum-spelled fields under the generic names; a coordinate present twice is reported"""
    if not isinstance(leaf, dict):
        return leaf
    out = {}
    for k, v in leaf.items():
        g = _GENERIC.get(k, k)
        if g in out:
            return {"__coordinate_twice__": sorted(leaf)}
        out[g] = v
    return out


def _first_leaf(t):
    if isinstance(t, list):
        for x in t:
            r = _first_leaf(x)
            if r is not None:
                return r
        return None
    return t


def _paths(t, pre=()):
    if isinstance(t, list):
        for i, x in enumerate(t):
            yield from _paths(x, pre + (i,))
    elif t is not None:
        yield pre


def _known_option_record(got, want):
    """record-level None that came back as a record of None fields (listed known finding)"""
    if isinstance(want, list) and isinstance(got, list) and len(want) == len(got):
        return any(_known_option_record(g, w) for g, w in zip(got, want))
    return want is None and isinstance(got, dict) and all(v is None for v in got.values())


def _floatify(t):
    if isinstance(t, list):
        return [_floatify(x) for x in t]
    if isinstance(t, dict):
        return {k: (float(v) if isinstance(v, (int, float)) and not isinstance(v, bool) else v) for k, v in t.items()}
    return t


def replay(rec):
    return {"site": (rec.get("failure") or {}).get("site"), "what": (rec.get("failure") or {}).get("what"), "still_fails": None}
