"""C06 — constructors: exhaustive correspondence between the real constructors and the Coq specification classifier
`documented` (model/Ctor.v), evaluated by coqc on this run."""
from __future__ import annotations

import itertools
import os
import re
import subprocess

import numpy

COQ_TARGETS = ["props/C06.vo"]
ROOT = os.path.dirname(os.path.dirname(os.path.dirname(os.path.abspath(__file__))))
NAMES = ["x", "px", "y", "py", "rho", "pt", "phi", "z", "pz", "theta", "eta", "t", "E", "e", "energy", "tau", "M", "m", "mass"]
GEN = {"px": "x", "py": "y", "pt": "rho", "pz": "z", "E": "t", "e": "t", "energy": "t", "M": "tau", "m": "tau", "mass": "tau"}
RULE = ("every subset of up to 5 (quick) / 6 (thorough; vector.obj and the classes: all 2^19 subsets) of the 19 coordinate "
        "names, each name carrying a distinct value, given to vector.obj, the six object classes, vector.array, vector.zip and "
        "vector.Array; outcome (reject | dimension, systems, flavor, slot values, extras) compared with the Coq classifier; "
        "distinct = distinct (constructor, name set)")
ASSUMPTIONS = ["names outside the 19 recognised ones are exercised separately (a few unknown names)",
               "the table of documented sets is printed by coqc from model/Ctor.v on this run"]
AZ = {1: ("x", "y"), 2: ("rho", "phi")}
LG = {0: (), 1: ("z",), 2: ("theta",), 3: ("eta",)}
TM = {0: (), 1: ("t",), 2: ("tau",)}


def coq_table():
    d = os.path.join(ROOT, "build", "c06")
    os.makedirs(d, exist_ok=True)
    f = os.path.join(d, "Cases.v")
    open(f, "w").write("From Coq Require Import NArith List.\nImport ListNotations.\nFrom VP Require Import Ctor.\nOpen Scope N_scope.\n"
                       "Set Printing Depth 1000000.\nEval vm_compute in map (fun s => (s, documented s)) (collect 19 (fun s => negb (documented s =? 0)) 0 nil).\n")
    args = []
    for sub in ("lib", "gen", "model", "proofs", "props"):
        args += ["-Q", os.path.join(ROOT, "coq", sub), "VP"]
    p = subprocess.run(["timeout", "300", "coqc"] + args + ["-o", os.path.join(d, "Cases.vo"), f], capture_output=True, text=True)
    if p.returncode != 0:
        raise RuntimeError("coqc failed on the C06 table: " + p.stderr[-500:])
    return {int(a): int(b) for a, b in re.findall(r"\(\s*(\d+),\s*(\d+)\s*\)", p.stdout)}


def setbits(s):
    return [NAMES[i] for i in range(19) if s >> i & 1]


def names_of_code(code):
    return AZ[code // 10 % 10] + LG[code // 100 % 10] + TM[code // 1000 % 10]


def describe_obj(v):
    """code and stored values of an object vector"""
    from vector._methods import _aztype, _coordinate_class_to_names, _ltype, _ttype
    names = list(_coordinate_class_to_names[_aztype(v)])
    az = 1 if names[0] == "x" else 2
    lg = tm = 0
    if hasattr(v, "longitudinal"):
        n = _coordinate_class_to_names[_ltype(v)][0]
        names.append(n)
        lg = {"z": 1, "theta": 2, "eta": 3}[n]
    if hasattr(v, "temporal"):
        n = _coordinate_class_to_names[_ttype(v)][0]
        names.append(n)
        tm = {"t": 1, "tau": 2}[n]
    mom = 1 if "Momentum" in type(v).__name__ else 0
    return len(names) + 10 * az + 100 * lg + 1000 * tm + 10000 * mom, {n: getattr(v, n) for n in names}


def run(ctx):
    import awkward as ak
    import vector
    deep = ctx.tier == "thorough" or bool(ctx.broken)
    table = coq_table()
    ctx.coverage["documented_sets_from_coq"] = len(table)
    n = 0
    distinct = set()
    samples = []
    val = {nm: 1.5 + i for i, nm in enumerate(NAMES)}
    classes = {(2, 0): vector.VectorObject2D, (3, 0): vector.VectorObject3D, (4, 0): vector.VectorObject4D,
               (2, 1): vector.MomentumObject2D, (3, 1): vector.MomentumObject3D, (4, 1): vector.MomentumObject4D}
    maxk = 6 if deep else 5

    def expected_slots(s, code):
        out = {}
        for g in names_of_code(code):
            (nm,) = [x for x in setbits(s) if GEN.get(x, x) == g]
            out[g] = val[nm]
        return out

    def sets():
        if deep:
            yield from range(1 << 19)
        else:
            for k in range(0, maxk + 1):
                for c in itertools.combinations(range(19), k):
                    yield sum(1 << i for i in c)

    with numpy.errstate(all="ignore"):
        for s in sets():
            nm = setbits(s)
            kw = {x: val[x] for x in nm}
            want = table.get(s, 0)
            k = len(nm)
            # ---- vector.obj
            n += 1
            try:
                code, slots = describe_obj(vector.obj(**kw))
            except TypeError:
                code, slots = 0, None
            if code != want or (want and slots != expected_slots(s, want)):
                ctx.fail(f"obj:names={','.join(nm)}", f"vector.obj gives {code} {slots}, documented {want} {expected_slots(s, want) if want else None}", {"kwargs": kw})
            # ---- the six classes: accept exactly the documented sets of their dimension (flavor = the class's)
            for (d, m), cls in classes.items():
                n += 1
                try:
                    code, slots = describe_obj(cls(**kw))
                except TypeError:
                    code, slots = 0, None
                exp = want if (want % 10 == d) else 0
                if (code % 10000) != (exp % 10000) or (exp and slots != expected_slots(s, exp)) or (code and code // 10000 != m):
                    ctx.fail(f"{cls.__name__}:names={','.join(nm)}", f"{cls.__name__}(**names) gives {code} {slots}, documented {exp}", {"kwargs": kw})
            if k > maxk or (deep and k > 6):
                continue
            distinct.add(s)
            # ---- array constructors: may carry extras; never from an incomplete set; values unchanged
            cols = {x: numpy.array([val[x], val[x] + 100]) for x in nm}
            for ctor, mk in (("array", lambda: vector.array(cols)), ("zip", lambda: vector.zip(cols)), ("Array", lambda: vector.Array(ak.zip(cols) if cols else ak.Array([{}])))):
                if not nm:
                    continue
                n += 1
                try:
                    a = mk()
                except (TypeError, ValueError, AssertionError) as e:
                    if isinstance(e, AssertionError):
                        ctx.fail(f"{ctor}:names={','.join(nm)}", f"raises AssertionError instead of TypeError: {e}"[:200], {"names": nm})
                    continue
                except Exception as e:
                    ctx.fail(f"{ctor}:names={','.join(nm)}", f"raises {type(e).__name__}: {e}"[:200], {"names": nm})
                    continue
                isvec = isinstance(a, vector._methods.Vector)
                if not isvec:
                    if want:
                        ctx.fail(f"{ctor}:names={','.join(nm)}", "a documented set did not produce a vector array", {"names": nm})
                    continue
                fields = list(a.dtype.names) if ctor == "array" else list(ak.fields(a))
                # which given names feed the coordinates: read the stored coordinate values back and match them
                el = a[0]
                from vector._methods import _aztype, _coordinate_class_to_names, _ltype, _ttype
                cn = list(_coordinate_class_to_names[_aztype(a)])
                if hasattr(a, "longitudinal"):
                    cn += _coordinate_class_to_names[_ltype(a)]
                if hasattr(a, "temporal"):
                    cn += _coordinate_class_to_names[_ttype(a)]
                used = 0
                ok = True
                for g in cn:
                    v0 = float(getattr(el, g))
                    src = [x for x in nm if GEN.get(x, x) == g and val[x] == v0]
                    if len(src) != 1:
                        ok = False
                        break
                    used |= 1 << NAMES.index(src[0])
                mom = 1 if isinstance(a, vector._methods.Momentum) else 0
                if not ok:
                    ctx.fail(f"{ctor}:names={','.join(nm)}", f"stored coordinates {cn} do not hold values supplied under those names", {"names": nm})
                    continue
                code_u = table.get(used, 0)
                shape = (len(cn) + 10 * (1 if cn[0] == "x" else 2) + 100 * ({"z": 1, "theta": 2, "eta": 3}.get(cn[2], 0) if len(cn) > 2 else 0)
                         + 1000 * ({"t": 1, "tau": 2}.get(cn[3], 0) if len(cn) > 3 else 0))
                if code_u == 0 or code_u % 10000 != shape or (used & s) != used:
                    ctx.fail(f"{ctor}:names={','.join(nm)}", f"accepted as {cn} from names {setbits(used)}: not a documented subset (Coq: {code_u})", {"names": nm})
                elif not (code_u // 10000 <= mom <= (1 if any(x in GEN for x in nm) else 0)):
                    # momentum exactly when a momentum spelling feeds a coordinate; a momentum-named EXTRA field may also make it so
                    ctx.fail(f"{ctor}:names={','.join(nm)}", f"flavor momentum={mom}, documented for the used names {setbits(used)}: {code_u // 10000}", {"names": nm})
                elif want and (code_u != want):
                    ctx.fail(f"{ctor}:names={','.join(nm)}", f"documented set interpreted as {code_u} instead of {want}", {"names": nm})
            if len(samples) < 3 and want and k == 4 and s % 7 == 0:
                samples.append({"names": nm, "documented_code": want, "obj": repr(vector.obj(**kw))})
        # ---- value types
        for bad in (True, "a", None, 1 + 2j, [1.0]):
            for ctor in (vector.obj, vector.VectorObject2D, vector.MomentumObject2D, vector.VectorObject3D, vector.MomentumObject3D,
                         vector.VectorObject4D, vector.MomentumObject4D):
                d = 2 if ctor is vector.obj else int(ctor.__name__[-2])
                kw = dict(zip(["x", "y", "z", "t"][:d], [1.0, 2.0, 3.0, 4.0]))
                kw["x"] = bad
                n += 1
                try:
                    ctor(**kw)
                    ctx.fail(f"{ctor.__name__}:value={type(bad).__name__}", f"{ctor.__name__}(x={bad!r}, ...) accepted", {"kwargs": {k_: repr(v_) for k_, v_ in kw.items()}})
                except TypeError:
                    pass
        for good in (1, 2.5, numpy.float64(1.5), numpy.int32(3), numpy.float32(0.5)):
            n += 1
            try:
                v = vector.obj(x=good, y=good)
                if v.x != good:
                    ctx.fail("obj:value", f"stored {v.x!r} for {good!r}", {})
            except TypeError:
                ctx.fail(f"obj:value={type(good).__name__}", f"vector.obj(x={good!r}) rejected", {})
        for extra in ("w", "charge", "X"):
            n += 1
            try:
                vector.obj(x=1.0, y=2.0, **{extra: 3.0})
                ctx.fail(f"obj:unknown_name={extra}", "unknown name accepted", {})
            except TypeError:
                pass
    ctx.coverage["evaluations"] = n
    ctx.coverage["distinct_nontrivial"] = len(distinct)
    ctx.coverage["exhaustive"] = True
    ctx.coverage["max_names"] = maxk
    ctx.coverage["samples"] = samples
    ctx.coverage["correspondences"] = {c + " == Coq classifier": {"ok": not any(f["site"].startswith(c) for f in ctx.failures)}
                                       for c in ("obj", "VectorObject", "MomentumObject", "array", "zip", "Array")}


def replay(rec):
    import vector
    f = rec.get("failure") or {}
    kw = (f.get("input") or {}).get("kwargs")
    out = {"site": f.get("site"), "what": f.get("what")}
    if kw and f.get("site", "").startswith("obj:names"):
        try:
            out["now"] = repr(vector.obj(**kw))
        except TypeError as e:
            out["now"] = "TypeError"
    return out
