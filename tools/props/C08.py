"""C08 — SymPy backend: expressions substituted at regular points vs the numeric object backend; and the members of
SympyLib vs the model's eval_sym semantics (M10)."""
from __future__ import annotations

import math

import numpy

from tools import harness as H

COQ_TARGETS = ["props/C08.vo"]
RULE = ("every getter / unary / binary operation of the catalogue x every coordinate system x flavors at regular points "
        "(time-like, forward-pointing, off-axis, all octants); the SymPy result is substituted (subs + evalf(30)) and compared "
        "with the numeric object backend at 1e-9 relative; distinct = distinct (operation, system(s), flavor, rep)")
ASSUMPTIONS = ["regular points only (the symbolic backend documents it cannot express clamping / NaN replacement / sign conventions)",
               "boolean results of the SymPy backend are structural and outside C08"]
GET = {2: ["x", "y", "rho", "phi", "rho2"], 3: ["x", "y", "rho", "phi", "z", "theta", "eta", "costheta", "cottheta", "mag", "mag2"],
       4: ["x", "y", "rho", "phi", "z", "theta", "eta", "mag", "t", "t2", "tau", "tau2", "beta", "gamma", "rapidity"]}
MOMGET = {4: ["E", "mass", "Et", "Mt", "pt", "pz", "p"], 3: ["pt", "pz", "p"], 2: ["pt"]}
UN = {"unit": (2, lambda v: v.unit()), "scale": (2, lambda v: v.scale(2.5)), "rotateZ": (2, lambda v: v.rotateZ(0.4)),
      "to_rhophi": (2, lambda v: v.to_rhophi()), "to_xy": (2, lambda v: v.to_xy()),
      "rotateX": (3, lambda v: v.rotateX(0.4)), "rotateY": (3, lambda v: v.rotateY(-0.7)), "rotate_euler": (3, lambda v: v.rotate_euler(0.1, 0.2, 0.3, "yzy")),
      "rotate_quaternion": (3, lambda v: v.rotate_quaternion(0.5, 0.5, 0.5, 0.5)), "to_xyeta": (3, lambda v: v.to_xyeta()),
      "boostX": (4, lambda v: v.boostX(beta=0.3)), "boostZ": (4, lambda v: v.boostZ(beta=-0.5)), "to_beta3": (4, lambda v: v.to_beta3()),
      "to_rhophietatau": (4, lambda v: v.to_rhophietatau()), "to_xyzt": (4, lambda v: v.to_xyzt())}
BIN = {"add": (None, lambda a, b: a.add(b)), "subtract": (None, lambda a, b: a.subtract(b)), "dot": (None, lambda a, b: a.dot(b)),
       "deltaphi": (None, lambda a, b: a.deltaphi(b)), "cross": (3, lambda a, b: a.cross(b)), "deltaR": (3, lambda a, b: a.deltaR(b)),
       "deltaangle": (3, lambda a, b: a.deltaangle(b)), "boost_p4": (4, lambda a, b: a.boost_p4(b)), "rotate_axis": (3, lambda a, b: a.rotate_axis(b, 0.4))}


def fields_of(v):
    from vector._methods import _aztype, _coordinate_class_to_names, _ltype, _ttype
    n = list(_coordinate_class_to_names[_aztype(v)])
    if hasattr(v, "longitudinal"):
        n += _coordinate_class_to_names[_ltype(v)]
    if hasattr(v, "temporal"):
        n += _coordinate_class_to_names[_ttype(v)]
    return n


def run(ctx):
    import sympy
    import vector
    from vector.backends import sympy as VS
    deep = ctx.tier == "thorough" or bool(ctx.broken)
    reps = 2 if deep else 1
    n = 0
    distinct = set()
    samples = []
    CLS = {(2, False): VS.VectorSympy2D, (3, False): VS.VectorSympy3D, (4, False): VS.VectorSympy4D,
           (2, True): VS.MomentumSympy2D, (3, True): VS.MomentumSympy3D, (4, True): VS.MomentumSympy4D}

    def build(dim, names, mom, tag):
        syms = {k: sympy.Symbol(f"{tag}_{k}", real=True) for k in names}
        return CLS[(dim, mom)](**{(H.MOM.get(k, k) if mom else k): syms[k] for k in names}), syms

    def evalv(expr, subs):
        return float(sympy.sympify(expr).subs(subs).evalf(30))

    def cmp(site, sym_res, num_res, subs, inp):
        import vector as V
        if isinstance(num_res, V._methods.Vector):
            if not isinstance(sym_res, V._methods.Vector) or fields_of(sym_res) != fields_of(num_res) or ("Momentum" in type(sym_res).__name__) != ("Momentum" in type(num_res).__name__):
                ctx.fail(site, f"symbolic result {type(sym_res).__name__} {fields_of(sym_res) if isinstance(sym_res, V._methods.Vector) else ''}, numeric {type(num_res).__name__} {fields_of(num_res)}", inp)
                return
            pairs = [(getattr(sym_res, f), getattr(num_res, f)) for f in fields_of(num_res)]
        else:
            pairs = [(sym_res, num_res)]
        for se, nv in pairs:
            try:
                sv = evalv(se, subs)
            except Exception as e:
                ctx.fail(site, f"cannot evaluate the symbolic expression {str(se)[:80]}: {type(e).__name__}", inp)
                return
            nv = float(nv)
            if not (abs(sv - nv) <= 1e-9 * max(1.0, abs(sv), abs(nv))):
                ctx.fail(site, f"expression {str(se)[:100]} evaluates to {sv}, numeric backend gives {nv}", inp)
                return

    with numpy.errstate(all="ignore"):
        for dim in (2, 3, 4):
            for si, names in enumerate(H.SYS[dim]):
                for mom in (False, True):
                    sysn = H.sysname(names)
                    for rep in range(reps):
                        rng = H.rng_for(ctx.seed, "C08", names, mom, rep)
                        x, y, z, t = H.cart_stratum(rng, "quadrants", dim)
                        p = H.from_cart(names, x, y, z, t)
                        nv = H.obj(vector, names, p, momentum=mom)
                        sv, syms = build(dim, names, mom, "a")
                        subs = {syms[k]: p[k] for k in names}
                        site0 = f"sympy:{dim}D:{sysn}:{'momentum' if mom else 'generic'}"
                        inp = {"point": p}
                        for g in GET[dim] + (MOMGET[dim] if mom else []):
                            n += 1
                            distinct.add((g, sysn, mom, rep))
                            try:
                                se = getattr(sv, g)
                            except Exception as e:
                                ctx.fail(f"{site0}:{g}", f"raises {type(e).__name__}: {e}"[:200], inp)
                                continue
                            cmp(f"{site0}:{g}", se, getattr(nv, g), subs, inp)
                        for nm, (mind, f) in UN.items():
                            if mind > dim:
                                continue
                            n += 1
                            distinct.add((nm, sysn, mom, rep))
                            try:
                                sr = f(sv)
                            except Exception as e:
                                ctx.fail(f"{site0}:{nm}", f"raises {type(e).__name__}: {e}"[:200], inp)
                                continue
                            cmp(f"{site0}:{nm}", sr, f(nv), subs, inp)
                        # after a spatial operation the time-like properties are still right (4D)
                        if dim == 4:
                            for nm in ("rotateX", "rotate_euler", "rotate_quaternion"):
                                sr, nr = UN[nm][1](sv), UN[nm][1](nv)
                                for g in ("t", "tau"):
                                    n += 1
                                    cmp(f"{site0}:{nm}.{g}", getattr(sr, g), getattr(nr, g), subs, inp)
                        for nm, (bd, f) in BIN.items():
                            if (bd or dim) != dim:
                                continue
                            bn = H.SYS[dim][(si + 3) % len(H.SYS[dim])]
                            bx, by, bz, bt = H.cart_stratum(rng, "quadrants", dim)
                            pb = H.from_cart(bn, bx, by, bz, bt)
                            nb = H.obj(vector, bn, pb)
                            sb, bsyms = build(dim, bn, False, "b")
                            subs2 = dict(subs); subs2.update({bsyms[k]: pb[k] for k in bn})
                            n += 1
                            distinct.add((nm, sysn, H.sysname(bn), mom, rep))
                            try:
                                sr = f(sv, sb)
                            except Exception as e:
                                ctx.fail(f"{site0}|{H.sysname(bn)}:{nm}", f"raises {type(e).__name__}: {e}"[:200], {"a": p, "b": pb})
                                continue
                            cmp(f"{site0}|{H.sysname(bn)}:{nm}", sr, f(nv, nb), subs2, {"a": p, "b": pb})
                        # in-place operators (the backend's _replace_data re-expresses the result in the operand's own system):
                        # the same sequence on a fresh symbolic and a fresh numeric vector, every field compared after each step
                        bn = H.SYS[dim][(si + 1) % len(H.SYS[dim])]
                        pb = H.from_cart(bn, *H.cart_stratum(rng, "quadrants", dim))
                        nb = H.obj(vector, bn, pb)
                        sb, bsyms = build(dim, bn, False, "c")
                        subs3 = dict(subs); subs3.update({bsyms[k]: pb[k] for k in bn})
                        si_, ni_ = build(dim, names, mom, "a")[0], H.obj(vector, names, p, momentum=mom)
                        for step, op in (("imul", lambda v_, w_: v_.__imul__(2.5)), ("iadd", lambda v_, w_: v_.__iadd__(w_)),
                                         ("itruediv", lambda v_, w_: v_.__itruediv__(0.5)), ("isub", lambda v_, w_: v_.__isub__(w_))):
                            n += 1
                            distinct.add((step, sysn, mom, rep))
                            try:
                                si_ = op(si_, sb)
                                ni_ = op(ni_, nb)
                            except Exception as e:
                                ctx.fail(f"{site0}|{H.sysname(bn)}:{step}", f"raises {type(e).__name__}: {e}"[:200], {"a": p, "b": pb})
                                break
                            cmp(f"{site0}|{H.sysname(bn)}:inplace.{step}", si_, ni_, subs3, {"a": p, "b": pb, "sequence": "a *= 2.5; a += b; a /= 0.5; a -= b (up to this step)"})
                        if len(samples) < 3 and dim == 4 and names[-1] == "tau":
                            samples.append({"system": sysn, "t": str(sv.t)[:120], "value": evalv(sv.t, subs), "numeric": nv.t})
        # M10: the members of SympyLib against the model's eval_sym semantics
        from vector._lib import SympyLib
        lib = SympyLib()
        a, b = sympy.Symbol("a", real=True), sympy.Symbol("b", real=True)
        n += 1
        checks = [("nan_to_num", lib.nan_to_num(a, nan=0.0, posinf=1.0) == a), ("maximum(sym, lit)", lib.maximum(a, 0) == a),
                  ("maximum(lit, sym)", lib.maximum(-1, b) == b), ("minimum(sym, lit)", lib.minimum(a, 1) == a), ("minimum(lit, sym)", lib.minimum(1, b) == b),
                  ("copysign", lib.copysign(a, b) == a), ("absolute", lib.absolute(a) == sympy.Abs(a)), ("arctan2", lib.arctan2(a, b) == sympy.atan2(a, b)),
                  ("sqrt", lib.sqrt(a) == sympy.sqrt(a)), ("arcsinh", lib.arcsinh(a) == sympy.asinh(a)), ("pi", lib.pi == sympy.pi)]
        for nm, ok in checks:
            if not ok:
                ctx.fail(f"sympylib:{nm}", "SympyLib member differs from the eval_sym semantics of lib/ELib.v", {})
        for nm, fn, ref in (("sin", lib.sin, math.sin), ("cos", lib.cos, math.cos), ("tan", lib.tan, math.tan), ("exp", lib.exp, math.exp), ("log", lib.log, math.log),
                            ("sinh", lib.sinh, math.sinh), ("arctan", lib.arctan, math.atan), ("arccos", lib.arccos, math.acos), ("arcsin", lib.arcsin, math.asin)):
            v = 0.37
            if abs(float(fn(a).subs({a: v}).evalf(30)) - ref(v)) > 1e-12:
                ctx.fail(f"sympylib:{nm}", "value differs from the real function of lib/RLib.v", {})
    ctx.coverage["evaluations"] = n
    ctx.coverage["distinct_nontrivial"] = len(distinct)
    ctx.coverage["samples"] = samples
    ctx.coverage["correspondences"] = {"SymPy backend expressions at regular points == numeric backend": {"ok": not any(f["site"].startswith("sympy:") for f in ctx.failures)},
                                       "SympyLib members == eval_sym semantics (M10)": {"ok": not any(f["site"].startswith("sympylib") for f in ctx.failures)}}


def replay(rec):
    return {"site": (rec.get("failure") or {}).get("site"), "what": (rec.get("failure") or {}).get("what"), "still_fails": None}
