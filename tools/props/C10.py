"""C10 — rotations: search / correspondence on the real code (object, NumPy, Awkward; 2D, 3D, 4D)."""
from __future__ import annotations

import math

import numpy

from tools import harness as H

COQ_TARGETS = ["props/C10.vo"]
ORDERS = ["xzx", "xyx", "yxy", "yzy", "zyz", "zxz", "xzy", "xyz", "yxz", "yzx", "zyx", "zxy"]
RULE = ("real-code cases: every 3D and 4D system (2D for rotateZ) x angle strata (all quadrants, multiples of pi, large "
        "angles) x 12 Euler orders in both letter cases x axes; results compared in Cartesian components (rtol 1e-9) with "
        "independent rotation matrices; distinct = distinct (check, system, stratum, order, rep)")
ASSUMPTIONS = ["well-conditioned finite operands, float64 tolerance 1e-9 relative"]


def Rm(axis, a):
    c, s = math.cos(a), math.sin(a)
    return {"x": [[1, 0, 0], [0, c, -s], [0, s, c]], "y": [[c, 0, s], [0, 1, 0], [-s, 0, c]], "z": [[c, -s, 0], [s, c, 0], [0, 0, 1]]}[axis]


def mv(M, v):
    return [sum(M[i][j] * v[j] for j in range(3)) for i in range(3)]


def near(a, b, scale, tol=1e-9):
    return all(abs(p - q) <= tol * max(scale, abs(p), abs(q)) for p, q in zip(a, b))


def angle(rng, stratum):
    if stratum == "quadrants":
        return rng.uniform(-math.pi, math.pi)
    if stratum == "pi_multiples":
        return rng.choice([0.0, math.pi, -math.pi, math.pi / 2, -math.pi / 2, 2 * math.pi, 3 * math.pi / 2])
    return rng.uniform(-200, 200)


def xyz(v):
    return [v.x, v.y, v.z]


def run(ctx):
    import awkward as ak
    import vector
    deep = ctx.tier == "thorough" or bool(ctx.broken)
    reps = 3 if deep else 1
    n = 0
    distinct = set()
    samples = []
    with numpy.errstate(all="ignore"):
        for dim in (3, 4):
            for names in H.SYS[dim]:
                sysn = H.sysname(names)
                rng = H.rng_for(ctx.seed, "C10", dim, names)
                for stratum in ("quadrants", "pi_multiples", "large_angles"):
                    for rep in range(reps):
                        x, y, z, t = H.cart_stratum(rng, "quadrants", dim)
                        v = H.obj(vector, names, H.from_cart(names, x, y, z, t), momentum=bool(rep % 2))
                        c0 = [x, y, z]
                        S = max(map(abs, c0)) + 1
                        a, b, c = angle(rng, stratum), angle(rng, stratum), angle(rng, stratum)
                        site = f"object:{dim}D:{sysn}"
                        inp = {"v": repr(v), "angles": [a, b, c], "stratum": stratum}
                        n += 1
                        distinct.add((dim, sysn, stratum, rep))

                        def chk(name, got, want, extra=None, tol=1e-9):
                            if not near(got, want, S, tol):
                                ctx.fail(site + ":" + name, f"{name}: got {got}, want {want}", dict(inp, **(extra or {})))
                        for ax, m in (("x", "rotateX"), ("y", "rotateY"), ("z", "rotateZ")):
                            r = getattr(v, m)(a)
                            chk(m, xyz(r), mv(Rm(ax, a), c0))
                            chk(m + "_inverse", xyz(getattr(r, m)(-a)), c0)
                            chk(m + "_additive", xyz(getattr(getattr(v, m)(a), m)(b)), xyz(getattr(v, m)(a + b)), tol=1e-8 if stratum == "large_angles" else 1e-9)
                            if dim == 4:
                                tn = "tau" if "tau" in names else "t"
                                if getattr(r, tn) != getattr(v, tn) or type(r) is not type(v):
                                    ctx.fail(site + ":time_untouched", f"{m} changed {tn} or the class: {r!r}", inp)
                            k = rng.uniform(0.2, 5)
                            e = {"x": (k, 0, 0), "y": (0, k, 0), "z": (0, 0, k)}[ax]
                            for an in H.SYS[3][:: (1 if deep else 3)]:
                                axis = H.obj(vector, an, H.from_cart(an, *e)) if (an[0] == "x" or e[2] == 0 or an[2] == "z") else None
                                if axis is None:
                                    continue
                                if ("theta" in an or "eta" in an) and (e[0] == 0 and e[1] == 0):
                                    continue   # an axis along z is not representable with theta/eta storage
                                chk("rotate_axis_" + ax, xyz(v.rotate_axis(axis, a)), mv(Rm(ax, a), c0), {"axis": repr(axis)})
                        # general axis: preserves length & dot with the axis, ignores axis length, additive
                        ax_c = H.cart_stratum(rng, "quadrants", 3)[:3]
                        an = H.SYS[3][(rep + len(sysn)) % 6]
                        axis = H.obj(vector, an, H.from_cart(an, *ax_c))
                        axis2 = H.obj(vector, an, H.from_cart(an, *[2.5 * q for q in ax_c]))
                        r = v.rotate_axis(axis, a)
                        chk("rotate_axis_length", [r.mag], [v.mag])
                        chk("rotate_axis_axis_component", [sum(p * q for p, q in zip(xyz(r), ax_c))], [sum(p * q for p, q in zip(c0, ax_c))], tol=1e-8)
                        chk("rotate_axis_ignores_length", xyz(v.rotate_axis(axis2, a)), xyz(r), {"axis": repr(axis)})
                        chk("rotate_axis_inverse", xyz(r.rotate_axis(axis, -a)), c0, {"axis": repr(axis)})
                        # quaternion
                        nn = math.sqrt(sum(q * q for q in ax_c))
                        nx, ny, nz = [q / nn for q in ax_c]
                        q = v.rotate_quaternion(math.cos(a / 2), nx * math.sin(a / 2), ny * math.sin(a / 2), nz * math.sin(a / 2))
                        chk("quaternion_vs_axis", xyz(q), xyz(r), {"axis": repr(axis)}, tol=1e-8)
                        # Euler: all 12 orders, both cases
                        for o in ORDERS:
                            want = mv(Rm(o[0], -c), mv(Rm(o[1], -b), mv(Rm(o[2], -a), c0)))
                            for oo in (o, o.upper()):
                                got = v.rotate_euler(a, b, c, oo)
                                n += 1
                                chk("rotate_euler_" + o, xyz(got), want, {"order": oo}, tol=1e-8 if stratum == "large_angles" else 1e-9)
                            chk("euler_preserves_length_" + o, [got.mag], [v.mag])
                        chk("rotate_nautical", xyz(v.rotate_nautical(a, b, c)), xyz(v.rotate_euler(c, b, a, "zyx")))
                        chk("rotate_euler_default_zxz", xyz(v.rotate_euler(a, b, c)), xyz(v.rotate_euler(a, b, c, "zxz")))
                        if len(samples) < 3 and stratum == "quadrants":
                            samples.append({"v": repr(v), "angles": [a, b, c], "rotate_euler yzy": repr(v.rotate_euler(a, b, c, "yzy"))})
                # array backends agree with the object backend
                rng = H.rng_for(ctx.seed, "C10arr", dim, names)
                pts = [H.from_cart(names, *H.cart_stratum(rng, "quadrants", dim)) for _ in range(3)]
                objs = [H.obj(vector, names, p) for p in pts]
                a, b, c = 0.7, -1.9, 2.4
                for backend in ("numpy", "awkward"):
                    cols = {k_: numpy.array([p[k_] for p in pts]) for k_ in names}
                    va = vector.array(cols) if backend == "numpy" else vector.Array(ak.zip(cols))
                    tl = (lambda r: [float(q) for q in numpy.asarray(r)]) if backend == "numpy" else (lambda r: [float(q) for q in ak.to_list(r)])
                    for o in ("yzy", "zxz", "xyz"):
                        got = va.rotate_euler(a, b, c, o)
                        want = [ob.rotate_euler(a, b, c, o) for ob in objs]
                        n += 3
                        for comp in ("x", "y", "z"):
                            if not near(tl(getattr(got, comp)), [getattr(w, comp) for w in want], 10.0, 1e-12):
                                ctx.fail(f"{backend}:{dim}D:{sysn}:rotate_euler_{o}", f"{backend} differs from object in {comp}", {"points": pts})
        # 2D rotateZ
        for names in H.SYS[2]:
            rng = H.rng_for(ctx.seed, "C10_2d", names)
            for rep in range(6 * reps):
                x, y, _, _ = H.cart_stratum(rng, "quadrants", 2)
                v = H.obj(vector, names, H.from_cart(names, x, y))
                a = angle(rng, ["quadrants", "pi_multiples", "large_angles"][rep % 3])
                r = v.rotateZ(a)
                n += 1
                distinct.add((2, names, rep))
                want = [math.cos(a) * x - math.sin(a) * y, math.sin(a) * x + math.cos(a) * y]
                if not near([r.x, r.y], want, abs(x) + abs(y) + 1, 1e-9) or not near([r.rho], [v.rho], v.rho + 1, 1e-12):
                    ctx.fail(f"object:2D:{H.sysname(names)}:rotateZ", f"got {(r.x, r.y)}, want {want}", {"v": repr(v), "angle": a})
    ctx.coverage["evaluations"] = n
    ctx.coverage["distinct_nontrivial"] = len(distinct)
    ctx.coverage["samples"] = samples
    ctx.coverage["correspondences"] = {"object backend vs independent rotation matrices (all spellings)": {"ok": not any(f["site"].startswith("object") for f in ctx.failures)},
                                       "numpy/awkward == object": {"ok": not any(f["site"].startswith(("numpy", "awkward")) for f in ctx.failures)}}


_run_without_compiled = run


def run(ctx):
    _run_without_compiled(ctx)
    from tools import nbrows
    nbrows.check(ctx, ['rotateZ', 'rotateX', 'rotateY', 'rotate_axis', 'rotate_nautical', 'rotate_quaternion', 'rotate_euler_default', 'rotate_euler_xzx', 'rotate_euler_xyx', 'rotate_euler_yxy', 'rotate_euler_yzy', 'rotate_euler_zyz', 'rotate_euler_zxz', 'rotate_euler_xzy', 'rotate_euler_xyz', 'rotate_euler_yxz', 'rotate_euler_yzx', 'rotate_euler_zyx', 'rotate_euler_zxy'], 'the rotations')


def replay(rec):
    import vector
    f = rec.get("failure") or {}
    inp = f.get("input") or {}
    ns = {k: getattr(vector, k) for k in ("VectorObject2D", "VectorObject3D", "VectorObject4D", "MomentumObject2D", "MomentumObject3D", "MomentumObject4D")}
    out = {"site": f.get("site"), "what": f.get("what"), "input": inp}
    if "v" in inp and "order" in inp:
        v = eval(inp["v"], ns)
        a, b, c = inp["angles"]
        got = v.rotate_euler(a, b, c, inp["order"])
        o = inp["order"].lower()
        want = mv(Rm(o[0], -c), mv(Rm(o[1], -b), mv(Rm(o[2], -a), xyz(v))))
        out.update(got=xyz(got), want=want, still_fails=not near(xyz(got), want, 10.0, 1e-8))
    return out
