"""C15 — generated histories of assignments and in-place operators on real object vectors (concrete values):
after every step the object is compared with its functional equivalent; identity/class/system are checked."""
from __future__ import annotations

import math

import numpy

from tools import harness as H

COQ_TARGETS = ["props/C15.vo"]
RULE = ("histories: start vector in each of the 20 systems x 2 flavors; steps drawn from {assign a coordinate of any group "
        "(generic or momentum spelling), += / -= a vector of any system and flavor (same dimension; sometimes another "
        "dimension, which must raise and change nothing), *= / /= a scalar}; length 8 (quick) / 30 (thorough); distinct = "
        "distinct (start system, flavor, history index); non-trivial = history with >= 2 different kinds of step")
ASSUMPTIONS = ["finite generic values; float comparisons of converted quantities at 1e-9 relative, assigned values exact"]
SETN = {2: ["x", "y", "rho", "phi"], 3: ["x", "y", "rho", "phi", "z", "theta", "eta"], 4: ["x", "y", "rho", "phi", "z", "theta", "eta", "t", "tau"]}
MOMSET = {"x": ["px"], "y": ["py"], "rho": ["pt"], "z": ["pz"], "t": ["E", "e", "energy"], "tau": ["M", "m", "mass"]}
PARTNER = {"x": "y", "y": "x", "rho": "phi", "phi": "rho"}
GROUP = {"x": 0, "y": 0, "rho": 0, "phi": 0, "z": 1, "theta": 1, "eta": 1, "t": 2, "tau": 2}
VALRANGE = {"x": (-3, 3), "y": (-3, 3), "rho": (0.2, 3), "phi": (-3, 3), "z": (-3, 3), "theta": (0.2, 2.9), "eta": (-2, 2), "t": (6, 12), "tau": (0.5, 4)}


def stored(v):
    out = list(v.azimuthal.elements)
    if hasattr(v, "longitudinal"):
        out += list(v.longitudinal.elements)
    if hasattr(v, "temporal"):
        out += list(v.temporal.elements)
    return out


def sysnames(v):
    from vector._methods import _aztype, _coordinate_class_to_names, _ltype, _ttype
    n = list(_coordinate_class_to_names[_aztype(v)])
    if hasattr(v, "longitudinal"):
        n += _coordinate_class_to_names[_ltype(v)]
    if hasattr(v, "temporal"):
        n += _coordinate_class_to_names[_ttype(v)]
    return n


def cart(v, dim):
    return [v.x, v.y] + ([v.z] if dim >= 3 else []) + ([v.t] if dim == 4 else [])


def near(a, b, tol=1e-9):
    S = max([1.0] + [abs(q) for q in a + b])
    return all(abs(p - q) <= tol * S for p, q in zip(a, b))


def run(ctx):
    import vector
    deep = ctx.tier == "thorough" or bool(ctx.broken)
    length, nhist = (30, 4) if deep else (8, 2)
    n = 0
    distinct = set()
    samples = []
    kinds_hist = {}
    with numpy.errstate(all="ignore"):
        for dim in (2, 3, 4):
            for names in H.SYS[dim]:
                for mom in (False, True):
                    for hi in range(nhist):
                        rng = H.rng_for(ctx.seed, "C15", names, mom, hi)
                        x, y, z, t = H.cart_stratum(rng, "quadrants", dim)
                        v = H.obj(vector, names, H.from_cart(names, x, y, z, t + 5), momentum=mom)
                        v0 = v
                        hist = []
                        kinds = set()
                        for step in range(length):
                            kind = rng.choice(["set", "set", "iadd", "isub", "imul", "idiv", "bad"])
                            before = stored(v)
                            bsys = sysnames(v)
                            cls = type(v)
                            site = f"object:{dim}D:{H.sysname(names)}:{'momentum' if mom else 'generic'}"
                            n += 1
                            if kind == "set":
                                c = rng.choice(SETN[dim])
                                key = rng.choice([c] + (MOMSET.get(c, []) if mom else []))
                                val = rng.uniform(*VALRANGE[c])
                                other = {nm: getattr(v, nm) for nm in bsys if GROUP[nm] != GROUP[c]}
                                partner = getattr(v, PARTNER[c]) if c in PARTNER else None
                                hist.append(f"v.{key} = {val!r}")
                                setattr(v, key, val)
                                inp = {"start": repr(v0), "history": hist}
                                if getattr(v, c) != val:
                                    ctx.fail(site + ":readback", f"after {hist[-1]}: v.{c} = {getattr(v, c)}", inp)
                                if c in PARTNER and not (getattr(v, PARTNER[c]) == partner):
                                    ctx.fail(site + ":partner", f"after {hist[-1]}: partner {PARTNER[c]} changed {partner} -> {getattr(v, PARTNER[c])}", inp)
                                for nm, ov in other.items():
                                    if getattr(v, nm) != ov or nm not in sysnames(v):
                                        ctx.fail(site + ":other_groups", f"after {hist[-1]}: stored {nm} changed {ov} -> {getattr(v, nm)} ({sysnames(v)})", inp)
                                if type(v) is not cls:
                                    ctx.fail(site + ":class", f"after {hist[-1]}: class {cls.__name__} -> {type(v).__name__}", inp)
                            elif kind in ("iadd", "isub", "bad"):
                                od = dim if kind != "bad" else rng.choice([d for d in (2, 3, 4) if d != dim])
                                on = rng.choice(H.SYS[od])
                                ox, oy, oz, ot = H.cart_stratum(rng, "quadrants", od)
                                w = H.obj(vector, on, H.from_cart(on, ox, oy, oz, ot + 1), momentum=rng.random() < 0.5)
                                op = "+=" if kind != "isub" else "-="
                                hist.append(f"v {op} {w!r}")
                                inp = {"start": repr(v0), "history": hist}
                                want = None
                                try:
                                    want = (v + w) if op == "+=" else (v - w)
                                except TypeError:
                                    pass
                                ident = v
                                try:
                                    if op == "+=":
                                        v += w
                                    else:
                                        v -= w
                                    raised = False
                                except TypeError:
                                    raised = True
                                if od != dim:
                                    if not raised or stored(v) != before or sysnames(v) != bsys:
                                        ctx.fail(site + ":raise_keeps", f"{hist[-1]}: raised={raised}, stored {before} -> {stored(v)}", inp)
                                    continue
                                if raised or want is None:
                                    ctx.fail(site + ":inplace", f"{hist[-1]} raised TypeError", inp)
                                    continue
                                if v is not ident or type(v) is not cls or sysnames(v) != bsys:
                                    ctx.fail(site + ":identity", f"{hist[-1]}: identity/class/system not kept ({type(v).__name__}, {sysnames(v)})", inp)
                                skip = dim == 4 and "tau" in bsys and (want.t < 0 or want.tau < 0)
                                if not skip and not near(cart(v, dim), cart(want, dim)):
                                    ctx.fail(site + ":functional", f"{hist[-1]}: in-place {cart(v, dim)}, functional {cart(want, dim)}", inp)
                            else:
                                k = rng.uniform(0.5, 2.0)
                                op = "*=" if kind == "imul" else "/="
                                hist.append(f"v {op} {k!r}")
                                inp = {"start": repr(v0), "history": hist}
                                want = (v * k) if op == "*=" else (v / k)
                                ident = v
                                if op == "*=":
                                    v *= k
                                else:
                                    v /= k
                                if v is not ident or type(v) is not cls or sysnames(v) != bsys:
                                    ctx.fail(site + ":identity", f"{hist[-1]}: identity/class/system not kept", inp)
                                if not near(cart(v, dim), cart(want, dim)):
                                    ctx.fail(site + ":functional", f"{hist[-1]}: in-place {cart(v, dim)}, functional {cart(want, dim)}", inp)
                            kinds.add(kind)
                            if any(isinstance(q, float) and math.isnan(q) for q in stored(v)):
                                break
                        if len(kinds) >= 2:
                            distinct.add((names, mom, hi))
                        for k_ in kinds:
                            kinds_hist[k_] = kinds_hist.get(k_, 0) + 1
                        if len(samples) < 3 and dim == 4 and hi == 0 and mom:
                            samples.append({"start": repr(v0), "history": hist[:6], "end": repr(v)})
    ctx.coverage["evaluations"] = n
    ctx.coverage["distinct_nontrivial"] = len(distinct)
    ctx.coverage["step_kind_histogram"] = kinds_hist
    ctx.coverage["history_length"] = length
    ctx.coverage["samples"] = samples
    ctx.coverage["correspondences"] = {"histories on real objects: each step vs functional equivalent, identity, class, system": {"ok": not ctx.failures}}


def replay(rec):
    import vector
    f = rec.get("failure") or {}
    inp = f.get("input") or {}
    ns = {k: getattr(vector, k) for k in ("VectorObject2D", "VectorObject3D", "VectorObject4D", "MomentumObject2D", "MomentumObject3D", "MomentumObject4D")}
    out = {"site": f.get("site"), "what": f.get("what")}
    if "start" in inp:
        ns["v"] = eval(inp["start"], ns)
        for st in inp["history"]:
            try:
                exec(st, ns)
            except Exception as e:
                out.setdefault("raised", []).append(f"{st}: {type(e).__name__}")
        out["end"] = repr(ns["v"])
    return out
