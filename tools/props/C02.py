"""C02 — documented definitions: the real object backend (float64) against an independent 60-digit mpmath oracle
written from the documentation, in every coordinate system; plus the NumPy backend on the same points."""
from __future__ import annotations

import math

import mpmath
import numpy

from tools import harness as H

COQ_TARGETS = ["props/C02.vo"]
RULE = ("operations of the catalogue x every coordinate system x strata (quadrants, large, near-axis moderate, boosts up to "
        "beta 0.999, all 12 Euler orders); oracle = mpmath at 60 digits from the Cartesian point with formulas taken from the "
        "documentation; float64 result must be within 40 ulp x condition estimate; distinct = distinct (operation, system, stratum, rep)")
ASSUMPTIONS = ["well-conditioned operands; the float64 error bound is tested (40 ulp x condition), not proved"]
mp = mpmath.mp
ORDERS = ["xzx", "xyx", "yxy", "yzy", "zyz", "zxz", "xzy", "xyz", "yxz", "yzx", "zyx", "zxy"]


def mpc(names, p):
    """60-digit Cartesian point of stored float64 coordinates (the stored floats are taken as exact)"""
    g = {k: mp.mpf(v) for k, v in p.items()}
    x, y = (g["x"], g["y"]) if "x" in g else (g["rho"] * mp.cos(g["phi"]), g["rho"] * mp.sin(g["phi"]))
    rho = mp.sqrt(x * x + y * y)
    out = [x, y]
    if len(names) >= 3:
        n = names[2]
        z = g["z"] if n == "z" else (rho / mp.tan(g["theta"]) if n == "theta" else rho * mp.sinh(g["eta"]))
        out.append(z)
        if len(names) == 4:
            out.append(g["t"] if names[3] == "t" else mp.sqrt(g["tau"] ** 2 + x * x + y * y + z * z))
    return out


def Rm(ax, a):
    c, s = mp.cos(a), mp.sin(a)
    return {"x": [[1, 0, 0], [0, c, -s], [0, s, c]], "y": [[c, 0, s], [0, 1, 0], [-s, 0, c]], "z": [[c, -s, 0], [s, c, 0], [0, 0, 1]]}[ax]


def mv(M, v):
    return [sum(M[i][j] * v[j] for j in range(3)) for i in range(3)]


def boost(v, b):
    x, y, z, t = v
    b2 = sum(q * q for q in b)
    g = 1 / mp.sqrt(1 - b2)
    k = (g - 1) / b2
    bp = b[0] * x + b[1] * y + b[2] * z
    return [x + k * bp * b[0] + g * b[0] * t, y + k * bp * b[1] + g * b[1] * t, z + k * bp * b[2] + g * b[2] * t, g * (t + bp)]


def run(ctx):
    import vector
    mp.dps = 60
    deep = ctx.tier == "thorough" or bool(ctx.broken)
    reps = 4 if deep else 2
    n = 0
    distinct = set()
    samples = []
    worst = 0.0
    eps = 2.0 ** -52

    def cmp(site, got, want, scale, inp, ulps=40):
        nonlocal worst
        got = got if isinstance(got, (list, tuple)) else [got]
        want = want if isinstance(want, (list, tuple)) else [want]
        for g, w in zip(got, want):
            err = abs(mp.mpf(float(g)) - w)
            tol = ulps * eps * max(abs(w), mp.mpf(scale))
            r = float(err / tol) if tol else 0.0
            worst = max(worst, r)
            if err > tol:
                ctx.fail(site, f"float64 {float(g)!r}, definition at 60 digits {mp.nstr(w, 20)} (error {mp.nstr(err, 3)}, allowed {mp.nstr(tol, 3)})", inp)
                return
    with numpy.errstate(all="ignore"):
        for dim in (2, 3, 4):
            for names in H.SYS[dim]:
                sysn = H.sysname(names)
                rng = H.rng_for(ctx.seed, "C02", names)
                for stratum in ("quadrants", "large", "generic"):
                    for rep in range(reps):
                        cart = H.cart_stratum(rng, stratum, dim)
                        p = H.from_cart(names, *cart)
                        v = H.obj(vector, names, p, momentum=bool(rep % 2))
                        c = mpc(names, p)
                        S = float(max(abs(q) for q in c))
                        site = f"object:{dim}D:{sysn}"
                        inp = {"v": repr(v), "stratum": stratum}
                        n += 1
                        distinct.add((sysn, stratum, rep))
                        x, y = c[0], c[1]
                        rho = mp.sqrt(x * x + y * y)
                        cmp(site + ":x", v.x, x, S, inp)
                        cmp(site + ":y", v.y, y, S, inp)
                        cmp(site + ":rho", v.rho, rho, S, inp)
                        cmp(site + ":phi", v.phi, mp.atan2(y, x), 1, inp)
                        a = mp.mpf(rng.uniform(-6, 6))
                        r = v.rotateZ(float(a))
                        cmp(site + ":rotateZ", [r.x, r.y], [mp.cos(a) * x - mp.sin(a) * y, mp.sin(a) * x + mp.cos(a) * y], S, inp)
                        f = rng.uniform(0.3, 3) * rng.choice([-1, 1])
                        if "tau" not in names or f > 0:
                            sc = v * f
                            cmp(site + ":scale", [sc.x, sc.y], [x * f, y * f], S * abs(f), inp)
                        wn = H.SYS[dim][(len(sysn) + rep) % len(H.SYS[dim])]
                        pw = H.from_cart(wn, *H.cart_stratum(rng, stratum, dim))
                        w = H.obj(vector, wn, pw)
                        cw = mpc(wn, pw)
                        Sw = max(S, float(max(abs(q) for q in cw)))
                        sgn = [1] * dim if dim < 4 else [-1, -1, -1, 1]
                        cond = sum(abs(p_ * q_) for p_, q_ in zip(c, cw))
                        cmp(site + ":dot", v.dot(w), sum(s_ * p_ * q_ for s_, p_, q_ in zip(sgn, c, cw)), float(cond), inp)
                        ad = v + w
                        cmp(site + ":add", [ad.x, ad.y] + ([ad.z] if dim >= 3 else []) + ([ad.t] if dim == 4 else []), [p_ + q_ for p_, q_ in zip(c, cw)], Sw, inp, 400)
                        dphi = mp.atan2(y, x) - mp.atan2(cw[1], cw[0])
                        dphi = (dphi + mp.pi) % (2 * mp.pi) - mp.pi
                        if abs(abs(dphi) - mp.pi) > 1e-6:
                            cmp(site + ":deltaphi", v.deltaphi(w), dphi, 1, inp)
                        # general linear transform of THIS dimension, in every coordinate system: the documented matrix-vector product
                        keys = ["x", "y", "z", "t"][:dim]
                        M = {a_ + b_: rng.uniform(-2, 2) for a_ in keys for b_ in keys}
                        tr = getattr(v, f"transform{dim}D")(M)
                        cmp(site + f":transform{dim}D", [getattr(tr, k_) for k_ in keys],
                            [sum(mp.mpf(M[a_ + b_]) * c[j_] for j_, b_ in enumerate(keys)) for a_ in keys], S * 8, inp, 400)
                        if dim >= 3:
                            z = c[2]
                            mag = mp.sqrt(x * x + y * y + z * z)
                            cmp(site + ":z", v.z, z, S, inp)
                            cmp(site + ":mag", v.mag, mag, S, inp)
                            cmp(site + ":theta", v.theta, mp.acos(z / mag), 1, inp)
                            cmp(site + ":eta", v.eta, mp.asinh(z / rho), 1, inp)
                            cmp(site + ":costheta", v.costheta, z / mag, 1, inp)
                            for ax, m in (("x", "rotateX"), ("y", "rotateY")):
                                rr = getattr(v, m)(float(a))
                                cmp(site + ":" + m, [rr.x, rr.y, rr.z], mv(Rm(ax, a), c[:3]), S, inp)
                            a1, a2, a3 = [mp.mpf(rng.uniform(-3, 3)) for _ in range(3)]
                            for o in (ORDERS if deep or rep == 0 else ORDERS[:: 3]):
                                re = v.rotate_euler(float(a1), float(a2), float(a3), o)
                                want = mv(Rm(o[0], -a3), mv(Rm(o[1], -a2), mv(Rm(o[2], -a1), c[:3])))
                                cmp(site + ":rotate_euler_" + o, [re.x, re.y, re.z], want, S, inp)
                            cr = v.to_Vector3D().cross(w.to_Vector3D())
                            cmp(site + ":cross", [cr.x, cr.y, cr.z], [c[1] * cw[2] - c[2] * cw[1], c[2] * cw[0] - c[0] * cw[2], c[0] * cw[1] - c[1] * cw[0]], Sw * Sw, inp)
                            deta = mp.asinh(c[2] / rho) - mp.asinh(cw[2] / mp.sqrt(cw[0] ** 2 + cw[1] ** 2))
                            if abs(abs(dphi) - mp.pi) > 1e-6:
                                cmp(site + ":deltaR", v.deltaR(w), mp.sqrt(dphi ** 2 + deta ** 2), 1, inp)
                        # across the phi = +-pi seam, both operands in THIS system and in every other one: the raw difference of
                        # the two azimuths exceeds pi and must be wrapped (deltaphi, deltaR, deltaR2)
                        u = rng.uniform
                        c1 = (-u(0.3, 3), u(0.3, 3), u(-2, 2), 10.0)
                        c2 = (-u(0.3, 3), -u(0.3, 3), u(-2, 2), 11.0)
                        for n2 in ([names] + ([H.SYS[dim][(rep + 1) % len(H.SYS[dim])]] if deep or rep == 0 else [])):
                            for (ca, cb_), (na, nb_) in (((c1, c2), (names, n2)), ((c2, c1), (n2, names))):
                                pa, pb_ = H.from_cart(na, *ca[:max(dim, 2)] if dim < 4 else ca), H.from_cart(nb_, *cb_[:max(dim, 2)] if dim < 4 else cb_)
                                va, vb_ = H.obj(vector, na, pa), H.obj(vector, nb_, pb_)
                                ma, mb_ = mpc(na, pa), mpc(nb_, pb_)
                                dp = mp.atan2(ma[1], ma[0]) - mp.atan2(mb_[1], mb_[0])
                                dp = (dp + mp.pi) % (2 * mp.pi) - mp.pi
                                inp2 = {"a": repr(va), "b": repr(vb_), "stratum": "phi_seam"}
                                n += 1
                                cmp(site + ":deltaphi:seam", va.deltaphi(vb_), dp, 1, inp2)
                                if dim >= 3:
                                    de = mp.asinh(ma[2] / mp.sqrt(ma[0] ** 2 + ma[1] ** 2)) - mp.asinh(mb_[2] / mp.sqrt(mb_[0] ** 2 + mb_[1] ** 2))
                                    cmp(site + ":deltaR:seam", va.deltaR(vb_), mp.sqrt(dp ** 2 + de ** 2), 1, inp2)
                                    cmp(site + ":deltaR2:seam", va.deltaR2(vb_), dp ** 2 + de ** 2, 1, inp2)
                        if dim == 4:
                            t = c[3]
                            tau2 = t * t - mag * mag
                            condt = float(t * t + mag * mag)
                            cmp(site + ":t", v.t, t, S, inp)
                            cmp(site + ":tau2", v.tau2, tau2, condt, inp)
                            if tau2 > 0:
                                cmp(site + ":tau", v.tau, mp.sqrt(tau2), float(mp.sqrt(mp.mpf(condt))) * float(mp.sqrt(mp.mpf(condt)) / mp.sqrt(tau2)), inp)
                                cmp(site + ":beta", v.beta, mag / t, 1, inp)
                                cmp(site + ":gamma", v.gamma, t / mp.sqrt(tau2), float(t / mp.sqrt(tau2)) * float(condt / tau2), inp)
                                cmp(site + ":rapidity", v.rapidity, mp.log((t + z) / (t - z)) / 2, float(1 + t / (t - abs(z))), inp)
                            cmp(site + ":Mt2", v.to_Vector4D().Mt2 if hasattr(v, "Mt2") else vector.obj(px=float(x), py=float(y), pz=float(z), E=float(t)).Mt2, t * t - z * z, float(t * t + z * z), inp)
                            bmag = rng.choice([0.3, 0.9, 0.999])
                            d = [rng.uniform(0.2, 1) * rng.choice([-1, 1]) for _ in range(3)]
                            dn = math.sqrt(sum(q * q for q in d))
                            beta = [q / dn * bmag for q in d]
                            g = 1 / math.sqrt(1 - bmag * bmag)
                            bn = H.SYS[3][(rep + len(sysn)) % 6]
                            pb = H.from_cart(bn, *beta)
                            b3 = H.obj(vector, bn, pb)
                            cb = mpc(bn, pb)
                            rb = v.boost_beta3(b3)
                            cmp(site + ":boost_beta3", [rb.x, rb.y, rb.z, rb.t], boost(c, cb), S * g * g, inp, 2000)
                            bb = mp.mpf(rng.uniform(-0.9, 0.9))
                            rx = v.boostX(beta=float(bb))
                            cmp(site + ":boostX", [rx.x, rx.y, rx.z, rx.t], boost(c, [bb, mp.mpf(0) + mp.mpf("1e-80"), mp.mpf("1e-80")]), S * 6, inp, 2000)
                        if len(samples) < 3 and dim == 4 and stratum == "quadrants":
                            samples.append({"v": repr(v), "tau (float64)": v.tau, "tau (60 digits)": mp.nstr(mp.sqrt(abs(tau2)), 25)})
                # NumPy backend on the same kind of points: equals the object backend
                pts = [H.from_cart(names, *H.cart_stratum(rng, "quadrants", dim)) for _ in range(3)]
                arr = vector.array({k: numpy.array([p_[k] for p_ in pts]) for k in names})
                for g_ in ("x", "y", "rho", "phi") + (("z", "theta", "eta", "mag") if dim >= 3 else ()) + (("t", "tau") if dim == 4 else ()):
                    n += 1
                    got = numpy.asarray(getattr(arr, g_))
                    want = [getattr(H.obj(vector, names, p_), g_) for p_ in pts]
                    if not all(abs(a_ - b_) <= 1e-12 * max(1.0, abs(b_)) for a_, b_ in zip(got, want)):
                        ctx.fail(f"numpy:{dim}D:{sysn}:{g_}", f"numpy {got.tolist()} vs object {want}", {"points": pts})
    # the proved float64 bounds (C02_float64_error_bounds_partial) on the real code: exact rational arithmetic, both backends
    nb, worstb = float_bounds(ctx, vector, 400 if deep else 120)
    n += nb
    ctx.coverage["evaluations"] = n
    ctx.coverage["distinct_nontrivial"] = len(distinct)
    ctx.coverage["worst_error_over_allowed"] = worst
    ctx.coverage["samples"] = samples
    ctx.coverage["proved_float_bounds_worst_error_over_bound"] = worstb
    ctx.coverage["correspondences"] = {"real float64 results within the PROVED bounds g_k / h_k (exact rational check, object + numpy)": {"ok": not any(f["site"].startswith("floatbound") for f in ctx.failures)},
                                       "float64 object backend vs 60-digit definitions (40 ulp x condition)": {"ok": not any(f["site"].startswith("object") for f in ctx.failures)},
                                       "numpy accessors == object": {"ok": not any(f["site"].startswith("numpy") for f in ctx.failures)}}


def float_bounds(ctx, vector, count):
    """The model assumptions of lib/FLib.v (IEEE + - * sqrt, x**2 within one ulp, no overflow / underflow) and the bounds proved from
    them, checked on the implementation with exact rational arithmetic: |v - e| <= g_k * sum|terms|, |v^2 - e| window for the roots."""
    from fractions import Fraction as F
    u = F(1, 2 ** 53)
    g2 = u + u + u * u; g3 = g2 + u + g2 * u; g4 = g3 + u + g3 * u
    h2 = 2 * u + u + 2 * u * u; h3 = h2 + u + h2 * u; h4 = h3 + u + h3 * u
    rng = H.rng_for(ctx.seed, "C02", "floatbounds")
    n = 0
    worst = 0.0

    def draw(kind):
        if kind == "cancel":            # ill-conditioned: the products nearly cancel
            a = rng.uniform(-1e3, 1e3); b = rng.uniform(0.5, 2.0)
            return a, a * b * (1 + rng.uniform(-1e-9, 1e-9))
        if kind == "wide":
            return rng.uniform(-1, 1) * 10.0 ** rng.randint(-30, 30), rng.uniform(-1, 1) * 10.0 ** rng.randint(-30, 30)
        return rng.uniform(-1e3, 1e3), rng.uniform(-1e3, 1e3)

    def check(site, v, e, bound, inp):
        nonlocal worst
        err = abs(F(float(v)) - e)
        if bound:
            worst = max(worst, float(err / bound))
        if err > bound:
            ctx.fail("floatbound:" + site, f"float64 result {float(v)!r} is {float(err / bound) if bound else 'inf'} x the proved bound away from the exact value", inp)

    def check_root(site, v, e2, h, inp):
        v = F(float(v))
        if not ((1 - h) ** 2 * e2 <= v * v <= (1 + h) ** 2 * e2 and v >= 0):
            ctx.fail("floatbound:" + site, f"float64 result {float(v)!r}: v^2 outside [(1-h)^2, (1+h)^2] x exact {float(e2)!r}", inp)

    for i in range(count):
        kind = ("generic", "cancel", "wide")[i % 3]
        x1, x2 = draw(kind); y1, y2 = draw(kind); z1, z2 = draw(kind); t1, t2 = draw(kind)
        if kind == "cancel":
            y1, y2 = -x1 * rng.uniform(0.999999, 1.000001), x2   # x1 x2 + y1 y2 ~ 0
        X1, Y1, Z1, T1, X2, Y2, Z2, T2 = (F(q) for q in (x1, y1, z1, t1, x2, y2, z2, t2))
        inp = {"a": [x1, y1, z1, t1], "b": [x2, y2, z2, t2], "kind": kind}
        for backend in ("object", "numpy"):
            if backend == "object":
                mk = lambda **kw: vector.obj(**kw)
                val = float
            else:
                mk = lambda **kw: vector.array({k: numpy.array([q]) for k, q in kw.items()})
                val = lambda r: float(numpy.asarray(r)[0])
            a2, b2 = mk(x=x1, y=y1), mk(x=x2, y=y2)
            a3, b3 = mk(x=x1, y=y1, z=z1), mk(x=x2, y=y2, z=z2)
            a4, b4 = mk(x=x1, y=y1, z=z1, t=t1), mk(x=x2, y=y2, z=z2, t=t2)
            n += 7
            check(f"{backend}:planar.dot", val(a2.dot(b2)), X1 * X2 + Y1 * Y2, g2 * (abs(X1 * X2) + abs(Y1 * Y2)), inp)
            check(f"{backend}:spatial.dot", val(a3.dot(b3)), X1 * X2 + Y1 * Y2 + Z1 * Z2, g3 * (abs(X1 * X2) + abs(Y1 * Y2) + abs(Z1 * Z2)), inp)
            check(f"{backend}:lorentz.dot", val(a4.dot(b4)), T1 * T2 - (X1 * X2 + Y1 * Y2 + Z1 * Z2),
                  g4 * (abs(T1 * T2) + abs(X1 * X2) + abs(Y1 * Y2) + abs(Z1 * Z2)), inp)
            check(f"{backend}:planar.rho2", val(a2.rho2), X1 * X1 + Y1 * Y1, h2 * (X1 * X1 + Y1 * Y1), inp)
            check(f"{backend}:spatial.mag2", val(a3.mag2), X1 * X1 + Y1 * Y1 + Z1 * Z1, h3 * (X1 * X1 + Y1 * Y1 + Z1 * Z1), inp)
            check_root(f"{backend}:planar.rho", val(a2.rho), X1 * X1 + Y1 * Y1, h3, inp)
            n += 5
            check(f"{backend}:lorentz.tau2", val(a4.tau2), T1 * T1 - (X1 * X1 + Y1 * Y1 + Z1 * Z1), h4 * (T1 * T1 + X1 * X1 + Y1 * Y1 + Z1 * Z1), inp)
            cr, ad = a3.cross(b3), a3 + b3
            check(f"{backend}:spatial.cross.x", val(cr.x), Y1 * Z2 - Z1 * Y2, g2 * (abs(Y1 * Z2) + abs(Z1 * Y2)), inp)
            check(f"{backend}:spatial.cross.y", val(cr.y), Z1 * X2 - X1 * Z2, g2 * (abs(Z1 * X2) + abs(X1 * Z2)), inp)
            check(f"{backend}:spatial.cross.z", val(cr.z), X1 * Y2 - Y1 * X2, g2 * (abs(X1 * Y2) + abs(Y1 * X2)), inp)
            check(f"{backend}:spatial.add.z", val(ad.z), Z1 + Z2, u * abs(Z1 + Z2), inp)
            check_root(f"{backend}:spatial.mag", val(a3.mag), X1 * X1 + Y1 * Y1 + Z1 * Z1, h4, inp)
    return n, worst


def replay(rec):
    return {"site": (rec.get("failure") or {}).get("site"), "what": (rec.get("failure") or {}).get("what"), "still_fails": None}
