"""C14 — momentum synonyms on the NumPy, Awkward and SymPy backends and through the constructors (real code)."""
from __future__ import annotations

import numpy

from tools import harness as H

COQ_TARGETS = ["props/C14.vo"]
SYN = {"px": "x", "py": "y", "pt": "rho", "pt2": "rho2", "pz": "z", "p": "mag", "p2": "mag2", "pseudorapidity": "eta",
       "E": "t", "e": "t", "energy": "t", "E2": "t2", "e2": "t2", "energy2": "t2", "M": "tau", "m": "tau", "mass": "tau",
       "M2": "tau2", "m2": "tau2", "mass2": "tau2", "et": "Et", "transverse_energy": "Et", "et2": "Et2",
       "transverse_energy2": "Et2", "mt": "Mt", "transverse_mass": "Mt", "mt2": "Mt2", "transverse_mass2": "Mt2"}
STORE = {"px": "x", "py": "y", "pt": "rho", "pz": "z", "E": "t", "e": "t", "energy": "t", "M": "tau", "m": "tau", "mass": "tau"}
MINDIM = {"x": 2, "y": 2, "rho": 2, "rho2": 2, "z": 3, "mag": 3, "mag2": 3, "eta": 3, "t": 4, "t2": 4, "tau": 4, "tau2": 4, "Et": 4, "Et2": 4, "Mt": 4, "Mt2": 4}
RULE = ("every synonym of the table x every coordinate system x backend (object, NumPy attribute / field access / item "
        "assignment, Awkward attribute and field access, SymPy) on generic values; results must be bit-identical to the "
        "geometric name; construction through every spelling of each coordinate; distinct = distinct (backend, system, name)")
ASSUMPTIONS = ["finite generic values"]


def same(a, b):
    a, b = numpy.asarray(a, dtype=float), numpy.asarray(b, dtype=float)
    return a.shape == b.shape and bool(numpy.all((a == b) | (numpy.isnan(a) & numpy.isnan(b))))


def run(ctx):
    import awkward as ak
    import sympy
    import vector
    n = 0
    distinct = set()
    samples = []
    with numpy.errstate(all="ignore"):
        for dim in (2, 3, 4):
            for names in H.SYS[dim]:
                sysn = H.sysname(names)
                rng = H.rng_for(ctx.seed, "C14", names)
                pts = [H.from_cart(names, *H.cart_stratum(rng, "quadrants", dim)) for _ in range(4)]
                mnames = [H.MOM.get(k, k) for k in names]
                cols = {mk_: numpy.array([p[k] for p in pts]) for k, mk_ in zip(names, mnames)}
                objs = [H.obj(vector, names, p, momentum=True) for p in pts]
                gobjs = [H.obj(vector, names, p) for p in pts]
                arr = vector.array(cols)
                garr = vector.array({k: cols[mk_] for k, mk_ in zip(names, mnames)})
                aw = vector.Array(ak.zip(cols))
                rec = aw[0]
                for syn, geo in SYN.items():
                    if MINDIM[geo] > dim:
                        continue
                    n += 1
                    distinct.add((sysn, syn))
                    site = f"{dim}D:{sysn}:{syn}"
                    want = [getattr(o, geo) for o in objs]
                    if not same([getattr(o, syn) for o in objs], want):
                        ctx.fail("object:" + site, f"{syn} != {geo}", {"points": pts})
                    if geo not in ("Et", "Et2", "Mt", "Mt2") and not same([getattr(o, geo) for o in gobjs], want):
                        ctx.fail("object:" + site + ":flavor", f"{geo} differs between generic and momentum flavor", {"points": pts})
                    if not same(getattr(arr, syn), getattr(arr, geo)) or not same(getattr(arr, geo), want) or (geo not in ("Et", "Et2", "Mt", "Mt2") and not same(getattr(garr, geo), want)):
                        ctx.fail("numpy:" + site, f"numpy .{syn} / .{geo} / object disagree", {"points": pts})
                    if not same(ak.to_numpy(getattr(aw, syn)), ak.to_numpy(getattr(aw, geo))) or not same(ak.to_numpy(getattr(aw, geo)), want):
                        ctx.fail("awkward:" + site, f"awkward .{syn} / .{geo} / object disagree", {"points": pts})
                    if not same(getattr(rec, syn), want[0]):
                        ctx.fail("awkward-record:" + site, f"record .{syn} = {getattr(rec, syn)}, object {want[0]}", {"points": pts[:1]})
                # momentum-named conversions equal their geometric counterparts, keyword for keyword
                conv = {"to_pxpy": ("to_xy", {}), "to_ptphi": ("to_rhophi", {})}
                for azm, azg in (("pxpy", "xy"), ("ptphi", "rhophi")):
                    for lm, lgn in (("pz", "z"), ("theta", "theta"), ("eta", "eta")):
                        conv[f"to_{azm}{lm}"] = (f"to_{azg}{lgn}", {lm: lgn})
                        for tmn, tg in (("energy", "t"), ("mass", "tau")):
                            conv[f"to_{azm}{lm}{tmn}"] = (f"to_{azg}{lgn}{tg}", {lm: lgn, tmn: tg})
                for mm, (gm, kwmap) in conv.items():
                    for use_kw in (False, True):
                        vals = {"pz": 0.75, "theta": 1.25, "eta": -0.6, "energy": 12.5, "mass": 3.5}
                        kw_m = {k_: vals[k_] for k_ in kwmap} if use_kw else {}
                        kw_g = {kwmap[k_]: v for k_, v in kw_m.items()}
                        n += 1
                        for label, v in (("object", objs[0]), ("numpy", arr), ("awkward", aw)):
                            a_, b_ = getattr(v, mm)(**kw_m), getattr(v, gm)(**kw_g)
                            fa = [f for f in ("x", "y", "rho", "phi", "z", "theta", "eta", "t", "tau") if hasattr(a_, f)]
                            va = [numpy.asarray(ak.to_numpy(getattr(a_, f)) if label == "awkward" else getattr(a_, f), dtype=float) for f in fa]
                            vb = [numpy.asarray(ak.to_numpy(getattr(b_, f)) if label == "awkward" else getattr(b_, f), dtype=float) for f in fa]
                            if type(a_) is not type(b_) or not all(same(p, q) for p, q in zip(va, vb)):
                                ctx.fail(f"{label}:{dim}D:{sysn}:{mm}", f"{mm}({kw_m}) differs from {gm}({kw_g})", {"point": pts[0], "kw": kw_m})
                # indexing / assignment through a synonym (NumPy): the stored column
                for k, mk_ in zip(names, mnames):
                    n += 1
                    for key in {k, mk_} | {s_ for s_, g in STORE.items() if g == k}:
                        try:
                            col = arr[key]
                        except Exception as e:
                            ctx.fail(f"numpy:{dim}D:{sysn}:getitem[{key}]", f"raises {type(e).__name__}: {e}"[:200], {"points": pts})
                            continue
                        if not same(col, cols[mk_]):
                            ctx.fail(f"numpy:{dim}D:{sysn}:getitem[{key}]", "is not the stored column", {"points": pts})
                        a2 = vector.array(cols)
                        try:
                            a2[key] = numpy.array([9.5, 8.5, 7.5, 6.5])
                        except Exception as e:
                            ctx.fail(f"numpy:{dim}D:{sysn}:setitem[{key}]", f"raises {type(e).__name__}: {e}"[:200], {"points": pts})
                            continue
                        if not same(getattr(a2, k), [9.5, 8.5, 7.5, 6.5]) or any(not same(getattr(a2, o_), getattr(arr, o_)) for o_ in names if o_ != k):
                            ctx.fail(f"numpy:{dim}D:{sysn}:setitem[{key}]", "assignment through the name did not replace exactly that column", {"points": pts})
                # object setters through synonyms
                for k, mk_ in zip(names, mnames):
                    for key in {k, mk_} | {s_ for s_, g in STORE.items() if g == k}:
                        o1, o2 = H.obj(vector, names, pts[0], momentum=True), H.obj(vector, names, pts[0], momentum=True)
                        setattr(o1, key, 4.25)
                        setattr(o2, k, 4.25)
                        n += 1
                        if repr(o1) != repr(o2) or getattr(o1, k) != 4.25:
                            ctx.fail(f"object:{dim}D:{sysn}:set[{key}]", f"{o1!r} vs {o2!r}", {"point": pts[0]})
                # construction through every spelling
                spell = {k: [k] + [s_ for s_, g in STORE.items() if g == k] for k in names}
                base = vector.obj(**{k: pts[0][k] for k in names})
                for k in names:
                    for sp in spell[k][1:]:
                        kw = {kk: pts[0][kk] for kk in names if kk != k}
                        kw[sp] = pts[0][k]
                        n += 1
                        for ctor, mkv in (("obj", lambda: vector.obj(**kw)), ("array", lambda: vector.array({a: numpy.array([b]) for a, b in kw.items()})[0]),
                                          ("zip", lambda: vector.zip({a: numpy.array([b]) for a, b in kw.items()})[0]),
                                          ("Array", lambda: vector.Array(ak.Array([kw]))[0])):
                            try:
                                v = mkv()
                            except Exception as e:
                                ctx.fail(f"{ctor}:{dim}D:{sysn}:spelling[{sp}]", f"raises {type(e).__name__}: {e}"[:200], {"kw": kw})
                                continue
                            vals = [float(getattr(v, kk)) for kk in names]
                            if vals != [pts[0][kk] for kk in names] or not any(hasattr(v, a) for a in ("px", "pt")) and False:
                                ctx.fail(f"{ctor}:{dim}D:{sysn}:spelling[{sp}]", f"stored {vals} instead of {[pts[0][kk] for kk in names]}", {"kw": kw})
                            ism = "Momentum" in type(v).__name__
                            if not ism:
                                ctx.fail(f"{ctor}:{dim}D:{sysn}:spelling[{sp}]", f"not a momentum vector: {type(v).__name__}", {"kw": kw})
                # sympy
                syms = {k: sympy.Symbol(k, real=True) for k in names}
                try:
                    from vector.backends.sympy import MomentumSympy2D, MomentumSympy3D, MomentumSympy4D
                    cls = {2: MomentumSympy2D, 3: MomentumSympy3D, 4: MomentumSympy4D}[dim]
                    sv = cls(**{H.MOM.get(k, k): syms[k] for k in names})
                    for syn, geo in SYN.items():
                        if MINDIM[geo] > dim:
                            continue
                        n += 1
                        if getattr(sv, syn) != getattr(sv, geo):
                            ctx.fail(f"sympy:{dim}D:{sysn}:{syn}", f"{getattr(sv, syn)} != {getattr(sv, geo)}", {})
                except Exception as e:
                    ctx.fail(f"sympy:{dim}D:{sysn}", f"harness could not build/evaluate: {type(e).__name__}: {e}"[:300], {})
                if len(samples) < 3 and dim == 4:
                    samples.append({"system": sysn, "object": repr(objs[0]), "mass": objs[0].mass, "tau": objs[0].tau})
    ctx.coverage["evaluations"] = n
    ctx.coverage["distinct_nontrivial"] = len(distinct)
    ctx.coverage["samples"] = samples
    ctx.coverage["correspondences"] = {b + " synonyms": {"ok": not any(f["site"].startswith(b) for f in ctx.failures)}
                                       for b in ("object", "numpy", "awkward", "sympy", "obj", "array", "zip", "Array")}


_run_without_compiled = run


def run(ctx):
    _run_without_compiled(ctx)
    from tools import arrayharness as _AH
    import numpy as _np
    with _np.errstate(all="ignore"):
        ctx.coverage["evaluations"] = ctx.coverage.get("evaluations", 0) + _AH.spelling_lattice(ctx, ctx.seed)
    ctx.coverage["correspondences"]["every spelling of every coordinate through every array constructor (incl. Awkward arrays that keep the spelled field names): getters, synonyms and conversions == vector.obj"] = {"ok": not any(f["site"].startswith("spelling:") for f in ctx.failures)}
    from tools import nbrows
    nbrows.check(ctx, ['px', 'py', 'pt', 'pt2', 'pz', 'pseudorapidity', 'p', 'p2', 'E', 'energy', 'E2', 'energy2', 'M', 'mass', 'M2', 'mass2', 'Et', 'transverse_energy', 'Et2', 'transverse_energy2', 'Mt', 'transverse_mass', 'Mt2', 'transverse_mass2'], 'the momentum synonyms')


def replay(rec):
    return {"site": (rec.get("failure") or {}).get("site"), "what": (rec.get("failure") or {}).get("what"), "still_fails": None}
