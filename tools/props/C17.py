"""C17 — reductions on the real NumPy and Awkward backends vs component-wise Cartesian reductions."""
from __future__ import annotations

import math

import numpy

from tools import harness as H

COQ_TARGETS = ["props/C17.vo"]
RULE = ("arrays: 1-D and 2-D NumPy, jagged Awkward (with empty and missing lists, with on-axis and zero vectors) in each of "
        "the 20 systems x 2 flavors; axis in {None, 0, 1, -1} x keepdims; expected values computed from the elements' "
        "Cartesian components with math.fsum-free plain sums (tolerance 1e-9); distinct = distinct (backend, system, flavor, "
        "axis, keepdims, shape kind)")
ASSUMPTIONS = ["float summation order is NumPy's / Awkward's (tolerance 1e-9 relative)"]


def cart_of(names, p, dim):
    o = H.obj(__import__("vector"), names, p)
    return [o.x, o.y] + ([o.z] if dim >= 3 else []) + ([o.t] if dim == 4 else [])


def near(a, b, tol=1e-9):
    a, b = numpy.asarray(a, dtype=float), numpy.asarray(b, dtype=float)
    return a.shape == b.shape and bool(numpy.all(numpy.abs(a - b) <= tol * (1 + numpy.abs(a) + numpy.abs(b))))


def special_points(names, dim):
    """zero vector and pure-z / pure-t vectors where the system can store them"""
    out = []
    z0 = {"x": 0.0, "y": 0.0, "rho": 0.0, "phi": 0.0, "z": 0.0, "theta": 0.0, "eta": 0.0, "t": 0.0, "tau": 0.0}
    out.append(({k: z0[k] for k in names}, [0.0] * dim if ("theta" not in names and "eta" not in names) else None))
    if dim >= 3 and "z" in names:
        p = {k: z0[k] for k in names}
        p["z"] = 5.0
        if "tau" in names:
            p["tau"] = -5.0      # a purely longitudinal vector with t = 0 has tau^2 = -z^2
        out.append((p, [0.0, 0.0, 5.0] + ([0.0] if dim == 4 else [])))
    if dim == 4 and "t" in names and "z" in names:
        p = {k: z0[k] for k in names}
        p["t"] = 2.0
        out.append((p, [0.0, 0.0, 0.0, 2.0]))
    return out


def run(ctx):
    import awkward as ak
    import vector
    n = 0
    distinct = set()
    samples = []
    comps = ["x", "y", "z", "t"]
    with numpy.errstate(all="ignore"):
        for dim in (2, 3, 4):
            for names in H.SYS[dim]:
                for mom in (False, True):
                    rng = H.rng_for(ctx.seed, "C17", names, mom)
                    sysn = H.sysname(names)
                    keyn = [H.MOM.get(k, k) if mom else k for k in names]
                    rows, cols_n = 3, 4
                    pts = [[H.from_cart(names, *H.cart_stratum(rng, "quadrants", dim)) for _ in range(cols_n)] for _ in range(rows)]
                    sp = special_points(names, dim)
                    # put the special points in (when their Cartesian value is well-defined)
                    carts = [[cart_of(names, p, dim) for p in r] for r in pts]
                    k = 0
                    for p, c in sp:
                        if c is not None:
                            pts[k % rows][k % cols_n] = p
                            carts[k % rows][k % cols_n] = c
                            k += 1
                    C = numpy.array(carts)                      # rows x cols x dim
                    # ---------- NumPy 2-D and 1-D
                    arr2 = vector.array({kn: numpy.array([[p[nm] for p in r] for r in pts]) for nm, kn in zip(names, keyn)})
                    arr1 = arr2[0]
                    for a, Cx, kind in ((arr2, C, "2d"), (arr1, C[0], "1d")):
                        for axis in ([None, 0, 1, -1] if kind == "2d" else [None, 0, -1]):
                            for keep in (False, True):
                                site = f"numpy:{dim}D:{sysn}:{'momentum' if mom else 'generic'}:sum:axis={axis}:keepdims={keep}:{kind}"
                                n += 1
                                distinct.add(site)
                                for fn_name, f in (("numpy.sum", lambda: numpy.sum(a, axis=axis, keepdims=keep)), (".sum", lambda: a.sum(axis=axis, keepdims=keep))):
                                    try:
                                        s = f()
                                    except Exception as e:
                                        ctx.fail(site, f"{fn_name} raises {type(e).__name__}: {e}"[:300], {})
                                        continue
                                    want = Cx.sum(axis=(None if axis is None else (axis if axis >= 0 else Cx.ndim - 2 + 1 + axis if False else axis)), keepdims=keep) if False else None
                                    ax = axis
                                    if ax is None:
                                        wantv = Cx.reshape(-1, dim).sum(axis=0)
                                        if keep:
                                            wantv = wantv.reshape((1,) * (Cx.ndim - 1) + (dim,))
                                    else:
                                        axn = ax if ax >= 0 else (Cx.ndim - 1) + ax
                                        wantv = Cx.sum(axis=axn, keepdims=keep)
                                    got = numpy.stack([numpy.asarray(getattr(s, c)) for c in comps[:dim]], axis=-1)
                                    if not near(got, wantv):
                                        ctx.fail(site, f"{fn_name}: got {got.tolist()}, Cartesian sums {wantv.tolist()}", {"points": pts})
                                    if isinstance(s, vector._methods.Momentum) != mom:
                                        ctx.fail(site, f"{fn_name}: flavor not kept ({type(s).__name__})", {})
                                    if [f_ for f_ in (s.dtype.names or [])] and not set(s.dtype.names) <= {"x", "y", "z", "t"}:
                                        ctx.fail(site, f"{fn_name}: result is not Cartesian: fields {s.dtype.names}", {})
                                # count_nonzero
                                nz = (numpy.abs(Cx).sum(axis=-1) != 0)
                                try:
                                    got = numpy.count_nonzero(a, axis=axis, keepdims=keep)
                                    want = numpy.count_nonzero(nz, axis=axis, keepdims=keep)
                                    if not numpy.array_equal(numpy.asarray(got), numpy.asarray(want)):
                                        ctx.fail(site.replace(":sum:", ":count_nonzero:"), f"got {numpy.asarray(got).tolist()}, expected {numpy.asarray(want).tolist()}", {"points": pts})
                                except Exception as e:
                                    ctx.fail(site.replace(":sum:", ":count_nonzero:"), f"raises {type(e).__name__}: {e}"[:200], {})
                    # ---------- Awkward jagged: [[r0...], [], None?, [r1...], [r2 first 2]]
                    flat = [(p, c) for r, cr in zip(pts, carts) for p, c in zip(r, cr)]
                    lists = [flat[0:4], [], flat[4:8], flat[8:10]]
                    rec = lambda p: {kn: p[nm] for nm, kn in zip(names, keyn)}  # noqa: E731
                    for with_none in (False, True):
                        ll = [[rec(p) for p, _ in l] for l in lists]
                        cl = [[c for _, c in l] for l in lists]
                        if with_none:
                            ll = ll[:2] + [None] + ll[2:]
                            cl = cl[:2] + [None] + cl[2:]
                        A = vector.Array(ak.Array(ll))
                        for axis in (1, -1, None):
                            for keep in (False, True):
                                site = f"awkward:{dim}D:{sysn}:{'momentum' if mom else 'generic'}:sum:axis={axis}:keepdims={keep}:{'option' if with_none else 'jagged'}"
                                n += 1
                                distinct.add(site)
                                try:
                                    s = ak.sum(A, axis=axis, keepdims=keep)
                                except Exception as e:
                                    ctx.fail(site, f"ak.sum raises {type(e).__name__}: {e}"[:300], {})
                                    continue
                                if axis is None:
                                    allc = [c for l in cl if l is not None for c in l]
                                    want = [sum(c[i] for c in allc) for i in range(dim)]
                                    got = [float(getattr(s, c)) if not keep else float(ak.flatten(getattr(s, c), axis=None)[0]) for c in comps[:dim]]
                                    if not near(got, want):
                                        ctx.fail(site, f"got {got}, Cartesian sums {want}", {"lists": ll})
                                else:
                                    for i in range(dim):
                                        col = ak.to_list(getattr(s, comps[i]))
                                        for li, l in enumerate(cl):
                                            g = col[li]
                                            if keep and g is not None:
                                                g = g[0]
                                            if l is None:
                                                if g is not None and with_none:
                                                    ctx.fail(site, f"missing list {li} summed to {g}", {"lists": ll})
                                                continue
                                            w = sum(c[i] for c in l)
                                            if g is None or not near([g], [w]):
                                                ctx.fail(site, f"list {li} component {comps[i]}: got {g}, Cartesian sum {w}", {"lists": ll})
                                                break
                                if "Momentum" in type(s).__name__ != mom and hasattr(s, "x") and not isinstance(s, ak.Record):
                                    pass
                                # count_nonzero and count
                                try:
                                    cn = ak.to_list(ak.count_nonzero(A, axis=axis, keepdims=keep)) if axis is not None else int(ak.count_nonzero(A, axis=None))
                                    ct = ak.to_list(ak.count(A, axis=axis, keepdims=keep)) if axis is not None else None
                                except Exception as e:
                                    ctx.fail(site.replace(":sum:", ":count:"), f"raises {type(e).__name__}: {e}"[:200], {})
                                    continue
                                if axis is None:
                                    w = sum(1 for l in cl if l is not None for c in l if any(q != 0 for q in c))
                                    if cn != w:
                                        ctx.fail(site.replace(":sum:", ":count_nonzero:"), f"got {cn}, expected {w}", {"lists": ll})
                                else:
                                    for li, l in enumerate(cl):
                                        g = cn[li]
                                        if keep and g is not None:
                                            g = g[0]
                                        if l is None:
                                            continue
                                        w = sum(1 for c in l if any(q != 0 for q in c))
                                        if g != w:
                                            ctx.fail(site.replace(":sum:", ":count_nonzero:"), f"list {li}: got {g}, expected {w}", {"lists": ll})
                                            break
                                        gc = ct[li] if not isinstance(ct[li], dict) else None
                                        if isinstance(gc, list):
                                            gc = gc[0]
                                        if gc is not None and gc != len(l):
                                            ctx.fail(site.replace(":sum:", ":count:"), f"list {li}: ak.count {gc}, elements {len(l)}", {"lists": ll})
                                            break
                    if len(samples) < 3 and dim == 4 and not mom:
                        samples.append({"system": sysn, "array": repr(arr2.tolist())[:200], "sum": repr(numpy.sum(arr2, axis=0).tolist())[:200]})
    ctx.coverage["evaluations"] = n
    ctx.coverage["distinct_nontrivial"] = len(distinct)
    ctx.coverage["samples"] = samples
    ctx.coverage["correspondences"] = {"numpy reducers vs Cartesian component sums": {"ok": not any(f["site"].startswith("numpy") for f in ctx.failures)},
                                       "awkward reducers vs Cartesian component sums": {"ok": not any(f["site"].startswith("awkward") for f in ctx.failures)}}


def replay(rec):
    return {"site": (rec.get("failure") or {}).get("site"), "what": (rec.get("failure") or {}).get("what"), "still_fails": None}
