"""C03 — object, NumPy and Awkward backends compute the same values (real code, element by element)."""
from __future__ import annotations

from tools import arrayharness as AH

COQ_TARGETS = ["props/C03.vo"]
RULE = ("every getter / unary method (incl. scalar arguments given as arrays) on NumPy 1-D and 2-D arrays, flat and jagged Awkward "
        "arrays, and every binary operation on the backend pairings {object, NumPy, Awkward flat, Awkward jagged, Awkward record}^2, "
        "per coordinate system and flavor; each result element compared with the object backend at 1e-11 relative; distinct = "
        "distinct (container(s), operation, system, flavor)")
ASSUMPTIONS = ["NumPy ufuncs and ak.transform act elementwise (library semantics)", "well-conditioned finite operands; 1e-11 relative tolerance (array and scalar libm paths differ in the last bits)"]


def run(ctx):
    deep = ctx.tier == "thorough" or bool(ctx.broken)
    st = AH.run_agreement(ctx, ctx.seed, deep, values=True, snapshots=False, prop="C03")
    ctx.coverage["evaluations"] = st["evaluations"]
    ctx.coverage["distinct_nontrivial"] = st["distinct"]
    ctx.coverage["samples"] = st["samples"]
    ctx.coverage["correspondences"] = {"NumPy / Awkward / mixed pairings == object backend, element by element": {"ok": not ctx.failures}}


def replay(rec):
    return {"site": (rec.get("failure") or {}).get("site"), "what": (rec.get("failure") or {}).get("what"), "still_fails": None}
