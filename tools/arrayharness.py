"""Shared harness for C03 / C16 / C18: every catalogued public operation on NumPy arrays and Awkward layouts
(flat, jagged, nested, option-typed, with extra fields, records) is compared element by element with the object
backend; structure, extra fields and operand snapshots are checked."""
from __future__ import annotations

import copy
import math

import numpy

from tools import harness as H

GETTERS = {2: ["x", "y", "rho", "phi", "rho2"],
           3: ["x", "y", "rho", "phi", "z", "theta", "eta", "costheta", "cottheta", "mag", "mag2"],
           4: ["x", "y", "rho", "phi", "z", "theta", "eta", "mag", "t", "t2", "tau", "tau2", "beta", "gamma", "rapidity"]}
K = 0.7
UNARY = {  # name -> (min dim, callable)
    "unit": (2, lambda v: v.unit()), "scale": (2, lambda v: v.scale(-1.5)), "neg": (2, lambda v: -v), "mul": (2, lambda v: v * 2.5),
    "div": (2, lambda v: v / 2.0), "rotateZ": (2, lambda v: v.rotateZ(K)), "scale2D": (2, lambda v: v.scale2D(1.5)),
    "to_xy": (2, lambda v: v.to_xy()), "to_rhophi": (2, lambda v: v.to_rhophi()), "to_Vector3D": (2, lambda v: v.to_Vector3D() if hasattr(v, "longitudinal") else v.to_Vector3D(eta=0.5)),
    "rotateX": (3, lambda v: v.rotateX(K)), "rotateY": (3, lambda v: v.rotateY(K)), "rotate_euler": (3, lambda v: v.rotate_euler(0.1, 0.2, 0.3, "yzy")),
    "rotate_quaternion": (3, lambda v: v.rotate_quaternion(0.5, 0.5, 0.5, 0.5)), "to_rhophitheta": (3, lambda v: v.to_rhophitheta()),
    "to_xyeta": (3, lambda v: v.to_xyeta()), "to_Vector2D": (3, lambda v: v.to_Vector2D()), "scale3D": (3, lambda v: v.scale3D(1.5)),
    "boostX": (4, lambda v: v.boostX(beta=0.3)), "boostZ_gamma": (4, lambda v: v.boostZ(gamma=-1.5)), "to_beta3": (4, lambda v: v.to_beta3()),
    "to_xyzt": (2, lambda v: v.to_xyzt()),
    "to_Vector4D": (2, lambda v: v.to_Vector4D() if hasattr(v, "temporal") else (v.to_Vector4D(mass=1.5) if hasattr(v, "longitudinal") else v.to_Vector4D(z=1.0, mass=1.5))), "to_rhophietatau": (4, lambda v: v.to_rhophietatau()), "abs": (2, lambda v: abs(v)), "pow2": (2, lambda v: v ** 2),
    "is_timelike": (4, lambda v: v.is_timelike()),
}
BINARY = {  # name -> (dim of a, dim of b or None for same, callable)
    "add": (None, None, lambda a, b: a.add(b)), "subtract": (None, None, lambda a, b: a.subtract(b)), "dot": (None, None, lambda a, b: a.dot(b)),
    "deltaphi": (None, None, lambda a, b: a.deltaphi(b)), "equal": (None, None, lambda a, b: a.equal(b)), "isclose": (None, None, lambda a, b: a.isclose(b)),
    "is_parallel": (None, None, lambda a, b: a.is_parallel(b)), "cross": (3, 3, lambda a, b: a.cross(b)), "deltaR": (3, 3, lambda a, b: a.deltaR(b)),
    "deltaangle": (3, 3, lambda a, b: a.deltaangle(b)), "rotate_axis": (3, 3, lambda a, b: a.rotate_axis(b, K)),
    "boost_p4": (4, 4, lambda a, b: a.boost_p4(b)), "boost_beta3": (4, 3, lambda a, b: a.boost_beta3(b)), "op_add": (None, None, lambda a, b: a + b),
}
COORD = ("x", "y", "rho", "phi", "z", "theta", "eta", "t", "tau", "px", "py", "pt", "pz", "E", "e", "energy", "M", "m", "mass")
GEN = {"px": "x", "py": "y", "pt": "rho", "pz": "z", "E": "t", "e": "t", "energy": "t", "M": "tau", "m": "tau", "mass": "tau"}


def point(rng, names, dim, role="vec"):
    x, y, z, t = H.cart_stratum(rng, "quadrants", dim)
    if role == "beta3":
        s = 0.5 / math.sqrt(x * x + y * y + z * z)
        x, y, z = x * s, y * s, z * s
    return H.from_cart(names, x, y, z, t)


def rec(names, p, mom, extras=None):
    d = {(H.MOM.get(k, k) if mom else k): p[k] for k in names}
    if extras:
        d.update(extras)
    return d


def vec_fields(o):
    """generic coordinate names of a vector result (object / record) in storage order"""
    from vector._methods import _aztype, _coordinate_class_to_names, _ltype, _ttype
    n = list(_coordinate_class_to_names[_aztype(o)])
    if hasattr(o, "longitudinal"):
        n += _coordinate_class_to_names[_ltype(o)]
    if hasattr(o, "temporal"):
        n += _coordinate_class_to_names[_ttype(o)]
    return n


def leaf_value(r):
    """object-backend result -> comparable leaf: dict of floats for vectors, float/bool for scalars"""
    import vector
    if isinstance(r, vector._methods.Vector):
        return {f: float(getattr(r, f)) for f in vec_fields(r)}
    if isinstance(r, (bool, numpy.bool_)):
        return bool(r)
    return float(r)


def close(a, b, tol=1e-11):
    if isinstance(a, dict) or isinstance(b, dict):
        return isinstance(a, dict) and isinstance(b, dict) and set(a) == set(b) and all(close(a[k], b[k], tol) for k in a)
    if isinstance(a, bool) or isinstance(b, bool):
        return bool(a) == bool(b)
    if a is None or b is None:
        return a is None and b is None
    if math.isnan(a) or math.isnan(b):
        return math.isnan(a) and math.isnan(b)
    if math.isinf(a) or math.isinf(b):
        return a == b
    return abs(a - b) <= tol * max(1.0, abs(a), abs(b))


# ---------------------------------------------------------------- layouts (nested python lists; None = missing)
def layouts(rng, mk, deep):
    """yield (kind, nested structure of leaves) where a leaf is created by mk()"""
    yield "flat", [mk() for _ in range(3)]
    yield "jagged", [[mk(), mk()], [], [mk()]]
    yield "option_list", [[mk()], None, [mk(), mk()]]
    yield "option_record", [[mk(), None], [None], [mk()]]
    yield "depth3", [[[mk()], [mk(), mk()]], [], [[], [mk()]]]
    if deep:
        yield "depth4_option", [[[[mk()], None], []], None, [[[mk(), None, mk()]]]]
        yield "empty", []


def lmap(f, t):
    if t is None:
        return None
    if isinstance(t, list):
        return [lmap(f, x) for x in t]
    return f(t)


def lzip(f, s, t):
    if s is None or t is None:
        return None
    if isinstance(s, list) and isinstance(t, list):
        return [lzip(f, x, y) for x, y in zip(s, t)]
    if isinstance(s, list):
        return [lzip(f, x, t) for x in s]
    if isinstance(t, list):
        return [lzip(f, s, y) for y in t]
    return f(s, t)


def compare_nested(got, want, path=()):
    """first difference between two nested structures of leaves, or None"""
    if isinstance(want, list) or isinstance(got, list):
        if not (isinstance(want, list) and isinstance(got, list)) or len(got) != len(want):
            return path, f"structure differs: got {str(got)[:80]}, expected {str(want)[:80]}"
        for i, (g, w) in enumerate(zip(got, want)):
            d = compare_nested(g, w, path + (i,))
            if d:
                return d
        return None
    if not close(got, want):
        return path, f"got {got}, expected {want}"
    return None


def ak_to_leaves(a, want_vector):
    """awkward result -> nested python structure with generic coordinate names (extras kept under their names)"""
    import awkward as ak
    lst = ak.to_list(a)

    def fix(x):
        if isinstance(x, dict):
            return {GEN.get(k, k): (float(v) if isinstance(v, (int, float)) and not isinstance(v, bool) else v) for k, v in x.items()}
        if isinstance(x, list):
            return [fix(y) for y in x]
        return x
    return fix(lst)


def snapshot(v):
    """bit-level snapshot of an operand"""
    import awkward as ak
    import vector
    if isinstance(v, vector.backends.object.VectorObject):
        return ("object", type(v).__name__, tuple(type(c).__name__ + repr(tuple(c)) for c in (getattr(v, s) for s in v.__slots__)))
    if isinstance(v, numpy.ndarray):
        return ("numpy", type(v).__name__, str(v.dtype), v.shape, v.tobytes())
    if isinstance(v, (ak.Array, ak.Record)):
        return ("awkward", type(v).__name__, str(ak.type(v)), repr(ak.to_list(v)), tuple(sorted(map(str, (v.behavior or {}).keys())))[:3], str(v.layout.form) if hasattr(v.layout, "form") else "")
    return ("scalar", repr(v))
