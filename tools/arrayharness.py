"""Shared harness for C03 / C16 / C18: every catalogued public operation on NumPy arrays and Awkward layouts
(flat, jagged, nested, option-typed, with extra fields, records) is compared element by element with the object
backend; structure, extra fields and operand snapshots are checked."""
from __future__ import annotations

import copy
import math

import numpy

from tools import harness as H

GETTERS = {2: ["x", "y", "rho", "phi", "rho2"],
           3: ["x", "y", "rho", "phi", "z", "theta", "eta", "costheta", "cottheta", "mag", "mag2"],
           4: ["x", "y", "rho", "phi", "z", "theta", "eta", "mag", "t", "t2", "tau", "tau2", "beta", "gamma", "rapidity"]}
K = 0.7
UNARY = {  # name -> (min dim, callable)
    "unit": (2, lambda v: v.unit()), "scale": (2, lambda v: v.scale(-1.5)), "neg": (2, lambda v: -v), "mul": (2, lambda v: v * 2.5),
    "div": (2, lambda v: v / 2.0), "rotateZ": (2, lambda v: v.rotateZ(K)), "scale2D": (2, lambda v: v.scale2D(1.5)),
    "to_xy": (2, lambda v: v.to_xy()), "to_rhophi": (2, lambda v: v.to_rhophi()), "to_Vector3D": (2, lambda v: v.to_Vector3D() if hasattr(v, "longitudinal") else v.to_Vector3D(eta=0.5)),
    "rotateX": (3, lambda v: v.rotateX(K)), "rotateY": (3, lambda v: v.rotateY(K)), "rotate_euler": (3, lambda v: v.rotate_euler(0.1, 0.2, 0.3, "yzy")),
    "rotate_quaternion": (3, lambda v: v.rotate_quaternion(0.5, 0.5, 0.5, 0.5)), "to_rhophitheta": (3, lambda v: v.to_rhophitheta()),
    "to_xyeta": (3, lambda v: v.to_xyeta()), "to_Vector2D": (3, lambda v: v.to_Vector2D()), "scale3D": (3, lambda v: v.scale3D(1.5)),
    "boostX": (4, lambda v: v.boostX(beta=0.3)), "boostZ_gamma": (4, lambda v: v.boostZ(gamma=-1.5)), "to_beta3": (4, lambda v: v.to_beta3()),
    "to_xyzt": (2, lambda v: v.to_xyzt()),
    "to_Vector4D": (2, lambda v: v.to_Vector4D() if hasattr(v, "temporal") else (v.to_Vector4D(mass=1.5) if hasattr(v, "longitudinal") else v.to_Vector4D(z=1.0, mass=1.5))), "to_rhophietatau": (4, lambda v: v.to_rhophietatau()), "abs": (2, lambda v: abs(v)), "pow2": (2, lambda v: v ** 2),
    "is_timelike": (4, lambda v: v.is_timelike()),
}
BINARY = {  # name -> (dim of a, dim of b or None for same, callable)
    "add": (None, None, lambda a, b: a.add(b)), "subtract": (None, None, lambda a, b: a.subtract(b)), "dot": (None, None, lambda a, b: a.dot(b)),
    "deltaphi": (None, None, lambda a, b: a.deltaphi(b)), "equal": (None, None, lambda a, b: a.equal(b)), "isclose": (None, None, lambda a, b: a.isclose(b)),
    "is_parallel": (None, None, lambda a, b: a.is_parallel(b)), "cross": (3, 3, lambda a, b: a.cross(b)), "deltaR": (3, 3, lambda a, b: a.deltaR(b)),
    "deltaangle": (3, 3, lambda a, b: a.deltaangle(b)), "rotate_axis": (3, 3, lambda a, b: a.rotate_axis(b, K)),
    "boost_p4": (4, 4, lambda a, b: a.boost_p4(b)), "boost_beta3": (4, 3, lambda a, b: a.boost_beta3(b)), "op_add": (None, None, lambda a, b: a + b),
}
COORD = ("x", "y", "rho", "phi", "z", "theta", "eta", "t", "tau", "px", "py", "pt", "pz", "E", "e", "energy", "M", "m", "mass")
GEN = {"px": "x", "py": "y", "pt": "rho", "pz": "z", "E": "t", "e": "t", "energy": "t", "M": "tau", "m": "tau", "mass": "tau"}


def point(rng, names, dim, role="vec"):
    x, y, z, t = H.cart_stratum(rng, "quadrants", dim)
    if role == "beta3":
        s = 0.5 / math.sqrt(x * x + y * y + z * z)
        x, y, z = x * s, y * s, z * s
    return H.from_cart(names, x, y, z, t)


SPELLINGS = {"x": ("px",), "y": ("py",), "rho": ("pt",), "z": ("pz",), "t": ("E", "e", "energy"), "tau": ("mass", "M", "m")}
_spell = [0]


def momentum_names(names):
    """momentum spellings of the coordinate names; the spelling of t (E / e / energy) and tau (mass / M / m) rotates with
    next_spelling() (called once per array built, never inside one) so that every documented spelling reaches every constructor"""
    return [SPELLINGS[k][_spell[0] % len(SPELLINGS[k])] if k in SPELLINGS else k for k in names]


def next_spelling():
    _spell[0] += 1


def rec(names, p, mom, extras=None):
    d = dict(zip(momentum_names(names) if mom else names, [p[k] for k in names]))
    if extras:
        d.update(extras)
    return d


def vec_fields(o):
    """generic coordinate names of a vector result (object / record) in storage order"""
    from vector._methods import _aztype, _coordinate_class_to_names, _ltype, _ttype
    n = list(_coordinate_class_to_names[_aztype(o)])
    if hasattr(o, "longitudinal"):
        n += _coordinate_class_to_names[_ltype(o)]
    if hasattr(o, "temporal"):
        n += _coordinate_class_to_names[_ttype(o)]
    return n


def leaf_value(r):
    """object-backend result -> comparable leaf: dict of floats for vectors, float/bool for scalars"""
    import vector
    if isinstance(r, vector._methods.Vector):
        return {f: float(getattr(r, f)) for f in vec_fields(r)}
    if isinstance(r, (bool, numpy.bool_)):
        return bool(r)
    return float(r)


def close(a, b, tol=1e-11):
    if isinstance(a, dict) or isinstance(b, dict):
        return isinstance(a, dict) and isinstance(b, dict) and set(a) == set(b) and all(close(a[k], b[k], tol) for k in a)
    if isinstance(a, bool) or isinstance(b, bool):
        return bool(a) == bool(b)
    if a is None or b is None:
        return a is None and b is None
    if math.isnan(a) or math.isnan(b):
        return math.isnan(a) and math.isnan(b)
    if math.isinf(a) or math.isinf(b):
        return a == b
    return abs(a - b) <= tol * max(1.0, abs(a), abs(b))


# ---------------------------------------------------------------- layouts (nested python lists; None = missing)
def layouts(rng, mk, deep):
    """yield (kind, nested structure of leaves) where a leaf is created by mk()"""
    yield "flat", [mk() for _ in range(3)]
    yield "jagged", [[mk(), mk()], [], [mk()]]
    yield "option_list", [[mk()], None, [mk(), mk()]]
    yield "option_record", [[mk(), None], [None], [mk()]]
    yield "depth3", [[[mk()], [mk(), mk()]], [], [[], [mk()]]]
    if deep:
        yield "depth4_option", [[[[mk()], None], []], None, [[[mk(), None, mk()]]]]
        yield "empty", []


def lmap(f, t):
    if t is None:
        return None
    if isinstance(t, list):
        return [lmap(f, x) for x in t]
    return f(t)


def lzip(f, s, t):
    if s is None or t is None:
        return None
    if isinstance(s, list) and isinstance(t, list):
        return [lzip(f, x, y) for x, y in zip(s, t)]
    if isinstance(s, list):
        return [lzip(f, x, t) for x in s]
    if isinstance(t, list):
        return [lzip(f, s, y) for y in t]
    return f(s, t)


def compare_nested(got, want, path=()):
    """first difference between two nested structures of leaves, or None"""
    if isinstance(want, list) or isinstance(got, list):
        if not (isinstance(want, list) and isinstance(got, list)) or len(got) != len(want):
            return path, f"structure differs: got {str(got)[:80]}, expected {str(want)[:80]}"
        for i, (g, w) in enumerate(zip(got, want)):
            d = compare_nested(g, w, path + (i,))
            if d:
                return d
        return None
    if not close(got, want):
        return path, f"got {got}, expected {want}"
    return None


def ak_to_leaves(a, want_vector):
    """awkward result -> nested python structure with generic coordinate names (extras kept under their names)"""
    import awkward as ak
    lst = ak.to_list(a)

    def fix(x):
        if isinstance(x, dict):
            return {GEN.get(k, k): (float(v) if isinstance(v, (int, float)) and not isinstance(v, bool) else v) for k, v in x.items()}
        if isinstance(x, list):
            return [fix(y) for y in x]
        return x
    return fix(lst)


def snapshot(v):
    """bit-level snapshot of an operand"""
    import awkward as ak
    import vector
    if isinstance(v, vector.backends.object.VectorObject):
        return ("object", type(v).__name__, tuple(type(c).__name__ + repr(tuple(c)) for c in (getattr(v, s) for s in v.__slots__)))
    if isinstance(v, numpy.ndarray):
        return ("numpy", type(v).__name__, str(v.dtype), v.shape, v.tobytes())
    if isinstance(v, (ak.Array, ak.Record)):
        return ("awkward", type(v).__name__, str(ak.type(v)), repr(ak.to_list(v)), tuple(sorted(map(str, (v.behavior or {}).keys())))[:3], str(v.layout.form) if hasattr(v.layout, "form") else "")
    return ("scalar", repr(v))


# ---------------------------------------------------------------- C03 / C16 runner
def spelling_lattice(ctx, seed):
    """every documented spelling of every coordinate (x|px, y|py, rho|pt, z|pz, t|E|e|energy, tau|M|m|mass) through every
    array constructor: the values read back equal those of vector.obj built with the same keywords"""
    import awkward as ak
    import vector
    AZN = [("x", "y"), ("x", "py"), ("px", "y"), ("px", "py"), ("rho", "phi"), ("pt", "phi")]
    LGN = [(), ("z",), ("pz",), ("theta",), ("eta",)]
    TMN = [(), ("t",), ("E",), ("e",), ("energy",), ("tau",), ("M",), ("m",), ("mass",)]
    rng = H.rng_for(seed, "spellings")
    k = 0
    for a in AZN:
        for l_ in LGN:
            for t_ in TMN:
                if t_ and not l_:
                    continue
                names = a + l_ + t_
                vals = [[round(rng.uniform(0.3, 2.5), 3) + (10.0 if nm in ("t", "E", "e", "energy") else 0.0) for nm in names] for _ in range(2)]
                try:
                    o = [vector.obj(**dict(zip(names, v))) for v in vals]
                except Exception as e:
                    ctx.fail(f"spelling:obj:{','.join(names)}", f"vector.obj raises {type(e).__name__}: {e}"[:200], {"names": list(names)})
                    continue
                gets = ["x", "y"] + (["z"] if l_ else []) + (["t", "tau"] if t_ else [])
                mom_flavor = any(nm in ("px", "py", "pt", "pz", "E", "e", "energy", "M", "m", "mass") for nm in names)
                if mom_flavor:
                    gets += ["px", "pt"] + (["pz"] if l_ else []) + (["E", "mass", "energy", "M"] if t_ else [])
                # conversions read every stored coordinate again (C04): same-system and Cartesian / polar targets
                convs = [("to_xy", "x")] + ([("to_xyz", "z"), ("to_rhophieta", "eta")] if l_ else []) + \
                        ([("to_xyzt", "t"), ("to_rhophietatau", "tau"), ("to_xyztau", "tau"), ("to_rhophithetat", "t")] if t_ else [])
                cols = {nm: numpy.array([v[i] for v in vals]) for i, nm in enumerate(names)}
                builders = {"vector.array": lambda: vector.array(cols), "vector.zip": lambda: vector.zip({nm: ak.Array(c) for nm, c in cols.items()}),
                            "vector.Array": lambda: vector.Array(ak.Array([dict(zip(names, v)) for v in vals]))}
                # an Awkward record array that KEEPS the spelled field names (documented use: with_name + registered behaviors)
                dimn = 2 + bool(l_) + bool(t_)
                builders["ak.Array(with_name)"] = lambda: ak.Array([dict(zip(names, v)) for v in vals],
                                                                   with_name=("Momentum" if mom_flavor else "Vector") + f"{dimn}D",
                                                                   behavior=vector.backends.awkward.behavior)
                for bn, b in builders.items():
                    k += 1
                    try:
                        arr = b()
                        for g in gets + convs:
                            if isinstance(g, tuple):
                                gv = getattr(getattr(arr, g[0])(), g[1])
                                want = [float(getattr(getattr(x, g[0])(), g[1])) for x in o]
                                g = f"{g[0]}().{g[1]}"
                            else:
                                gv = getattr(arr, g)
                                want = [float(getattr(x, g)) for x in o]
                            got = [float(q) for q in (numpy.asarray(gv) if bn == "vector.array" else ak.to_list(gv))]
                            if not all(close(p_, q_) for p_, q_ in zip(got, want)):
                                ctx.fail(f"spelling:{bn}:{','.join(names)}:{g}", f"{bn} with fields {names}: .{g} = {got}, vector.obj with the same keywords gives {want}", {"names": list(names), "values": vals})
                                break
                    except Exception as e:
                        ctx.fail(f"spelling:{bn}:{','.join(names)}", f"raises {type(e).__name__}: {e}"[:200], {"names": list(names), "values": vals})
    return k


def run_agreement(ctx, seed, deep, values=True, snapshots=True, prop="C03"):
    """every catalogued operation on NumPy arrays (1-D, 2-D), Awkward arrays (flat, jagged) and mixed pairings:
    values equal the object backend element by element (values=True); no operand is modified (snapshots=True)"""
    import awkward as ak
    import vector
    n = 0
    distinct = set()
    samples = []
    with numpy.errstate(all="ignore"):
        if values:
            n += spelling_lattice(ctx, seed)
        for dim in (2, 3, 4):
            visited = -1
            for si, names in enumerate(H.SYS[dim]):
                if not deep and dim == 4 and (si + si // 2 + seed) % 2 != 0:
                    continue              # quick: half of the 4D systems, alternating t- and tau-stored ones
                visited += 1
                for mom in (False, True):
                    if not deep and mom and (visited + visited // 2 + seed // 2) % 2:
                        continue          # quick: momentum flavor on half of the visited systems (t- and tau-stored alike)
                    sysn = H.sysname(names)
                    next_spelling()
                    rng = H.rng_for(seed, prop, names, mom)
                    pts = [point(rng, names, dim) for _ in range(4)]
                    objs = [H.obj(vector, names, p, momentum=mom) for p in pts]
                    keyn = momentum_names(names) if mom else list(names)

                    def mk_np(shape=None):
                        a = vector.array({kn: numpy.array([p[nm] for p in pts]) for nm, kn in zip(names, keyn)})
                        return a if shape is None else a.reshape(shape)

                    def mk_ak(jag=False):
                        recs = [rec(names, p, mom) for p in pts]
                        return vector.Array(ak.Array([recs[:1], [], recs[1:]] if jag else recs))
                    containers = {"numpy1d": (lambda: mk_np(), lambda r: [r[i] for i in range(4)]),
                                  "numpy2d": (lambda: mk_np((2, 2)), lambda r: [r[i // 2, i % 2] for i in range(4)]),
                                  "awkward": (lambda: mk_ak(), lambda r: [r[i] for i in range(4)]),
                                  "jagged": (lambda: mk_ak(True), lambda r: list(ak.flatten(r, axis=1)) if r.ndim > 1 else [r[i] for i in range(len(r))])}

                    def leaf_of(x):
                        if isinstance(x, vector._methods.Vector):
                            return {f: float(getattr(x, f)) for f in vec_fields(x)}
                        if isinstance(x, (bool, numpy.bool_)):
                            return bool(x)
                        return float(x)

                    def check(site, op_name, got_elems, want_objs, inp):
                        if not values:
                            return
                        for i, (g, w) in enumerate(zip(got_elems, want_objs)):
                            lw = leaf_value(w)
                            try:
                                lg = leaf_of(g)
                            except Exception as e:
                                ctx.fail(site, f"element {i}: cannot read result ({type(e).__name__}: {e})"[:200], inp)
                                return
                            if not close(lg, lw):
                                ctx.fail(site, f"element {i}: {lg}, object backend {lw}", inp)
                                return

                    for cname, (mk, elems) in containers.items():
                        site0 = f"{cname}:{dim}D:{sysn}:{'momentum' if mom else 'generic'}"
                        # getters
                        for g in GETTERS[dim]:
                            n += 1
                            distinct.add((cname, g, sysn, mom))
                            a = mk()
                            before = snapshot(a)
                            try:
                                r = getattr(a, g)
                            except Exception as e:
                                if values:      # an exception is a disagreement of values (C03), not a modified operand (C16)
                                    ctx.fail(f"{site0}:{g}", f"raises {type(e).__name__}: {e}"[:200], {"points": pts})
                                if snapshots and snapshot(a) != before:
                                    ctx.fail(f"{site0}:{g}:operand_modified", f"reading .{g} raised and changed the operand", {"points": pts})
                                continue
                            if snapshots and snapshot(a) != before:
                                ctx.fail(f"{site0}:{g}:operand_modified", f"reading .{g} changed the operand", {"points": pts})
                            rr = numpy.asarray(r).reshape(-1).tolist() if cname.startswith("numpy") else ak.to_list(ak.flatten(r, axis=None))
                            check(f"{site0}:{g}", g, rr, [getattr(o, g) for o in objs], {"points": pts})
                        # unary methods (+ scalar argument given as an array: broadcast element by element)
                        for nm, (mind, f) in UNARY.items():
                            if mind > dim:
                                continue
                            n += 1
                            distinct.add((cname, nm, sysn, mom))
                            a = mk()
                            before = snapshot(a)
                            try:
                                r = f(a)
                            except Exception as e:
                                if values:
                                    ctx.fail(f"{site0}:{nm}", f"raises {type(e).__name__}: {e}"[:200], {"points": pts})
                                if snapshots and snapshot(a) != before:
                                    ctx.fail(f"{site0}:{nm}:operand_modified", f"{nm} raised and changed its operand", {"points": pts})
                                continue
                            if snapshots and snapshot(a) != before:
                                ctx.fail(f"{site0}:{nm}:operand_modified", f"{nm} changed its operand", {"points": pts})
                            try:
                                got = elems(r) if isinstance(r, (vector._methods.Vector,)) else (numpy.asarray(r).reshape(-1).tolist() if cname.startswith("numpy") else ak.to_list(ak.flatten(r, axis=None)))
                            except Exception as e:
                                ctx.fail(f"{site0}:{nm}", f"cannot index the result: {type(e).__name__}: {e}"[:200], {"points": pts})
                                continue
                            check(f"{site0}:{nm}", nm, got, [f(o) for o in objs], {"points": pts})
                        for nm, g_arr, g_obj in (("scale[array]", lambda v, k: v.scale(k), None), ("rotateZ[array]", lambda v, k: v.rotateZ(k), None)):
                            ks = [0.5, -1.5, 2.0, -0.25]
                            a = mk()
                            karr = numpy.array(ks) if cname == "numpy1d" else (numpy.array(ks).reshape(2, 2) if cname == "numpy2d" else (ak.Array(ks) if cname == "awkward" else ak.Array([ks[:1], [], ks[1:]])))
                            n += 1
                            before, kb = snapshot(a), (karr.tobytes() if isinstance(karr, numpy.ndarray) else repr(ak.to_list(karr)))
                            try:
                                r = g_arr(a, karr)
                            except Exception as e:
                                if values:
                                    ctx.fail(f"{site0}:{nm}", f"raises {type(e).__name__}: {e}"[:200], {"points": pts})
                                if snapshots and (snapshot(a) != before or (karr.tobytes() if isinstance(karr, numpy.ndarray) else repr(ak.to_list(karr))) != kb):
                                    ctx.fail(f"{site0}:{nm}:operand_modified", f"{nm} raised and changed an operand", {"points": pts})
                                continue
                            if snapshots and (snapshot(a) != before or (karr.tobytes() if isinstance(karr, numpy.ndarray) else repr(ak.to_list(karr))) != kb):
                                ctx.fail(f"{site0}:{nm}:operand_modified", f"{nm} changed an operand", {"points": pts})
                            check(f"{site0}:{nm}", nm, elems(r), [g_arr(o, k) for o, k in zip(objs, ks)], {"points": pts})
                    # binary: all pairings of containers (quick: a rotating subset)
                    pair_kinds = ["object", "numpy1d", "awkward", "jagged", "record"]
                    for nm, (da, db, f) in BINARY.items():
                        if (da or dim) != dim:
                            continue
                        bd = db or dim
                        bn = H.SYS[bd][(si + 2) % len(H.SYS[bd])]
                        role = "beta3" if nm == "boost_beta3" else "vec"
                        ptsb = [point(rng, bn, bd, role) for _ in range(4)]
                        objsb = [H.obj(vector, bn, p) for p in ptsb]
                        for k1 in pair_kinds:
                            for k2 in pair_kinds:
                                if k1 in ("object", "record") and k2 in ("object", "record"):
                                    continue
                                if k1 == "jagged" and k2 not in ("jagged", "object", "record") or k2 == "jagged" and k1 not in ("jagged", "object", "record"):
                                    continue
                                if nm == "rotate_axis" and not (k2 in ("object", "record") or k1 == k2):
                                    continue   # the axis is a secondary argument: it does not choose the backend of the result
                                if not deep and (hash((nm, k1, k2, sysn)) + seed) % 4 != 0:
                                    continue
                                n += 1
                                distinct.add((nm, k1, k2, sysn, mom))

                                def build(kind, names_, pts_, mom_):
                                    keys = momentum_names(names_) if mom_ else list(names_)
                                    if kind == "object":
                                        return H.obj(vector, names_, pts_[0], momentum=mom_), [0, 0, 0, 0]
                                    if kind == "record":
                                        return vector.Array(ak.Array([rec(names_, pts_[0], mom_)]))[0], [0, 0, 0, 0]
                                    if kind == "numpy1d":
                                        return vector.array({kn: numpy.array([p[nm_] for p in pts_]) for nm_, kn in zip(names_, keys)}), [0, 1, 2, 3]
                                    recs = [rec(names_, p, mom_) for p in pts_]
                                    return vector.Array(ak.Array([recs[:1], [], recs[1:]] if kind == "jagged" else recs)), [0, 1, 2, 3]
                                a, ia = build(k1, names, pts, mom)
                                b, ib = build(k2, bn, ptsb, False)
                                site = f"{k1}x{k2}:{dim}D:{sysn}|{H.sysname(bn)}:{nm}"
                                sa, sb = snapshot(a), snapshot(b)
                                try:
                                    r = f(a, b)
                                except Exception as e:
                                    if values:
                                        ctx.fail(site, f"raises {type(e).__name__}: {e}"[:200], {"a": pts, "b": ptsb})
                                    if snapshots and (snapshot(a) != sa or snapshot(b) != sb):
                                        ctx.fail(site + ":operand_modified", f"{nm} raised and changed an operand", {"a": pts, "b": ptsb})
                                    continue
                                if snapshots and (snapshot(a) != sa or snapshot(b) != sb):
                                    ctx.fail(site + ":operand_modified", f"{nm} changed an operand", {"a": pts, "b": ptsb})
                                if not values:
                                    continue
                                want = [f(objs[i], objsb[j]) for i, j in zip(ia, ib)]
                                try:
                                    if isinstance(r, ak.Array):
                                        flat = ak.flatten(r, axis=None) if not isinstance(r, vector._methods.Vector) else (ak.flatten(r, axis=1) if r.ndim > 1 else r)
                                        got = [flat[i] for i in range(len(flat))]
                                    elif isinstance(r, numpy.ndarray):
                                        got = [r[i] for i in range(len(r))] if isinstance(r, vector._methods.Vector) else r.reshape(-1).tolist()
                                    else:
                                        got = [r]
                                        want = want[:1]
                                except Exception as e:
                                    ctx.fail(site, f"cannot index the result: {type(e).__name__}: {e}"[:200], {"a": pts, "b": ptsb})
                                    continue
                                if len(got) != len(want):
                                    ctx.fail(site, f"{len(got)} result elements for {len(want)} operand elements", {"a": pts, "b": ptsb})
                                    continue
                                check(site, nm, got, want, {"a": pts, "b": ptsb})
                    if len(samples) < 3 and dim == 3:
                        samples.append({"system": sysn, "numpy": repr(mk_np().tolist())[:160], "deltaR vs object": float(mk_np().deltaR(objs[0])[1]) if dim >= 3 else None})
    return {"evaluations": n, "distinct": len(distinct), "samples": samples}
