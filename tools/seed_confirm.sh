#!/bin/bash
# tools/seed_confirm.sh <id> <dir with patch.diff demo.py>: confirm a seeded change in a scratch worktree
# (applies, demo fails with / passes without, suite still matches the baseline), then store it under seeded/<id>.
set -u
id=$1; src=$2; wt=/tmp/seedv/$id
mkdir -p /tmp/seedv; git -C /repo worktree remove --force $wt 2>/dev/null
git -C /repo worktree add -q --detach $wt HEAD || exit 2
cp /repo/src/vector/_version.py $wt/src/vector/_version.py
cd $wt
PYTHONPATH=$wt/src /venv/bin/python $src/demo.py >/tmp/seedv/$id.demo0.log 2>&1; d0=$?
git apply $src/patch.diff || { echo "PATCH-DOES-NOT-APPLY"; git -C /repo worktree remove --force $wt; exit 3; }
PYTHONPATH=$wt/src /venv/bin/python $src/demo.py >/tmp/seedv/$id.demo1.log 2>&1; d1=$?
/venv/bin/python /verif/tools/baseline.py $wt > /tmp/seedv/$id.baseline.log 2>&1; b=$?
echo "id=$id demo_without=$d0 demo_with=$d1 baseline_rc=$b $(cat /tmp/seedv/$id.baseline.log)"
cd /; git -C /repo worktree remove --force $wt
if [ $d0 = 0 ] && [ $d1 != 0 ] && [ $b = 0 ]; then
  mkdir -p /verif/seeded/$id; cp $src/patch.diff $src/demo.py /verif/seeded/$id/; echo CONFIRMED
else echo NOT-CONFIRMED; fi
