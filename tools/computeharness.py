"""Generic search over the compute layer on the REAL code: every dispatch_map entry of every module is
evaluated on operands converted (by independent float64 geometry) from common Cartesian points and the
result, read in its declared return system, is compared with the all-Cartesian variant."""
from __future__ import annotations

import importlib
import inspect
import math

import numpy

from tools import harness as H

KIND = {"AzimuthalXY": "az", "AzimuthalRhoPhi": "az", "LongitudinalZ": "lg", "LongitudinalTheta": "lg",
        "LongitudinalEta": "lg", "TemporalT": "tm", "TemporalTau": "tm"}
NAMES = {"AzimuthalXY": ("x", "y"), "AzimuthalRhoPhi": ("rho", "phi"), "LongitudinalZ": ("z",),
         "LongitudinalTheta": ("theta",), "LongitudinalEta": ("eta",), "TemporalT": ("t",), "TemporalTau": ("tau",)}
CART = {"az": "AzimuthalXY", "lg": "LongitudinalZ", "tm": "TemporalT"}
EXCLUDED = {"planar.transform2D": None}  # nothing excluded at compute level; scale2D/3D are method-level


def sig_groups(sig):
    """split a signature into vectors: [[az], [az, lg], [az, lg, tm], ...] plus trailing strings"""
    groups, extra = [], []
    for s in sig:
        n = getattr(s, "__name__", None)
        if n in KIND:
            if KIND[n] == "az":
                groups.append([n])
            else:
                groups[-1].append(n)
        else:
            extra.append(s)
    return groups, extra


def coords_of(group, cart):
    names = sum((NAMES[g] for g in group), ())
    c = H.from_cart(names, *cart)
    return [c[n] for n in names]


def to_cart(returns, result):
    """Cartesian reading of a raw result given its declared returns"""
    rets = [getattr(r, "__name__", None) if r is not None else None for r in returns]
    if rets in (["float"], ["bool"]):
        return result
    vals = list(result)
    az = rets[0]
    if az == "AzimuthalXY":
        x, y = vals[0], vals[1]
    else:
        x, y = vals[0] * math.cos(vals[1]), vals[0] * math.sin(vals[1])
    out = [x, y]
    # the library reads z off the STORED rho (which an operation may legitimately leave negative: same geometric vector)
    rho = math.hypot(x, y) if az == "AzimuthalXY" else vals[0]
    if len(rets) >= 2 and rets[1] is not None:
        lg = rets[1]
        c = vals[2]
        z = c if lg == "LongitudinalZ" else (rho / math.tan(c) if lg == "LongitudinalTheta" else rho * math.sinh(c))
        out.append(z)
        if len(rets) >= 3 and rets[2] is not None:
            d = vals[3]
            t = d if rets[2] == "TemporalT" else math.sqrt(max(math.copysign(d * d, d) + x * x + y * y + z * z, 0.0))
            out.append(t)
    return tuple(out)


def scalar_for(rng, pname, modname):
    if pname == "equal_nan":
        return False
    if pname == "beta":
        return rng.uniform(-0.9, 0.9)
    if pname == "gamma":
        return rng.uniform(1.05, 4.0) * rng.choice([1, -1])
    if pname in ("angle", "phi", "theta", "psi"):
        return rng.uniform(-6.5, 6.5)
    if pname == "factor":
        return rng.uniform(0.3, 3.0) * rng.choice([1, -1])
    if pname == "tolerance":
        return rng.choice([1e-5, 1e-2, 0.3])
    if pname == "rtol":
        return rng.choice([1e-5, 1e-2])
    if pname == "atol":
        return rng.choice([1e-8, 1e-3])
    return rng.uniform(-1.5, 1.5)   # matrix / quaternion components


def cart_operand(rng, stratum, n, role):
    """well-conditioned Cartesian operand; 4D operands are forward time-like"""
    u = rng.uniform
    sg = (lambda: rng.choice([-1, 1])) if stratum != "first_octant" else (lambda: 1)
    x, y, z = u(0.3, 3) * sg(), u(0.3, 3) * sg(), u(0.3, 3) * sg()
    if stratum == "large":
        k = 10 ** u(2, 5)
        x, y, z = x * k, y * k, z * k
    mag = math.sqrt(x * x + y * y + z * z)
    t = mag * u(1.1, 3.0)
    if stratum == "spacelike":
        t = mag * u(0.2, 0.8)
    if role == "beta3":
        k = u(0.1, 0.9) / mag
        x, y, z = x * k, y * k, z * k
    return (x, y, z, t)


def close(a, b, rtol, scale):
    if isinstance(a, (bool, numpy.bool_)) or isinstance(b, (bool, numpy.bool_)):
        return bool(a) == bool(b)
    if math.isnan(a) or math.isnan(b):
        return math.isnan(a) and math.isnan(b)
    return abs(a - b) <= rtol * max(scale, abs(a), abs(b))


def run_storage_independence(ctx, seed, reps, strata=("first_octant", "octants", "large", "z_axis", "spacelike", "negative_time", "one_component_off"), modules=None, rtol=2e-7):
    import vector._compute.lorentz
    import vector._compute.planar
    import vector._compute.spatial
    from vector import _methods as M
    stats = {"evaluations": 0, "variants": 0, "modules": 0, "skipped_boolean_boundary": 0}
    distinct = set()
    samples = []
    for pk in ("planar", "spatial", "lorentz"):
        pkg = importlib.import_module(f"vector._compute.{pk}")
        for mname, mod in sorted(inspect.getmembers(pkg, inspect.ismodule)):
            if not hasattr(mod, "dispatch_map") or not mod.__name__.startswith(pkg.__name__ + "."):
                continue
            full = f"{pk}.{mname}"
            if modules and full not in modules:
                continue
            stats["modules"] += 1
            dm = mod.dispatch_map
            for sig, val in dm.items():
                fn, *returns = val
                groups, extra = sig_groups(sig)
                cart_sig = tuple(getattr(M, CART[KIND[n]]) for g in groups for n in g) + tuple(extra)
                if cart_sig not in dm:
                    ctx.fail(f"compute:{full}:no_cartesian_variant", "module has no all-Cartesian entry", {"sig": str(sig)})
                    continue
                cfn, *creturns = dm[cart_sig]
                params = list(inspect.signature(fn).parameters)[1:]
                ncoord = sum({"az": 2, "lg": 1, "tm": 1}[KIND[n]] for g in groups for n in g)
                scal_names = params[:len(params) - ncoord]
                stats["variants"] += 1
                if sig == cart_sig:
                    continue
                rng = H.rng_for(seed, "C01", full, [getattr(s, "__name__", s) for s in sig])
                for stratum in strata:
                    if stratum in ("spacelike", "negative_time") and pk != "lorentz":
                        continue
                    if stratum == "one_component_off" and mname not in ("equal", "not_equal", "isclose"):
                        continue
                    if stratum == "negative_time" and (len(groups[0]) < 3 or groups[0][2] != "TemporalT"):
                        continue          # a negative time is representable with t storage only
                    for rep in range(reps * 4 if stratum == "one_component_off" else reps):
                        carts = []
                        for gi, g in enumerate(groups):
                            role = "beta3" if (mname == "boost_beta3" and gi == 1) else "vec"
                            st_ = "octants" if stratum == "z_axis" else stratum
                            if stratum in ("spacelike", "negative_time") and (gi > 0 or role == "beta3"):
                                st_ = "octants"      # only the first operand is space-like / backward (boosters stay forward time-like)
                            ct = cart_operand(rng, "octants" if st_ in ("negative_time", "one_component_off") else st_, len(g), role)
                            if st_ == "negative_time":
                                ct = (ct[0], ct[1], ct[2], -ct[3])     # backward time-like: t < -|p|
                            if stratum == "z_axis" and len(g) >= 2 and g[1] == "LongitudinalZ" and (rep + gi) % 2 == 0:
                                ct = (0.0, 0.0, ct[2], ct[3])   # exactly on the z axis: representable with z storage
                            carts.append(ct)
                        if mname in ("equal", "not_equal", "isclose") and rep % 2 == 0 and len(groups) == 2 and stratum not in ("z_axis", "negative_time"):
                            carts[1] = carts[0]
                        if mname in ("equal", "not_equal", "isclose") and len(groups) == 2 and stratum == "one_component_off":
                            # the second operand is the first with exactly ONE cylindrical component changed (rho, phi, z or t):
                            # every single-coordinate comparison term of every storage system is decisive in one of the four
                            x0, y0, z0, t0 = carts[0]
                            comps = ("rho", "phi", "z", "t")[:len(groups[0]) + 1]
                            which = comps[rep % len(comps)]
                            if which == "rho":
                                carts[1] = (x0 * 1.5, y0 * 1.5, z0, t0 * 1.5)      # (t scaled too: keeps the vector time-like)
                                if len(groups[0]) == 3:
                                    carts[1] = (x0 * 1.5, y0 * 1.5, z0, math.sqrt(t0 * t0 - x0 * x0 - y0 * y0 + 2.25 * (x0 * x0 + y0 * y0)))   # same tau
                            elif which == "phi":
                                cs, sn = math.cos(0.7), math.sin(0.7)
                                carts[1] = (x0 * cs - y0 * sn, x0 * sn + y0 * cs, z0, t0)
                            elif which == "z":
                                z1 = -z0 if rep % 2 else z0 * 1.6
                                carts[1] = (x0, y0, z1, math.sqrt(t0 * t0 - z0 * z0 + z1 * z1) if len(groups[0]) == 3 else t0)          # same tau
                            else:
                                carts[1] = (x0, y0, z0, t0 * 1.5)
                        scal = [scalar_for(rng, p, mname) for p in scal_names]
                        if mname == "rotate_quaternion":
                            nrm = math.sqrt(sum(s * s for s in scal)) or 1.0
                            scal = [s / nrm for s in scal]
                        args = [c for g, ct in zip(groups, carts) for c in coords_of(g, ct)]
                        cargs = [c for g, ct in zip(groups, carts) for c in coords_of([CART[KIND[n]] for n in g], ct)]
                        f64 = numpy.float64
                        with numpy.errstate(all="ignore"):
                            try:
                                want = to_cart(creturns, cfn(numpy, *scal, *map(f64, cargs)))
                                wl = want if isinstance(want, tuple) else (want,)
                                if not all(isinstance(w, (bool, numpy.bool_)) or math.isfinite(w) for w in wl):
                                    stats["skipped_nonfinite"] = stats.get("skipped_nonfinite", 0) + 1
                                    continue   # the exact result is not finite: outside the property
                                got = to_cart(returns, fn(numpy, *scal, *map(f64, args)))
                            except Exception as e:
                                ctx.fail(f"compute:{full}:raises", f"{type(e).__name__}: {e}", {"sig": [getattr(s, "__name__", s) for s in sig]})
                                continue
                        stats["evaluations"] += 1
                        distinct.add((full, tuple(getattr(s, "__name__", s) for s in sig), stratum, rep))
                        S = max(max(abs(c) for ct in carts for c in ct), 1.0)
                        floor = S * S if (mname.endswith("2") or mname == "dot") else S
                        g_, w_ = (got if isinstance(got, tuple) else (got,)), (want if isinstance(want, tuple) else (want,))
                        rets = [getattr(r, "__name__", None) if r is not None else None for r in returns]
                        if len(rets) == 3 and rets[2] == "TemporalTau" and len(w_) == 4 and (w_[3] < 0 or w_[3] ** 2 < w_[0] ** 2 + w_[1] ** 2 + w_[2] ** 2):
                            stats["skipped_unrepresentable"] = stats.get("skipped_unrepresentable", 0) + 1
                            continue   # exact result has negative time / is space-like: not representable with tau >= 0
                        if isinstance(g_[0], (bool, numpy.bool_)):
                            if mname in ("equal", "not_equal") and carts[0] == carts[-1]:
                                stats["skipped_boolean_boundary"] += 1   # equal vectors across systems: rounding decides
                                continue
                            if mname == "isclose" and carts[0] == carts[-1] and not (bool(g_[0]) and bool(w_[0])):
                                ctx.fail(f"compute:{full}:storage_dependence", "isclose of one vector stored in two systems is False",
                                         {"sig": [getattr(s, "__name__", s) for s in sig], "scalars": scal, "args": args})
                                continue
                            if mname.startswith("is_") or mname == "isclose":
                                pass
                        if (mname == "Mt2" and rets == ["float"] and getattr(sig[-1], "__name__", "") == "TemporalTau"
                                and w_[0] < 0 and g_[0] == 0):
                            # listed known finding: tau-stored variants clamp t^2 - z^2 at 0, the t-stored ones do not
                            ctx.fail("compute:lorentz.Mt2:clamped_negative_transverse_mass2",
                                     f"variant {'_'.join(H_SIGN(s) for s in sig)} gives 0.0, the Cartesian variant {w_[0]}",
                                     {"module": full, "sig": [getattr(s, "__name__", s) for s in sig], "scalars": scal, "args": args,
                                      "cartesian_args": cargs, "stratum": stratum})
                            continue
                        if len(g_) != len(w_) or not all(close(a, b, rtol, floor) for a, b in zip(g_, w_)):
                            ctx.fail(f"compute:{full}:storage_dependence" + (":negative_time" if stratum == "negative_time" else ""),
                                     f"variant {'_'.join(H_SIGN(s) for s in sig)} gives {g_}, the Cartesian variant {w_}",
                                     {"module": full, "sig": [getattr(s, "__name__", s) for s in sig], "scalars": scal, "args": args,
                                      "cartesian_args": cargs, "stratum": stratum})
                        elif len(samples) < 5 and rep == 0 and stratum == "octants" and mname in ("add", "boost_p4", "deltaR"):
                            samples.append({"module": full, "sig": [getattr(s, "__name__", s) for s in sig], "args": args, "result_cartesian": list(map(float, g_))})
    stats["distinct"] = len(distinct)
    stats["samples"] = samples
    return stats


def H_SIGN(s):
    n = getattr(s, "__name__", s)
    return {"AzimuthalXY": "xy", "AzimuthalRhoPhi": "rhophi", "LongitudinalZ": "z", "LongitudinalTheta": "theta",
            "LongitudinalEta": "eta", "TemporalT": "t", "TemporalTau": "tau"}.get(n, str(n))


def replay_compute(rec_input):
    """re-evaluate one recorded variant call on the current tree"""
    from vector import _methods as M
    mod = importlib.import_module("vector._compute." + rec_input["module"])
    sig = tuple(getattr(M, s) if hasattr(M, s) else s for s in rec_input["sig"])
    fn, *returns = mod.dispatch_map[sig]
    groups, extra = sig_groups(sig)
    cart_sig = tuple(getattr(M, CART[KIND[n]]) for g in groups for n in g) + tuple(extra)
    cfn, *creturns = mod.dispatch_map[cart_sig]
    with numpy.errstate(all="ignore"):
        got = to_cart(returns, fn(numpy, *rec_input["scalars"], *rec_input["args"]))
        want = to_cart(creturns, cfn(numpy, *rec_input["scalars"], *rec_input["cartesian_args"]))
    return got, want
