"""Emit Coq from the T1 IR: gen/Compute.v (one definition per compute function)
and gen/Tables.v (one signature-indexed table per compute module)."""
from __future__ import annotations

import os

from .t1 import KIND, LEAF, NCOORD, SIGN, TranslationError

UN = {"sqrt": "lsqrt", "exp": "lexp", "log": "llog", "sin": "lsin", "cos": "lcos", "tan": "ltan",
      "arcsin": "lasin", "arccos": "lacos", "arctan": "latan", "sinh": "lsinh", "cosh": "lcosh",
      "tanh": "ltanh", "arcsinh": "lasinh", "absolute": "labs", "sign": "lsign", "neg": "neg"}
BIN = {"add": "add", "sub": "sub", "mul": "mul", "div": "div", "mod": "pmod", "arctan2": "latan2",
       "copysign": "lcopysign", "maximum": "lmax", "minimum": "lmin", "eq": "leq", "ne": "lne",
       "lt": "llt", "gt": "lgt", "and": "band", "or": "bor"}
COQ_KEYWORDS = {"at", "as", "in", "of", "if", "then", "else", "let", "fun", "fix", "for", "end", "match",
                "with", "return", "using", "where", "forall", "exists", "Type", "Prop", "Set", "by"}
TAG = {"AzimuthalXY": "XY", "AzimuthalRhoPhi": "RhoPhi", "LongitudinalZ": "LZ", "LongitudinalTheta": "LTheta",
       "LongitudinalEta": "LEta", "TemporalT": "TT", "TemporalTau": "TTau"}
TAGTYPE = {"az": "az", "lg": "lg", "tm": "tm", "eo": "eorder"}
ALLTAGS = {"az": ["XY", "RhoPhi"], "lg": ["LZ", "LTheta", "LEta"], "tm": ["TT", "TTau"],
           "eo": ["E_xzx", "E_xyx", "E_yxy", "E_yzy", "E_zyz", "E_zxz", "E_xzy", "E_xyz", "E_yxz", "E_yzx",
                  "E_zyx", "E_zxy"]}


def vname(p):
    return "v_" + p


def emit_function(f, fns):
    nodes, ntypes = f["nodes"], f["ntypes"]
    refs = [0] * len(nodes)
    for nd in nodes:
        for a in (nd[2:] if nd[0] == "call" else nd[2:] if nd[0] == "proj" else nd[1:]):
            if isinstance(a, int) and not isinstance(a, bool):
                refs[a] += 1
    for o in f["outs"]:
        refs[o] += 1
    lets = {}
    binds = []

    def cst(nd):
        return f"(cst ({nd[1]})%Z {nd[2]}%positive)"

    def rpl(i):
        nd = nodes[i]
        op = nd[0]
        if op == "none":
            return "r_none"
        if op == "inf":
            return "r_inf"
        if op == "ninf":
            return "r_ninf"
        if op == "nan":
            return "r_nan"
        return f"(r_num {ex(i, True)})"

    def num(i, inrpl):
        """expression of sort num (coerce booleans with b2n)"""
        s = ex(i, inrpl)
        return f"(b2n {s})" if ntypes[i] == "bln" else s

    def ex(i, inrpl=False):
        if i in lets:
            return lets[i]
        nd = nodes[i]
        op = nd[0]
        if op == "var":
            return vname(nd[1])
        if op == "const":
            return cst(nd)
        if op == "constb":
            return f"(bcst {'true' if nd[1] else 'false'})"
        if op == "pi":
            return "lpi"
        if op == "inf":
            if not inrpl:
                raise TranslationError(f"{f['name']}: infinity used as a number outside a nan_to_num replacement")
            return "linf"
        if op in ("ninf", "nan", "none"):
            raise TranslationError(f"{f['name']}: {op} used as a number")
        if op in UN:
            return f"({UN[op]} {num(nd[1], inrpl)})"
        if op in ("and", "or"):
            return f"({BIN[op]} {ex(nd[1], inrpl)} {ex(nd[2], inrpl)})"
        if op in BIN:
            return f"({BIN[op]} {num(nd[1], inrpl)} {num(nd[2], inrpl)})"
        if op == "pow":
            e = nodes[nd[2]]
            if e[0] != "const":
                raise TranslationError(f"{f['name']}: non-literal exponent")
            if (e[1], e[2]) == ("2", "1"):
                return f"(sqr {num(nd[1], inrpl)})"
            if (e[1], e[2]) not in (("-1", "2"), ("1", "2")):
                raise TranslationError(f"{f['name']}: exponent {e[1]}/{e[2]} has no agreed semantics")
            return f"(powc {num(nd[1], inrpl)} ({e[1]})%Z {e[2]}%positive)"
        if op == "nan_to_num":
            return f"(nan_to_num {num(nd[1], inrpl)} {rpl(nd[2])} {rpl(nd[3])} {rpl(nd[4])})"
        if op == "isclose":
            return (f"(lisclose {num(nd[1], inrpl)} {num(nd[2], inrpl)} {num(nd[3], inrpl)} "
                    f"{num(nd[4], inrpl)} {ex(nd[5], inrpl)})")
        if op == "call":
            callee = fns[nd[1]]
            args = []
            for a, t in zip(nd[2:], callee["ptypes"]):
                args.append(ex(a, inrpl) if t == "bln" else num(a, inrpl))
            return f"({nd[1]} {' '.join(args)})" if args else nd[1]
        if op == "proj":
            k = len(fns[nodes[nd[2]][1]]["rtypes"])
            return f"(prj{k}_{nd[1]} {ex(nd[2], inrpl)})"
        raise TranslationError(f"{f['name']}: op {op} has no translation")

    # which nodes sit (only) inside nan_to_num replacement positions
    inrpl_nodes = set()

    def mark(i):
        if i in inrpl_nodes:
            return
        inrpl_nodes.add(i)
        nd = nodes[i]
        for a in (nd[2:] if nd[0] in ("call", "proj") else nd[1:]):
            if isinstance(a, int) and not isinstance(a, bool):
                mark(a)

    for nd in nodes:
        if nd[0] == "nan_to_num":
            for a in nd[2:5]:
                mark(a)
    for i, nd in enumerate(nodes):
        if refs[i] > 1 and nd[0] not in LEAF and ntypes[i] in ("num", "bln") or (
                refs[i] > 1 and nd[0] == "call"):
            s = ex(i, i in inrpl_nodes)
            nm = f"t{len(binds)}"
            binds.append((nm, s))
            lets[i] = nm
    outs = []
    for o, t in zip(f["outs"], f["rtypes"]):
        outs.append(ex(o))
    body = "(" + ", ".join(outs) + ")" if f["tuple"] else outs[0]
    for nm, s in reversed(binds):
        body = f"let {nm} := {s} in\n  {body}"
    ps = " ".join(f"({vname(p)} : {t})" for p, t in zip(f["params"], f["ptypes"]))
    return f"Definition {f['name']} {ps} :=\n  {body}."


def emit_compute(ir):
    out = ["(* GENERATED by tools/vtrace (T1) from /repo/src/vector/_compute — do not edit *)",
           "From Coq Require Import ZArith.", "From VP Require Import Lib.",
           "Section Compute.", "Context {L : Lib}."]
    for n in ir["order"]:
        out.append(emit_function(ir["functions"][n], ir["functions"]))
    out.append("End Compute.")
    return "\n".join(out) + "\n"


def sig_kinds(sig):
    ks = []
    for s in sig:
        if s in KIND:
            ks.append(KIND[s])
        elif isinstance(s, str) and "E_" + s in ALLTAGS["eo"]:
            ks.append("eo")
        else:
            raise TranslationError(f"signature element {s!r}")
    return ks


def sig_tag(s):
    return TAG[s] if s in TAG else "E_" + s


def res_of(entry, f):
    """Coq term of sort res for one table entry applied to variables."""
    rets = entry["returns"]
    k = len(f["rtypes"])
    call_args = entry["_args"]
    call = f"({f['name']} {' '.join(call_args)})" if call_args else f["name"]
    if rets == ["float"]:
        return f"RNum {call}" if (not f["tuple"] and f["rtypes"] == ["num"]) else "RBad"
    if rets == ["bool"]:
        return f"RBool {call}" if (not f["tuple"] and f["rtypes"] == ["bln"]) else "RBad"
    shape = tuple("None" if r == "None" else KIND.get(r) for r in rets)
    want = {("az",): ("RAz", 2), ("az", "None"): ("RAzN", 2), ("az", "lg"): ("RAzL", 3),
            ("az", "lg", "None"): ("RAzLN", 3), ("az", "lg", "tm"): ("RAzLT", 4)}.get(shape)
    if want is None or not f["tuple"] or k != want[1] or any(t != "num" for t in f["rtypes"]):
        return "RBad"
    tags = " ".join(TAG[r] for r in rets if r != "None")
    comps = " ".join(f"(prj{k}_{i} r)" for i in range(k))
    return f"let r := {call} in {want[0]} {tags} {comps}"


def emit_tables(ir):
    fns = ir["functions"]
    out = ["(* GENERATED by tools/vtrace (T1) from the dispatch_map of every compute module — do not edit *)",
           "From Coq Require Import ZArith List.", "From VP Require Import Lib Compute.",
           "Section Tables.", "Context {L : Lib}."]
    meta = {}
    for tname, tab in sorted(ir["tables"].items()):
        ents = tab["entries"]
        kinds = None
        nsc = None
        for e in ents:
            ks = sig_kinds(e["sig"])
            if kinds is None:
                kinds = ks
            elif ks != kinds:
                raise TranslationError(f"{tname}: signatures of different shapes")
            f = fns[e["fn"]]
            ncoord = sum(NCOORD.get(k, 0) for k in ks)
            n = len(f["params"]) - ncoord
            if n < 0:
                raise TranslationError(f"{tname}: {e['fn']} has too few parameters")
            if nsc is None:
                nsc = n
                sctypes = f["ptypes"][:n]
            elif n != nsc or f["ptypes"][:n] != sctypes:
                raise TranslationError(f"{tname}: scalar parameters differ between variants")
            if any(t != "num" for t in f["ptypes"][n:]):
                raise TranslationError(f"{tname}: boolean coordinate parameter")
        tagvars = [f"s{i}" for i in range(len(kinds))]
        scal = [f"k{i}" for i in range(nsc)]
        coords = [f"c{i}" for i in range(sum(NCOORD.get(k, 0) for k in kinds))]
        binders = " ".join(f"({v} : {TAGTYPE[k]})" for v, k in zip(tagvars, kinds))
        binders += "".join(f" ({v} : {t})" for v, t in zip(scal, sctypes))
        binders += "".join(f" ({v} : num)" for v in coords)
        lines = [f"Definition T_{tname} {binders} : res :=", f"  match {', '.join(tagvars)} with"]
        seen = set()
        for e in ents:
            e["_args"] = scal + coords
            pat = ", ".join(sig_tag(s) for s in e["sig"])
            if pat in seen:
                raise TranslationError(f"{tname}: duplicate signature {pat}")
            seen.add(pat)
            lines.append(f"  | {pat} => {res_of(e, fns[e['fn']])}")
            del e["_args"]
        total = 1
        for k in kinds:
            total *= len(ALLTAGS[k])
        if len(seen) < total:
            lines.append(f"  | {', '.join('_' for _ in kinds)} => RMissing")
        lines.append("  end.")
        out.append("\n".join(lines))
        meta[tname] = {"kinds": kinds, "nscalars": nsc, "sctypes": sctypes, "ncoords": len(coords),
                       "entries": len(ents), "total": total}
    out.append("End Tables.")
    return "\n".join(out) + "\n", meta


def emit_totality(ir, meta):
    """gen/Totality.v: for every compute module, the boolean 'every signature has an entry of a well-formed shape'."""
    ALL = {"az": "all_az", "lg": "all_lg", "tm": "all_tm", "eo": "all_eorder"}
    out = ["(* GENERATED: totality of every dispatch table over the full signature lattice *)",
           "From Coq Require Import List Bool.", "From VP Require Import Lib ULib Compute Tables.", "Import ListNotations.", ""]
    names = []
    for t in sorted(meta):
        m = meta[t]
        tags = [f"s{i}" for i in range(len(m["kinds"]))]
        args = " ".join(tags) + " " + " ".join(["tt"] * (m["nscalars"] + m["ncoords"]))
        body = f"shape_ok (T_{t} (L:=ULib) {args})"
        for v, k in reversed(list(zip(tags, m["kinds"]))):
            body = f"forallb (fun {v} => {body}) {ALL[k]}"
        out.append(f"Definition total_{t} : bool := {body}.")
        names.append(f"total_{t}")
    out.append("Definition all_tables_total : bool := " + " && ".join(names) + ".")
    out.append(f"Definition number_of_tables : nat := {len(names)}.")
    return "\n".join(out) + "\n"


def emit_unfold(ir):
    names = list(ir["order"]) + ["T_" + t for t in sorted(ir["tables"])]
    prj = ["prj2_0", "prj2_1", "prj3_0", "prj3_1", "prj3_2", "prj4_0", "prj4_1", "prj4_2", "prj4_3", "fst", "snd"]
    lst = " ".join(names + prj)
    tabs = " ".join("T_" + t for t in sorted(ir["tables"]))
    return ("(* GENERATED — unfolding tactics for every generated definition *)\n"
            "From VP Require Import Lib Compute Tables.\n"
            f"Ltac vunfold := cbv beta iota zeta delta [{lst}].\n"
            f"Ltac vunfold_in H := cbv beta iota zeta delta [{lst}] in H.\n"
            f"Ltac tunfold := cbv beta iota delta [{tabs}].\n"
            f"Ltac tunfold_in H := cbv beta iota delta [{tabs}] in H.\n")


def write_if_changed(path, text):
    try:
        if open(path).read() == text:
            return False
    except OSError:
        pass
    os.makedirs(os.path.dirname(path), exist_ok=True)
    tmp = path + ".tmp"
    with open(tmp, "w") as fh:
        fh.write(text)
    os.replace(tmp, path)
    return True
