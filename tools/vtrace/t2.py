"""T2 — effect skeletons (Python ast): the body of every compute `dispatch` function, and every statement of
src/vector that can write process-wide state, with its enclosing function.  Emits gen/Effects.v."""
from __future__ import annotations

import ast
import glob
import os

import os as _os
SRC = (_os.environ.get("VERIF_REPO") or "/repo") + "/src/vector"


def skel(stmts):
    out = []
    for st in stmts:
        if isinstance(st, ast.Expr) and isinstance(st.value, ast.Constant) and isinstance(st.value.value, str):
            continue
        if isinstance(st, ast.With):
            items = []
            for it in st.items:
                ce = it.context_expr
                src = ast.unparse(ce)
                items.append("errstate" if src.replace(" ", "") in ("numpy.errstate(all='ignore')", 'numpy.errstate(all="ignore")') else "other:" + src[:40])
            out.append(("with", items, skel(st.body)))
        elif isinstance(st, (ast.Assign, ast.AnnAssign)):
            tgt = st.targets if isinstance(st, ast.Assign) else [st.target]
            local = all(isinstance(t, (ast.Name, ast.Tuple, ast.Starred, ast.List)) for t in tgt)
            out.append(("assign_local",) if local else ("assign_nonlocal", ast.unparse(tgt[0])[:40]))
        elif isinstance(st, ast.Return):
            out.append(("return",))
        elif isinstance(st, ast.Raise):
            out.append(("raise",))
        elif isinstance(st, ast.If):
            out.append(("if", skel(st.body), skel(st.orelse)))
        elif isinstance(st, (ast.Global, ast.Nonlocal)):
            out.append(("global", ",".join(st.names)))
        elif isinstance(st, ast.Expr):
            out.append(("call", ast.unparse(st.value)[:60]))
        else:
            out.append(("other", type(st).__name__))
    return out


def dispatch_skeletons():
    res = {}
    for pk in ("planar", "spatial", "lorentz"):
        for f in sorted(glob.glob(os.path.join(SRC, "_compute", pk, "*.py"))):
            if f.endswith("__init__.py"):
                continue
            tree = ast.parse(open(f).read())
            for node in tree.body:
                if isinstance(node, ast.FunctionDef) and node.name == "dispatch":
                    res[f"{pk}_{os.path.basename(f)[:-3]}"] = skel(node.body)
    return res


WRITER_CALLS = ("numpy.seterr", "numpy.seterrcall", "numpy.set_printoptions", "numpy.setbufsize", "warnings.simplefilter", "warnings.filterwarnings",
                "warnings.resetwarnings", "ak.behavior.update", "awkward.behavior.update", "os.environ", "sys.path", "sys.setrecursionlimit", "random.seed", "numpy.random.seed")


MUTATORS = ("update", "setdefault", "pop", "popitem", "clear", "append", "extend", "insert", "remove", "__setitem__", "__delitem__", "add", "discard", "sort", "reverse")
MODULE_ROOTS = ("vector", "ak", "awkward", "numpy", "np", "numba", "warnings", "sys", "os", "sympy", "builtins")


def global_writers():
    """(file, enclosing function, kind, text) of every statement inside a function of src/vector that can write
    process-wide state: `global` declarations and assignments to them, assignments to attributes / items of modules and of
    module-level objects, mutator-method calls on them (through local aliases too), and the known setter functions."""
    out = []
    for f in sorted(glob.glob(os.path.join(SRC, "**", "*.py"), recursive=True)):
        rel = os.path.relpath(f, SRC)
        tree = ast.parse(open(f).read())
        module_names = set()
        for n in tree.body:
            if isinstance(n, (ast.Assign, ast.AnnAssign)):
                for t in (n.targets if isinstance(n, ast.Assign) else [n.target]):
                    if isinstance(t, ast.Name):
                        module_names.add(t.id)
            # names imported at module level are process-wide objects too (e.g. the alias tables of vector._methods)
            if isinstance(n, ast.ImportFrom):
                for a in n.names:
                    module_names.add(a.asname or a.name)
            if isinstance(n, ast.If):           # `if typing.TYPE_CHECKING:` / version switches
                for m in ast.walk(n):
                    if isinstance(m, ast.ImportFrom):
                        for a in m.names:
                            module_names.add(a.asname or a.name)

        def root(e):
            while isinstance(e, (ast.Attribute, ast.Subscript)):
                e = e.value
            return e.id if isinstance(e, ast.Name) else None

        def scan_function(fn_node, fn):
            declared = {n for st in ast.walk(fn_node) if isinstance(st, ast.Global) for n in st.names}
            params = {a.arg for a in fn_node.args.args + fn_node.args.kwonlyargs + fn_node.args.posonlyargs}
            if fn_node.args.vararg:
                params.add(fn_node.args.vararg.arg)
            if fn_node.args.kwarg:
                params.add(fn_node.args.kwarg.arg)
            local_assigned = set(params)
            aliases = set()          # local names bound to a process-wide object (an attribute chain rooted at a module / module-level name)

            def is_global_ref(e):
                """attribute / subscript chain (no call) rooted at a module, a module-level name of this file, or an alias"""
                if not isinstance(e, (ast.Attribute, ast.Subscript, ast.Name)):
                    return False
                r = root(e)
                if r is None:
                    return False
                if r in aliases:
                    return True
                if r in local_assigned and r not in declared:
                    return False
                if isinstance(e, ast.Name):
                    return r in module_names or r in declared
                return r in MODULE_ROOTS or r in module_names or r in declared

            for st in ast.walk(fn_node):
                if isinstance(st, (ast.FunctionDef, ast.AsyncFunctionDef, ast.Lambda)) and st is not fn_node:
                    continue
                if isinstance(st, (ast.Assign, ast.AnnAssign)) and getattr(st, "value", None) is not None:
                    tg = st.targets if isinstance(st, ast.Assign) else [st.target]
                    for t in tg:
                        if isinstance(t, ast.Name):
                            if is_global_ref(st.value) and not isinstance(st.value, ast.Name) or (isinstance(st.value, ast.Name) and st.value.id in aliases):
                                aliases.add(t.id)
                            elif t.id not in declared:
                                local_assigned.add(t.id)
                if isinstance(st, (ast.For, ast.comprehension)) and isinstance(st.target, ast.Name):
                    local_assigned.add(st.target.id)
                if isinstance(st, (ast.Import, ast.ImportFrom)):
                    pass
            for st in ast.walk(fn_node):
                if isinstance(st, ast.Global):
                    out.append((rel, fn, "global", ",".join(st.names)))
                if isinstance(st, (ast.Assign, ast.AugAssign, ast.AnnAssign, ast.Delete)):
                    tg = st.targets if isinstance(st, (ast.Assign, ast.Delete)) else [st.target]
                    for t in tg:
                        src = ast.unparse(t)[:60]
                        if isinstance(t, ast.Name) and t.id in declared:
                            out.append((rel, fn, "assign_global", src))
                        elif isinstance(t, (ast.Attribute, ast.Subscript)) and is_global_ref(t.value):
                            out.append((rel, fn, "assign_into_global_object", src))
                if isinstance(st, ast.Call):
                    src = ast.unparse(st.func)
                    if src in WRITER_CALLS:
                        out.append((rel, fn, "call", src))
                    elif isinstance(st.func, ast.Attribute) and st.func.attr in MUTATORS and is_global_ref(st.func.value):
                        out.append((rel, fn, "mutate_global_object", src[:60]))

        def visit(node, prefix):
            for ch in ast.iter_child_nodes(node):
                if isinstance(ch, (ast.FunctionDef, ast.AsyncFunctionDef)):
                    name = prefix + ch.name
                    scan_function(ch, name)
                    visit(ch, name + ".")
                elif isinstance(ch, ast.ClassDef):
                    visit(ch, prefix + ch.name + ".")
                else:
                    visit(ch, prefix)
        visit(tree, "")
    return sorted(set(out))


def import_time_only():
    """(file, function) pairs whose every call site in src/vector is module-level code of the same file (table builders run once at import)"""
    res = {}
    for f in sorted(glob.glob(os.path.join(SRC, "**", "*.py"), recursive=True)):
        rel = os.path.relpath(f, SRC)
        tree = ast.parse(open(f).read())
        top_funcs = {n.name for n in tree.body if isinstance(n, ast.FunctionDef)}
        inside = set()        # names called (or merely referenced) from inside some function or class body
        for n in ast.walk(tree):
            if isinstance(n, (ast.FunctionDef, ast.AsyncFunctionDef, ast.ClassDef, ast.Lambda)):
                for m in ast.walk(n):
                    if m is not n and isinstance(m, ast.Name) and m.id in top_funcs:
                        inside.add(m.id)
        exported = set()
        for g in sorted(glob.glob(os.path.join(SRC, "**", "*.py"), recursive=True)):
            if g == f:
                continue
            for m in ast.walk(ast.parse(open(g).read())):
                if isinstance(m, ast.Attribute) and m.attr in top_funcs and m.attr in ("make_conversion", "make_function"):
                    exported.add(m.attr)
                if isinstance(m, ast.ImportFrom):
                    for a in m.names:
                        if a.name in ("make_conversion", "make_function"):
                            exported.add(a.name)
        called_top = set()

        def top_calls(node):
            for ch in ast.iter_child_nodes(node):
                if isinstance(ch, (ast.FunctionDef, ast.AsyncFunctionDef, ast.ClassDef, ast.Lambda)):
                    continue
                if isinstance(ch, ast.Call) and isinstance(ch.func, ast.Name):
                    called_top.add(ch.func.id)
                top_calls(ch)
        top_calls(tree)
        for fn in top_funcs:
            res[(rel, fn)] = fn in called_top and fn not in inside and fn not in exported
    return res


def with_items():
    """every context manager entered anywhere in src/vector: (file, function, normalised source)"""
    out = []
    for f in sorted(glob.glob(os.path.join(SRC, "**", "*.py"), recursive=True)):
        rel = os.path.relpath(f, SRC)
        tree = ast.parse(open(f).read())

        def visit(node, fn):
            for ch in ast.iter_child_nodes(node):
                nfn = ch.name if isinstance(ch, (ast.FunctionDef, ast.AsyncFunctionDef)) else fn
                if isinstance(ch, (ast.With, ast.AsyncWith)):
                    for it in ch.items:
                        out.append((rel, fn, ast.unparse(it.context_expr).replace('"', "'")))
                visit(ch, nfn)
        visit(tree, "<module>")
    return out


def coq_str(s):
    return '"' + s.replace('"', "'") + '"'


def emit_skel(sk):
    parts = []
    for st in sk:
        k = st[0]
        if k == "with":
            good = all(i == "errstate" for i in st[1])
            parts.append(f"SWith {'true' if good else 'false'} {emit_skel(st[2])}")
        elif k == "assign_local":
            parts.append("SLocal")
        elif k == "return":
            parts.append("SReturn")
        elif k == "raise":
            parts.append("SRaise")
        elif k == "if":
            parts.append(f"SIf {emit_skel(st[1])} {emit_skel(st[2])}")
        else:
            parts.append(f"SEffect {coq_str(' '.join(map(str, st)))}")
    return "[" + "; ".join(parts) + "]"


def emit():
    sk = dispatch_skeletons()
    wr = global_writers()
    out = ["(* GENERATED by tools/vtrace/t2.py (Python ast): effect skeletons of the 82 dispatch functions and the global-writer scan *)",
           "From Coq Require Import List String.", "From VP Require Import Effects.", "Import ListNotations.", "Open Scope string_scope.", "",
           "Definition dispatch_skeletons : list (string * list stmt) := ["]
    out.append(";\n".join(f"  ({coq_str(n)}, {emit_skel(s)})" for n, s in sorted(sk.items())))
    out.append("].\n")
    imp = import_time_only()
    out.append("(* (file, function, kind, text, import_time_only) *)")
    out.append("Definition global_writers : list (string * string * string * string * bool) := [")
    out.append(";\n".join(f"  ({coq_str(a)}, {coq_str(b)}, {coq_str(c)}, {coq_str(d)}, {'true' if imp.get((a, b), False) else 'false'})" for a, b, c, d in wr))
    out.append("].\n")
    wi = with_items()
    kinds = sorted({w[2] for w in wi})
    out.append("(* the distinct context managers entered anywhere in src/vector, with their number of uses *)")
    out.append("Definition context_managers : list (string * nat) := [" + "; ".join(f"({coq_str(k)}, {sum(1 for w in wi if w[2] == k)})" for k in kinds) + "].")
    return "\n".join(out) + "\n", {"context_managers": {k: sum(1 for w in wi if w[2] == k) for k in kinds}, "dispatch_functions": len(sk), "global_writers": len(wr), "writers": [list(w) + [imp.get((w[0], w[1]), False)] for w in wr]}


if __name__ == "__main__":
    import json
    txt, meta = emit()
    print(json.dumps(meta, indent=1)[:3000])
