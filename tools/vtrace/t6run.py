"""T6 — symbolic execution of the REAL NumPy backend next to the object backend -> build/npapi.json.

`vector.backends.numpy` runs on structured arrays whose fields have dtype=object and hold `Sym` variables: the backend's `lib`
(the numpy module) is replaced, in this process only, by a recording lib that maps over object arrays; the compute functions are
the T1 recording wrappers (they record elementwise on object arrays); `_is_type_safe` (the dtype check of the constructor, decided
by C06) is switched off.  Everything else — `vector.array`, `__array_finalize__`, `_wrap_result`, `__array_ufunc__`,
`__getitem__`, field access through synonyms, the dispatch functions, `_handler_of` / `_flavor_of` — is the real code.

Each program text of the catalogue (getters, conversions with keyword choices, unary / binary methods, operators and ufuncs, integer
indexing) is evaluated (np) with NumPy operands (and the mixed pairings NumPy x object, object x NumPy) and (py) with object operands.
A record holds both outcomes in the T3 format; element 0 of a one-element array stands for "the element" (NumPy's elementwise
semantics is the array model of C03)."""
from __future__ import annotations

import inspect
import itertools
import json
import os
import sys

import numpy

from . import symlib as S
from . import t3
from . import t5run

ROOT = os.path.dirname(os.path.dirname(os.path.dirname(os.path.abspath(__file__))))
SP2OBJ = {"VectorSympy2D": "VectorObject2D", "VectorSympy3D": "VectorObject3D", "VectorSympy4D": "VectorObject4D",
          "MomentumSympy2D": "MomentumObject2D", "MomentumSympy3D": "MomentumObject3D", "MomentumSympy4D": "MomentumObject4D"}
NP2OBJ = {"VectorNumpy2D": "VectorObject2D", "VectorNumpy3D": "VectorObject3D", "VectorNumpy4D": "VectorObject4D",
          "MomentumNumpy2D": "MomentumObject2D", "MomentumNumpy3D": "MomentumObject3D", "MomentumNumpy4D": "MomentumObject4D"}
GEN = {"px": "x", "py": "y", "pt": "rho", "pz": "z", "E": "t", "e": "t", "energy": "t", "M": "tau", "m": "tau", "mass": "tau"}
MOM = {"x": "px", "y": "py", "rho": "pt", "z": "pz", "t": "E", "tau": "mass"}


def _box(a):
    if isinstance(a, numpy.ndarray):
        return a
    b = numpy.empty((), dtype=object)
    b[()] = a
    return b


class ArrLib:
    """stands in for the numpy module as the `lib` of BOTH the NumPy and the object backend in this process (the real code requires
    all operands of one calculation to share their lib): records on symbolic scalars, and elementwise on object arrays"""
    pi = S.Sym("pi")
    inf = S.Sym("inf")
    nan = S.Sym("nan")

    def __init__(self):
        self.tl = S.TraceLib()

    def _lift(self, f, n):
        def g(*args):
            if any(isinstance(a, numpy.ndarray) for a in args):
                return numpy.frompyfunc(f, n, 1)(*[_box(a) for a in args])
            return f(*args)
        return g

    def __getattr__(self, name):
        if name in S.UNARY:
            return self._lift(lambda a: getattr(self.tl, name)(a), 1)
        if name in S.BINARY:
            return self._lift(lambda a, b: getattr(self.tl, name)(a, b), 2)
        raise AttributeError(f"lib.{name} is not in the traced vocabulary")

    def nan_to_num(self, v, nan=0.0, posinf=None, neginf=None):
        return self._lift(lambda a: self.tl.nan_to_num(a, nan, posinf, neginf), 1)(v)

    def isclose(self, a, b, rtol, atol, equal_nan):
        return self._lift(lambda x, y: self.tl.isclose(x, y, rtol, atol, equal_nan), 2)(a, b)

    def __eq__(self, o):
        return isinstance(o, ArrLib)

    def __ne__(self, o):
        return not isinstance(o, ArrLib)

    def __hash__(self):
        return 11


class Runner:
    last = None

    def __init__(self):
        Runner.last = self
        self.A = t3.ApiTracer()
        import vector
        from vector.backends import numpy as VN
        self.vector, self.VN = vector, VN
        lib = ArrLib()
        VN.VectorNumpy.lib = lib
        self.A.O.VectorObject.lib = lib
        VN._is_type_safe = lambda a: True
        # the SymPy backend with the same recording lib: its glue (constructors, _wrap_result, methods) is lib-independent;
        # what SympyLib itself computes is the subject of C08's eval_sym theorem
        from vector.backends import sympy as VS
        self.VS = VS
        VS.VectorSympy.lib = lib
        VS._is_type_safe = lambda coordinates: None

    def make_np(self, dim, names, mom, prefix):
        keys = [MOM.get(n, n) if mom else n for n in names]
        cols = {k: numpy.array([S.Sym("var", f"{prefix}{i}")], dtype=object) for i, k in enumerate(keys)}
        return self.vector.array(cols)

    def make_sp(self, dim, names, mom, prefix):
        keys = [MOM.get(n, n) if mom else n for n in names]
        cls = getattr(self.VS, ("Momentum" if mom else "Vector") + f"Sympy{dim}D")
        return cls(**{k: S.Sym("var", f"{prefix}{i}") for i, k in enumerate(keys)})

    def describe(self, r):
        V = self.vector
        if isinstance(r, self.VS.VectorSympy):
            from vector._methods import _aztype, _ltype, _ttype
            coords = list(r.azimuthal.elements) + (list(r.longitudinal.elements) if hasattr(r, "longitudinal") else []) \
                + (list(r.temporal.elements) if hasattr(r, "temporal") else [])
            systems = [t3.t1.SIGN[_aztype(r).__name__]] + ([t3.t1.SIGN[_ltype(r).__name__]] if hasattr(r, "longitudinal") else []) \
                + ([t3.t1.SIGN[_ttype(r).__name__]] if hasattr(r, "temporal") else [])
            return {"kind": "vector", "backend": "sympy", "cls": SP2OBJ.get(type(r).__name__, type(r).__name__), "systems": systems,
                    "coords": [t3.ser(c) for c in coords]}
        if isinstance(r, self.VN.VectorNumpy):
            names = [GEN.get(n, n) for n in r.dtype.names]
            extra = [n for n in names if n not in ("x", "y", "rho", "phi", "z", "theta", "eta", "t", "tau")]
            if extra or r.shape != (1,):
                return {"kind": "other", "what": f"fields {r.dtype.names} shape {r.shape}"}
            systems = ["xy" if names[0] == "x" else "rhophi"] + names[2:]
            return {"kind": "vector", "backend": "numpy", "cls": NP2OBJ.get(type(r).__name__, type(r).__name__), "systems": systems,
                    "coords": [t3.ser(r[n][0]) for n in r.dtype.names]}
        if isinstance(r, numpy.ndarray):
            if r.shape != (1,):
                return {"kind": "other", "what": f"array of shape {r.shape}"}
            return {"kind": "scalar", "backend": "numpy", "expr": t3.ser(r[0])}
        if isinstance(r, V._methods.Vector):
            # an object-backend result; when a NumPy array was only a secondary argument (axis of rotate_axis) its
            # coordinates are one-element arrays
            coords = list(r.azimuthal.elements) + (list(r.longitudinal.elements) if hasattr(r, "longitudinal") else []) \
                + (list(r.temporal.elements) if hasattr(r, "temporal") else [])
            arr = any(isinstance(c, numpy.ndarray) for c in coords)
            if arr and not all((not isinstance(c, numpy.ndarray)) or c.shape == (1,) for c in coords):
                return {"kind": "other", "what": "object vector holding arrays of unexpected shape"}
            from vector._methods import _aztype, _ltype, _ttype
            systems = [t3.t1.SIGN[_aztype(r).__name__]] + ([t3.t1.SIGN[_ltype(r).__name__]] if hasattr(r, "longitudinal") else []) \
                + ([t3.t1.SIGN[_ttype(r).__name__]] if hasattr(r, "temporal") else [])
            return {"kind": "vector", "backend": "object-of-arrays" if arr else "object", "cls": type(r).__name__, "systems": systems,
                    "coords": [t3.ser(c[0] if isinstance(c, numpy.ndarray) else c) for c in coords]}
        if isinstance(r, tuple):
            return {"kind": "other", "what": "tuple"}
        return {"kind": "scalar", "backend": "object", "expr": t3.ser(r)}

    def evaluate(self, text, vecs, kinds, extra_env=None):
        env = {n: S.Sym("var", "kw_" + n) for n in t5run.SCALARS}
        if any(k == "numpy" for k in kinds.values()):
            # scalar arguments of NumPy calls are given as one-element object arrays (a bare Sym looks like a sequence to NumPy)
            env = {n: numpy.array([v], dtype=object) for n, v in env.items()}
            extra_env = {n: numpy.array([v], dtype=object) for n, v in (extra_env or {}).items()}
        env.update(np=numpy, vector=self.vector)
        env.update(extra_env or {})
        code = t5run.compile_text(text, "py")

        def thunk():
            loc = dict(env)
            for n, (d, names, mom) in vecs.items():
                loc[n] = {"numpy": self.make_np, "sympy": self.make_sp}.get(kinds[n], self.A.make)(d, names, mom, n)
            return eval(code, {"__builtins__": {"abs": abs}}, loc)
        try:
            r = thunk()
        except S.TraceAbort as e:
            return {"kind": "abort", "msg": str(e)[:300]}
        except Exception as e:
            return {"kind": "raise", "exc": type(e).__name__}
        try:
            return self.describe(r)
        except S.TraceAbort as e:
            return {"kind": "abort", "msg": "describe: " + str(e)[:300]}
        except Exception as e:
            return {"kind": "other", "what": f"describe failed: {type(e).__name__}: {e}"[:300]}


LKW = ["z", "pz", "theta", "eta"]
TKW = ["t", "e", "E", "energy", "tau", "m", "M", "mass"]


def run():
    R = Runner()
    V = R.vector
    recs = []
    srcs = [(d, n, m) for d in (2, 3, 4) for n in t3.SYS[d] for m in (False, True)]

    def key(s):
        return {"dim": s[0], "sys": list(s[1]), "momentum": s[2]}

    sp_recs = []

    def add_sp(fam, name, text, vecs, kw=()):
        kwenv = {k: S.Sym("var", "kw_" + k) for k in kw}
        kwsuf = ("__kw_" + "_".join(kw)) if kw else ""
        sp_recs.append({"fam": fam, "name": name + kwsuf, "method": name, "text": text, "kw": list(kw), "pairing": ["sympy"] * len(vecs), "srcs": [key(vecs[n]) for n in sorted(vecs)],
                        "np": R.evaluate(text, vecs, {n: "sympy" for n in vecs}, kwenv), "py": R.evaluate(text, vecs, {n: "object" for n in vecs}, kwenv)})

    def add(fam, name, text, vecs, pairing, kw=()):
        kinds_np = dict(zip(sorted(vecs), pairing))
        kinds_py = {n: "object" for n in vecs}
        kwenv = {k: S.Sym("var", "kw_" + k) for k in kw}
        suffix = "" if all(p_ == "numpy" for p_ in pairing) else "__" + "".join(p_[0] for p_ in pairing)
        kwsuf = ("__kw_" + "_".join(kw)) if kw else ""
        recs.append({"fam": fam, "name": name + kwsuf + suffix, "method": name, "text": text, "kw": list(kw), "pairing": list(pairing), "srcs": [key(vecs[n]) for n in sorted(vecs)],
                     "np": R.evaluate(text, vecs, kinds_np, kwenv), "py": R.evaluate(text, vecs, kinds_py, kwenv)})

    to_methods = sorted(n for n in dir(V.VectorObject4D) if n.startswith("to_") and n not in
                        ("to_Vector2D", "to_Vector3D", "to_Vector4D", "to_2D", "to_3D", "to_4D", "to_beta3"))
    getters = t5run.GETTERS
    unary = {k: v for k, v in t5run.UNARY.items()}
    for s in srcs:
        dim = s[0]
        for g in getters:
            add("getter", g, f"a.{g}", {"a": s}, ("numpy",))
            add_sp("getter", g, f"a.{g}", {"a": s})
        # field access by (synonym) name: the stored column (only names of STORED coordinates: a["x"] of a rho-phi array is no field)
        stored = set(s[1])
        for g in ("x", "y", "rho", "phi", "z", "theta", "eta", "t", "tau", "px", "py", "pt", "pz", "E", "e", "energy", "M", "m", "mass"):
            if GEN.get(g, g) in stored:
                recs.append({"fam": "getter", "name": "field_" + g, "method": "field", "text": f'a["{g}"]', "kw": [], "pairing": ["numpy"], "srcs": [key(s)],
                             "np": R.evaluate(f'a["{g}"]', {"a": s}, {"a": "numpy"}), "py": R.evaluate(f"a.{g}", {"a": s}, {"a": "object"})})
        recs.append({"fam": "getter", "name": "index0", "method": "index0", "text": "a[0]", "kw": [], "pairing": ["numpy"], "srcs": [key(s)],
                     "np": R.evaluate("a[0]", {"a": s}, {"a": "numpy"}), "py": R.evaluate("a", {"a": s}, {"a": "object"})})
        for m in to_methods:
            params = [p for p in inspect.signature(getattr(V.VectorObject4D, m)).parameters if p != "self"]
            choices = [()] + [(p,) for p in params] + ([tuple(params)] if len(params) == 2 else [])
            for ch in choices:
                add("conversion", m, f"a.{m}(" + ", ".join(f"{p}={p}" for p in ch) + ")", {"a": s}, ("numpy",), kw=ch)
                add_sp("conversion", m, f"a.{m}(" + ", ".join(f"{p}={p}" for p in ch) + ")", {"a": s}, kw=ch)
        for m in ("to_Vector2D", "to_Vector3D", "to_Vector4D", "to_2D", "to_3D", "to_4D"):
            tgt = int(m[-2])
            base = [()]
            if tgt > dim:
                singles = ([(k,) for k in LKW] if (tgt >= 3 and dim < 3) else []) + ([(k,) for k in TKW] if (tgt == 4 and dim < 4) else [])
                pairs = [(a, b) for a in LKW for b in ("t", "E", "tau", "mass")] if (tgt == 4 and dim == 2) else []
                base = [()] + singles + pairs
            for ch in base:
                add("conversion", m, f"a.{m}(" + ", ".join(f"{p}={p}" for p in ch) + ")", {"a": s}, ("numpy",), kw=ch)
                add_sp("conversion", m, f"a.{m}(" + ", ".join(f"{p}={p}" for p in ch) + ")", {"a": s}, kw=ch)
        for nm, t in unary.items():
            add("unary", nm, t.format(v="a"), {"a": s}, ("numpy",))
            if not nm.startswith("np_"):
                add_sp("unary", nm, t.format(v="a"), {"a": s})
        # in-place operators of the SymPy backend (its _replace_data re-expresses the result in the operand's own system)
        for nm, t in (("imul", "a.__imul__(k1)"), ("itruediv", "a.__itruediv__(k1)")):
            add_sp("unary", nm, t, {"a": s})
    for s1, s2 in itertools.product(srcs, srcs):
        (d1, n1, m1), (d2, n2, m2) = s1, s2
        if d1 != d2 and (n1 != t3.SYS[d1][-1] or n2 != t3.SYS[d2][0]):
            continue
        for nm, t in t5run.BINARY.items():
            typed = nm in t5run.TYPED_BIN
            if d1 == d2 and not typed and (m1 or m2):
                continue
            # pairings: NumPy x NumPy everywhere; the mixed ones on the result-typing methods and on one representative system pair
            pairings = [("numpy", "numpy")]
            if typed and (n1 == t3.SYS[d1][0] or n2 == t3.SYS[d2][-1] or d1 != d2):
                pairings += [("numpy", "object"), ("object", "numpy")]
            for pr in pairings:
                add("binary", nm, t.format(a="a", b="b"), {"a": s1, "b": s2}, pr)
            if not nm.startswith("np_") and (d1 != d2 or n1 == t3.SYS[d1][(len(n2) + d2) % len(t3.SYS[d1])] or n2 == t3.SYS[d2][0] or typed and n1 == t3.SYS[d1][-1]):
                add_sp("binary", nm, t.format(a="a", b="b"), {"a": s1, "b": s2})
        if d1 == d2 and not m2 and (n2 == t3.SYS[d2][0] or n2 == t3.SYS[d2][-1] or n1 == n2):
            for nm, t in (("iadd", "a.__iadd__(b)"), ("isub", "a.__isub__(b)")):
                add_sp("binary", nm, t, {"a": s1, "b": s2})
    return recs, sp_recs


class _Tag:
    """records the order in which NumPy's reduction combines the elements"""

    def __init__(self, idx):
        self.idx = list(idx)

    def __add__(self, o):
        return _Tag(self.idx + o.idx)

    __radd__ = lambda self, o: self if o == 0 else _Tag(o.idx + self.idx)  # noqa: E731


REDUCE = {
    (3,): ["np.sum(a, axis=0, keepdims=True)", "a.sum(axis=0, keepdims=True)", "np.sum(a, keepdims=True)", "np.sum(a, axis=-1, keepdims=True)"],
    (2, 2): ["np.sum(a, axis=0)", "np.sum(a, axis=1)", "np.sum(a, axis=-1, keepdims=True)", "a.sum(axis=0, keepdims=True)", "np.sum(a, keepdims=True)",
             "a.sum(axis=1)", "np.sum(a, axis=(0, 1), keepdims=True)"],
    (1,): ["np.sum(a, axis=0, keepdims=True)"],
}


def run_reductions(R):
    """numpy.sum / .sum() of NumPy vector arrays of 1, 3 and 2x2 symbolic elements: every output element with the list of input
    elements NumPy combined into it, in order"""
    out = []
    V = R.vector
    srcs = [(d, n, m) for d in (2, 3, 4) for n in t3.SYS[d] for m in (False, True)]
    for (dim, names, mom) in srcs:
        keys = [MOM.get(n, n) if mom else n for n in names]
        for shape, progs in REDUCE.items():
            nel = int(numpy.prod(shape))
            for pi, text in enumerate(progs):
                cols = {}
                for i, k in enumerate(keys):
                    col = numpy.empty(nel, dtype=object)
                    for e in range(nel):
                        col[e] = S.Sym("var", f"{'abcd'[e]}{i}")
                    cols[k] = col.reshape(shape)
                a = V.array(cols)
                tags = numpy.empty(nel, dtype=object)
                for e in range(nel):
                    tags[e] = _Tag([e])
                tags = tags.reshape(shape)
                rec = {"src": {"dim": dim, "sys": list(names), "momentum": mom}, "shape": list(shape), "text": text, "prog": pi}
                try:
                    r = eval(text, {"np": numpy, "a": a})
                    order = eval(text.replace("a.sum(", "np.sum(tags, ").replace("np.sum(a", "np.sum(tags"), {"np": numpy, "tags": tags})
                    if not isinstance(r, R.VN.VectorNumpy) or r.shape != numpy.shape(order):
                        rec["out"] = {"kind": "other", "what": f"{type(r).__name__} shape {getattr(r, 'shape', None)} vs {numpy.shape(order)}"}
                    else:
                        gn = [GEN.get(n, n) for n in r.dtype.names]
                        systems = ["xy" if gn[0] == "x" else "rhophi"] + gn[2:]
                        flat = r.reshape(-1)
                        oflat = numpy.asarray(order, dtype=object).reshape(-1)
                        rec["out"] = {"kind": "elements", "cls": NP2OBJ.get(type(r).__name__, type(r).__name__), "systems": systems, "out_shape": list(r.shape),
                                      "elements": [{"whos": oflat[j].idx, "coords": [t3.ser(flat[n][j]) for n in r.dtype.names]} for j in range(flat.shape[0])]}
                except S.TraceAbort as e:
                    rec["out"] = {"kind": "abort", "msg": str(e)[:300]}
                except Exception as e:
                    rec["out"] = {"kind": "raise", "exc": type(e).__name__, "msg": str(e)[:200]}
                out.append(rec)
    return out


if __name__ == "__main__":
    recs, sp_recs = run()
    out = sys.argv[1] if len(sys.argv) > 1 else os.path.join(ROOT, "build", "npapi.json")
    json.dump(recs, open(out, "w"))
    json.dump(sp_recs, open(out.replace("npapi", "spapi"), "w"))
    red = run_reductions(Runner.last)
    json.dump(red, open(out.replace("npapi", "npreduce"), "w"))
    cnt, cnts = {}, {}
    for r in recs:
        cnt[r["fam"]] = cnt.get(r["fam"], 0) + 1
    for r in sp_recs:
        cnts[r["fam"]] = cnts.get(r["fam"], 0) + 1
    print(json.dumps({"records": cnt, "sympy_records": cnts, "reductions": len(red), "reduction_kinds": sorted({r["out"]["kind"] for r in red})}))
