"""Enumerate the public object API on symbolic vectors (T3) -> build/objapi.json.

Families: getters (all names), conversions (to_* x keyword choices, to_VectorND, to_ND, like), unary/binary
methods and operators (for result typing), setters and in-place operators."""
from __future__ import annotations

import inspect
import itertools
import json
import os
import sys

from . import symlib as S
from . import t3

ROOT = os.path.dirname(os.path.dirname(os.path.dirname(os.path.abspath(__file__))))
GETTERS = ["x", "y", "rho", "phi", "rho2", "z", "theta", "eta", "costheta", "cottheta", "mag", "mag2", "t", "t2", "tau",
           "tau2", "beta", "gamma", "rapidity", "px", "py", "pt", "pt2", "pz", "pseudorapidity", "p", "p2", "E", "e",
           "energy", "E2", "e2", "energy2", "M", "m", "mass", "M2", "m2", "mass2", "Et", "et", "transverse_energy",
           "Et2", "et2", "transverse_energy2", "Mt", "mt", "transverse_mass", "Mt2", "mt2", "transverse_mass2",
           "neg2D", "neg3D", "neg4D"]
LKW = ["z", "pz", "theta", "eta"]
TKW = ["t", "e", "E", "energy", "tau", "m", "M", "mass"]


def K(name):
    return S.Sym("var", "kw_" + name)


def sources(A):
    for dim in (2, 3, 4):
        for names in t3.SYS[dim]:
            for mom in (False, True):
                yield dim, names, mom


def src_key(dim, names, mom):
    return {"dim": dim, "sys": list(names), "momentum": mom}


def run():
    A = t3.ApiTracer()
    V = A.vector
    recs = {"getters": [], "conversions": [], "unary": [], "binary": [], "setters": [], "inplace": [], "constructors": []}
    to_methods = sorted(n for n in dir(V.VectorObject4D) if n.startswith("to_") and n not in
                        ("to_Vector2D", "to_Vector3D", "to_Vector4D", "to_2D", "to_3D", "to_4D", "to_beta3"))
    for dim, names, mom in sources(A):
        key = src_key(dim, names, mom)
        mk = lambda: A.make(dim, names, mom, "a")  # noqa: E731
        # ---- getters
        for g in GETTERS:
            recs["getters"].append({"src": key, "name": g, "out": A.call(lambda: getattr(mk(), g))})
        # ---- conversions to_<system>
        for m in to_methods:
            meth = getattr(mk(), m, None)
            params = [p for p in inspect.signature(getattr(V.VectorObject4D, m)).parameters if p != "self"]
            choices = [()] + [(p,) for p in params] + ([tuple(params)] if len(params) == 2 else [])
            for ch in choices:
                kw = {p: K(p) for p in ch}
                recs["conversions"].append({"src": key, "method": m, "kw": list(ch), "out": A.call(lambda: getattr(mk(), m)(**kw))})
        # ---- dimension changes
        for m in ("to_Vector2D", "to_Vector3D", "to_Vector4D", "to_2D", "to_3D", "to_4D"):
            base = [()]
            tgt = int(m[-2])
            if tgt > dim:
                singles = ([(k,) for k in LKW] if (tgt >= 3 and dim < 3) else []) + ([(k,) for k in TKW] if (tgt == 4 and dim < 4) else [])
                pairs = [(a, b) for a in LKW for b in ("t", "E", "tau", "mass")] if (tgt == 4 and dim == 2) else []
                clashes = [("z", "eta"), ("pz", "z"), ("t", "tau"), ("E", "e"), ("mass", "M")]
                clashes = [c for c in clashes if all((k in LKW and dim < 3 and tgt >= 3) or (k in TKW and tgt == 4 and dim < 4) for k in c)]
                base = [()] + singles + pairs + clashes
            for ch in base:
                kw = {p: K(p) for p in ch}
                recs["conversions"].append({"src": key, "method": m, "kw": list(ch), "out": A.call(lambda: getattr(mk(), m)(**kw))})
        for od in (2, 3, 4):
            other = A.make(od, t3.SYS[od][-1], not mom, "b")
            recs["conversions"].append({"src": key, "method": f"like{od}D", "kw": [], "out": A.call(lambda: mk().like(other))})
        # ---- unary methods and operators (result typing / operator == method)
        k = K("k")
        un = {"unit": lambda v: v.unit(), "neg": lambda v: -v, "pos": lambda v: +v, "abs": lambda v: abs(v), "pow2": lambda v: v ** 2,
              "scale": lambda v: v.scale(k), "mul": lambda v: v * k, "rmul": lambda v: k * v, "div": lambda v: v / k,
              "scale2D": lambda v: v.scale2D(k), "rotateZ": lambda v: v.rotateZ(k), "scale_m1": lambda v: v.scale(-1),
              "scale_inv": lambda v: v.scale(1 / k), "rho_m": lambda v: v.rho, "mag_m": lambda v: v.mag, "tau_m": lambda v: v.tau,
              "rho2_m": lambda v: v.rho2, "mag2_m": lambda v: v.mag2, "tau2_m": lambda v: v.tau2,
              "scale3D": lambda v: v.scale3D(k), "rotateX": lambda v: v.rotateX(k), "rotateY": lambda v: v.rotateY(k),
              "rotate_euler": lambda v: v.rotate_euler(K("k3"), K("k2"), K("k1"), "ZYX"), "rotate_nautical": lambda v: v.rotate_nautical(K("k1"), K("k2"), K("k3")),
              "rotate_euler_zyx": lambda v: v.rotate_euler(K("k3"), K("k2"), K("k1"), "zyx"), "rotate_euler_default": lambda v: v.rotate_euler(K("k1"), K("k2"), K("k3")), "rotate_euler_zxz": lambda v: v.rotate_euler(K("k1"), K("k2"), K("k3"), "zxz"),
              "rotate_quaternion": lambda v: v.rotate_quaternion(k, k, k, k),
              "boostX_beta": lambda v: v.boostX(beta=k), "boostX_gamma": lambda v: v.boostX(gamma=k), "boostX_both": lambda v: v.boostX(beta=k, gamma=k),
              "boostX_none": lambda v: v.boostX(), "boostZ_beta": lambda v: v.boostZ(beta=k),
              "to_beta3": lambda v: v.to_beta3(), "is_timelike": lambda v: v.is_timelike(), "scale4D": lambda v: v.scale4D(k)}
        for nm, f in un.items():
            recs["unary"].append({"src": key, "name": nm, "out": A.call(lambda: f(mk()))})
        # ---- setters
        setn = ["x", "y", "rho", "phi", "z", "theta", "eta", "t", "tau", "px", "py", "pt", "pz", "E", "e", "energy", "M", "m", "mass"]
        for s_ in setn:
            def do():
                v = mk()
                setattr(v, s_, K("new"))
                return v
            recs["setters"].append({"src": key, "name": s_, "out": A.call(do)})
    # ---- binary: method x all source pairs (same and different dimensions), flavors of both operands
    binm = {"add": lambda a, b: a.add(b), "+": lambda a, b: a + b, "subtract": lambda a, b: a.subtract(b), "-": lambda a, b: a - b,
            "dot": lambda a, b: a.dot(b), "@": lambda a, b: a @ b, "equal": lambda a, b: a.equal(b), "==": lambda a, b: a == b,
            "not_equal": lambda a, b: a.not_equal(b), "!=": lambda a, b: a != b, "isclose": lambda a, b: a.isclose(b),
            "is_parallel": lambda a, b: a.is_parallel(b), "is_antiparallel": lambda a, b: a.is_antiparallel(b),
            "is_perpendicular": lambda a, b: a.is_perpendicular(b), "cross": lambda a, b: a.cross(b),
            "deltaphi": lambda a, b: a.deltaphi(b), "deltaR": lambda a, b: a.deltaR(b), "deltaangle": lambda a, b: a.deltaangle(b),
            "rotate_axis": lambda a, b: a.rotate_axis(b, K("k")), "boost_p4": lambda a, b: a.boost_p4(b), "boost_beta3": lambda a, b: a.boost_beta3(b),
            "boost": lambda a, b: a.boost(b), "boostCM_of": lambda a, b: a.boostCM_of(b), "boostCM_of_p4": lambda a, b: a.boostCM_of_p4(b),
            "deltaRapidityPhi": lambda a, b: a.deltaRapidityPhi(b)}
    srcs = list(sources(A))
    for (d1, n1, m1), (d2, n2, m2) in itertools.product(srcs, srcs):
        a_key, b_key = src_key(d1, n1, m1), src_key(d2, n2, m2)
        # full lattice for same dimension; for different dimensions one representative system pair per (dim,dim,flavors)
        if d1 != d2 and (n1 != t3.SYS[d1][-1] or n2 != t3.SYS[d2][0]):
            continue
        for nm, f in binm.items():
            if d1 == d2 and nm not in ("add", "+", "subtract", "-", "dot", "@", "equal", "==", "not_equal", "!=", "boost_p4", "boost_beta3", "boost", "cross", "rotate_axis") and (m1 or m2):
                continue   # flavor does not enter scalar results: keep the lattice small
            recs["binary"].append({"a": a_key, "b": b_key, "name": nm,
                                   "out": A.call(lambda: f(A.make(d1, n1, m1, "a"), A.make(d2, n2, m2, "b")))})
    # ---- in-place operators
    for (d1, n1, m1) in srcs:
        for (d2, n2, m2) in srcs:
            if d1 != d2 and (n2 != t3.SYS[d2][0]):
                continue
            if d1 == d2 and m2 and n2 != t3.SYS[d2][1]:
                continue
            for op in ("+=", "-="):
                def do():
                    a, b = A.make(d1, n1, m1, "a"), A.make(d2, n2, m2, "b")
                    a0 = a
                    try:
                        if op == "+=":
                            a += b
                        else:
                            a -= b
                    except S.TraceAbort:
                        raise
                    except Exception as e:
                        return (a0, True, type(e).__name__)
                    return (a, a is a0, "")
                recs["inplace"].append({"a": src_key(d1, n1, m1), "b": src_key(d2, n2, m2), "op": op, "out": A.call(do)})
        for op in ("*=", "/="):
            def do2():
                a = A.make(d1, n1, m1, "a")
                a0 = a
                if op == "*=":
                    a *= K("k")
                else:
                    a /= K("k")
                return (a, a is a0, "")
            recs["inplace"].append({"a": src_key(d1, n1, m1), "b": None, "op": op, "out": A.call(do2)})
    return recs


def describe_tuple_fix(recs):
    # (vector, identity-flag) tuples of the in-place family: flatten
    for r in recs["inplace"]:
        o = r["out"]
        if o.get("kind") == "tuple":
            vec, flag, exc = o["items"]
            vec["same_object"] = flag.get("expr") == ["constb", True]
            r["raised"] = exc.get("expr", ["str", ""])[1] if exc.get("kind") == "scalar" else ""
            r["out"] = vec


if __name__ == "__main__":
    recs = run()
    describe_tuple_fix(recs)
    out = sys.argv[1] if len(sys.argv) > 1 else os.path.join(ROOT, "build", "objapi.json")
    json.dump(recs, open(out, "w"))
    print(json.dumps({k: len(v) for k, v in recs.items()}))
