"""T1-validation: replay the IR with an independent interpreter over numpy float64 and
compare bit for bit with the original Python compute functions (translator validation,
not a proof).  Same operations in the same order => identical bits."""
from __future__ import annotations

import math
import random
import struct

import numpy

STRATA = ["generic", "negative", "small", "large", "axis", "pi_multiples", "zero"]


def bits(x):
    if isinstance(x, (bool, numpy.bool_)):
        return ("b", bool(x))
    x = float(x)
    if math.isnan(x):
        return ("nan",)
    return ("f", struct.pack("<d", x))


def gen_value(rng, stratum, pname):
    if pname == "equal_nan":
        return rng.random() < 0.5
    if stratum == "generic":
        return rng.uniform(0.1, 3.0)
    if stratum == "negative":
        return rng.uniform(-3.0, 3.0)
    if stratum == "small":
        return rng.uniform(-1e-6, 1e-6)
    if stratum == "large":
        return rng.uniform(-1e6, 1e6)
    if stratum == "axis":
        return rng.choice([0.0, 1.0, -1.0, rng.uniform(-2, 2)])
    if stratum == "pi_multiples":
        return rng.choice([0.0, math.pi, -math.pi, math.pi / 2, 2 * math.pi, rng.uniform(-7, 7)])
    return 0.0


class Interp:
    def __init__(self, ir):
        self.fns = ir["functions"]

    def call(self, name, args):
        f = self.fns[name]
        env = dict(zip(f["params"], args))
        vals = [None] * len(f["nodes"])
        np = numpy
        for i, nd in enumerate(f["nodes"]):
            op = nd[0]
            a = [vals[j] for j in nd[1:] if isinstance(j, int) and not isinstance(j, bool)]
            if op == "var":
                v = env[nd[1]]
            elif op == "const":
                n, d = int(nd[1]), int(nd[2])
                v = n if d == 1 else n / d
            elif op == "constb":
                v = nd[1]
            elif op == "pi":
                v = np.pi
            elif op == "inf":
                v = math.inf
            elif op == "ninf":
                v = -math.inf
            elif op == "nan":
                v = math.nan
            elif op == "none":
                v = None
            elif op == "add":
                v = a[0] + a[1]
            elif op == "sub":
                v = a[0] - a[1]
            elif op == "mul":
                v = a[0] * a[1]
            elif op == "div":
                v = a[0] / a[1]
            elif op == "mod":
                v = a[0] % a[1]
            elif op == "pow":
                v = a[0] ** a[1]
            elif op == "neg":
                v = -a[0]
            elif op == "and":
                v = a[0] & a[1]
            elif op == "or":
                v = a[0] | a[1]
            elif op == "eq":
                v = a[0] == a[1]
            elif op == "ne":
                v = a[0] != a[1]
            elif op == "lt":
                v = a[0] < a[1]
            elif op == "gt":
                v = a[0] > a[1]
            elif op == "nan_to_num":
                v = np.nan_to_num(a[0], nan=a[1], posinf=a[2], neginf=a[3])
            elif op == "isclose":
                v = np.isclose(a[0], a[1], a[2], a[3], a[4])
            elif op == "call":
                v = self.call(nd[1], [vals[j] for j in nd[2:]])
            elif op == "proj":
                v = vals[nd[2]][nd[1]]
            else:
                v = getattr(np, op)(*a)
            vals[i] = v
        outs = [vals[o] for o in f["outs"]]
        return tuple(outs) if f["tuple"] else outs[0]


def validate(ir, tracer, seed=0, per_fn=7):
    """tracer: the t1.Tracer whose .funcs hold the ORIGINAL function objects."""
    rng = random.Random(seed)
    it = Interp(ir)
    n_eval = 0
    hist = {s: 0 for s in STRATA}
    bad = []
    samples = []
    with numpy.errstate(all="ignore"):
        for fn, name in tracer.funcs.values():
            params = tracer.params[name]
            for k in range(per_fn):
                st = STRATA[k % len(STRATA)]
                args = [numpy.float64(gen_value(rng, st, p)) if p != "equal_nan" else gen_value(rng, st, p)
                        for p in params]
                hist[st] += 1
                try:
                    want = fn(numpy, *args)
                    werr = None
                except Exception as e:  # the original raising is compared too
                    want, werr = None, type(e).__name__
                try:
                    got = it.call(name, args)
                    gerr = None
                except Exception as e:
                    got, gerr = None, type(e).__name__
                n_eval += 1
                if werr or gerr:
                    ok = werr == gerr
                else:
                    w = want if isinstance(want, tuple) else (want,)
                    g = got if isinstance(got, tuple) else (got,)
                    ok = len(w) == len(g) and all(bits(x) == bits(y) for x, y in zip(w, g))
                if not ok:
                    bad.append({"function": name, "args": [float(a) for a in args], "python": repr(want or werr),
                                "ir": repr(got or gerr)})
                elif len(samples) < 3 and k == 1:
                    samples.append({"function": name, "args": [float(a) for a in args], "result": repr(want)})
    return {"evaluations": n_eval, "functions": len(tracer.funcs), "strata": hist, "mismatches": bad[:20],
            "n_mismatches": len(bad), "samples": samples}
