"""Symbolic values and the recording `lib` used to trace scikit-hep/vector.

A `Sym` records the operations applied to it; anything that would need the
*value* (bool(), float(), int(), index, iteration, len) raises, so
value-dependent control flow aborts a trace (fail-closed).
"""
from __future__ import annotations

import fractions
import math
import numbers

import numpy


class TraceAbort(TypeError):
    pass


class Sym:
    __slots__ = ("op", "args")

    def __init__(self, op, *args):
        self.op, self.args = op, args

    def __repr__(self):
        if self.op == "var":
            return str(self.args[0])
        if self.op == "const":
            return repr(self.args[0])
        return f"{self.op}({', '.join(map(repr, self.args))})"

    def _no(self, *a, **k):
        raise TraceAbort(f"value-dependent use of symbolic value {self!r}")

    __bool__ = __float__ = __int__ = __index__ = __iter__ = __len__ = _no
    __complex__ = __round__ = __floor__ = __ceil__ = __trunc__ = _no

    def __hash__(self):
        return id(self)


def lift(x):
    if isinstance(x, Sym):
        return x
    if x is None:
        return Sym("none")
    if isinstance(x, (bool, numpy.bool_)):
        return Sym("constb", bool(x))
    if isinstance(x, (int, float, numpy.integer, numpy.floating)):
        x = x.item() if isinstance(x, numpy.generic) else x
        if isinstance(x, float):
            if math.isinf(x):
                return Sym("inf") if x > 0 else Sym("ninf")
            if math.isnan(x):
                return Sym("nan")
        return Sym("const", x)
    raise TraceAbort(f"cannot lift {type(x)} into a symbolic value")


def _liftable(x):
    return x is None or isinstance(x, (Sym, bool, int, float, numpy.bool_, numpy.integer, numpy.floating))


def _bin(name):
    def f(a, b):
        if not _liftable(b):
            return NotImplemented      # e.g. number * vector: defer to the vector's reflected operator
        return Sym(name, lift(a), lift(b))

    def r(a, b):
        if not _liftable(b):
            return NotImplemented
        return Sym(name, lift(b), lift(a))

    return f, r


for _py, _nm in [("add", "add"), ("sub", "sub"), ("mul", "mul"), ("truediv", "div"),
                 ("pow", "pow"), ("mod", "mod"), ("and", "and"), ("or", "or")]:
    _f, _r = _bin(_nm)
    setattr(Sym, f"__{_py}__", _f)
    setattr(Sym, f"__r{_py}__", _r)
for _py, _nm in [("eq", "eq"), ("ne", "ne"), ("lt", "lt"), ("gt", "gt")]:
    setattr(Sym, f"__{_py}__", _bin(_nm)[0])
# `<=`, `>=`, `|`, `^`, `~`, `//`, abs() are not part of the compute vocabulary:
for _py in ("le", "ge", "xor", "rxor", "invert", "floordiv", "rfloordiv", "abs",
            "lshift", "rshift", "matmul", "divmod", "getitem"):
    setattr(Sym, f"__{_py}__", Sym._no)
Sym.__neg__ = lambda a: Sym("neg", a)
Sym.__pos__ = lambda a: a
numbers.Real.register(Sym)

UNARY = ("sqrt", "exp", "log", "sin", "cos", "tan", "arcsin", "arccos", "arctan", "sinh", "cosh",
         "tanh", "arcsinh", "arccosh", "arctanh", "absolute", "sign")
BINARY = ("arctan2", "copysign", "maximum", "minimum")


class TraceLib:
    """Stands in for numpy / SympyLib as the `lib` argument."""

    pi = Sym("pi")
    inf = Sym("inf")
    nan = Sym("nan")

    def __getattr__(self, name):
        if name in UNARY:
            return lambda a: Sym(name, lift(a))
        if name in BINARY:
            return lambda a, b: Sym(name, lift(a), lift(b))
        raise AttributeError(f"lib.{name} is not in the traced vocabulary")

    def nan_to_num(self, v, nan=0.0, posinf=None, neginf=None):
        return Sym("nan_to_num", lift(v), lift(nan), lift(posinf), lift(neginf))

    def isclose(self, a, b, rtol, atol, equal_nan):
        return Sym("isclose", lift(a), lift(b), lift(rtol), lift(atol), lift(equal_nan))

    def __eq__(self, o):
        return isinstance(o, TraceLib)

    def __ne__(self, o):
        return not isinstance(o, TraceLib)

    def __hash__(self):
        return 7


def frac(v):
    fr = fractions.Fraction(v)
    return fr.numerator, fr.denominator
