"""T5 — symbolic execution of the Numba overload layer (vector/backends/_numba_object.py) at TYPING level.

The overload layer is ordinary Python that runs when Numba types a call: an `overloader(v1, v2, ...)` receives Numba
*types*, picks compute functions / coordinate getters / result classes, and returns an `impl` closure that Numba then
compiles.  T5 captures every registration (`overload_method`, `overload_attribute`, `overload`, `type_callable`),
resolves attributes the way `numba.core.typing.context` does (MRO of the type class, registration order, first
match), calls the real overloader with the real Numba types, and then *runs the impl it returns* on proxy vectors
whose coordinates are `Sym` variables.  Inside the impl
    * `@numba.jit` helpers (coordinate getters, make_* helpers) are replaced by their `py_func`, rebuilt the same way;
    * compute functions are the T1 recording wrappers (a call becomes a `call <generated name>` node);
    * `VectorObjectND(...)` / `MomentumObjectND(...)` go through the registered `type_callable` typer;
    * `numpy.<ufunc>(vector, ...)`, Python operators and `vector.obj(...)` go back through the registry;
    * a value-dependent branch on a symbolic value aborts (fail-closed).
The result has the same shape as a T3 record (class, coordinate systems, field expressions / scalar expression /
exception kind), so Coq can compare the compiled-path outcome with the interpreter outcome point by point.

Nothing is compiled here; `tools/props/C07.py` validates this executor against real `numba.njit` probes.
"""
from __future__ import annotations

import inspect
import operator
import types

from . import symlib as S
from . import t3

REG = {"method": [], "attr": [], "func": [], "tc": [], "attrwrap": []}
_installed = [False]


def install_capture():
    """must run before vector.backends._numba_object is imported"""
    if _installed[0]:
        return
    import sys
    if "vector.backends._numba_object" in sys.modules:
        raise RuntimeError("T5: _numba_object imported before the capture was installed")
    import numba.extending as NE
    _om, _oa, _o, _tc, _maw = NE.overload_method, NE.overload_attribute, NE.overload, NE.type_callable, NE.make_attribute_wrapper

    def om(typ, name, **kw):
        dec = _om(typ, name, **kw)

        def d(f):
            REG["method"].append((typ, name, f, dict(kw)))
            return dec(f)
        return d

    def oa(typ, name, **kw):
        dec = _oa(typ, name, **kw)

        def d(f):
            REG["attr"].append((typ, name, f, dict(kw)))
            return dec(f)
        return d

    def o(func, **kw):
        dec = _o(func, **kw)

        def d(f):
            REG["func"].append((func, f, dict(kw)))
            return dec(f)
        return d

    def tc(func):
        dec = _tc(func)

        def d(f):
            REG["tc"].append((func, f))
            return dec(f)
        return d

    def maw(typ, s, a):
        REG["attrwrap"].append((typ, s, a))
        return _maw(typ, s, a)

    NE.overload_method, NE.overload_attribute, NE.overload, NE.type_callable, NE.make_attribute_wrapper = om, oa, o, tc, maw
    _installed[0] = True


class NbTypingError(Exception):
    """the compiled path would fail to type (numba.TypingError / no matching overload)"""


class NbVec:
    """proxy of a vector inside compiled code: a Numba type + coordinate namedtuples holding Sym values"""
    __slots__ = ("nbtype", "azimuthal", "longitudinal", "temporal", "_ex")

    def __init__(self, ex, nbtype, azimuthal, longitudinal=None, temporal=None):
        object.__setattr__(self, "_ex", ex)
        object.__setattr__(self, "nbtype", nbtype)
        object.__setattr__(self, "azimuthal", azimuthal)
        object.__setattr__(self, "longitudinal", longitudinal)
        object.__setattr__(self, "temporal", temporal)

    def __setattr__(self, k, v):
        raise NbTypingError("vector objects are immutable in compiled code")

    def __getattr__(self, name):
        if name.startswith("__"):
            raise AttributeError(name)
        return self._ex.getattr(self, name)

    def __getattribute__(self, name):
        if name in ("longitudinal", "temporal"):
            v = object.__getattribute__(self, name)
            if v is None:
                raise NbTypingError(f"no attribute {name} on {object.__getattribute__(self, 'nbtype')}")
            return v
        return object.__getattribute__(self, name)

    def __bool__(self):
        raise S.TraceAbort("truth value of a vector proxy")

    __hash__ = None


def _binop(op, reflected=False):
    def f(a, b):
        ex = a._ex
        r = ex.call_function(op, (b, a) if reflected else (a, b), {})
        return r
    return f


for _n, _op in [("add", operator.add), ("sub", operator.sub), ("mul", operator.mul), ("truediv", operator.truediv),
                ("pow", operator.pow), ("matmul", operator.matmul), ("eq", operator.eq), ("ne", operator.ne)]:
    setattr(NbVec, f"__{_n}__", _binop(_op))
for _n, _op in [("add", operator.add), ("sub", operator.sub), ("mul", operator.mul), ("truediv", operator.truediv),
                ("matmul", operator.matmul)]:
    setattr(NbVec, f"__r{_n}__", _binop(_op, True))
NbVec.__neg__ = lambda a: a._ex.call_function(operator.neg, (a,), {})
NbVec.__pos__ = lambda a: a._ex.call_function(operator.pos, (a,), {})
NbVec.__abs__ = lambda a: a._ex.call_function(abs, (a,), {})


class Lit:
    """a compile-time constant appearing in the program text (typed Literal first / second as Numba does)"""
    __slots__ = ("value",)

    def __init__(self, value):
        self.value = value


class Executor:
    def __init__(self):
        install_capture()
        self.A = t3.ApiTracer()               # re-wires the compute layer to recording wrappers
        import numba
        import numpy
        import vector
        import vector.backends._numba_object as NO
        self.numba, self.numpy, self.vector, self.NO = numba, numpy, vector, NO
        self.O = self.A.O
        self.lib = S.TraceLib()
        self.wr = {}
        for m in self.A.tr.mods:
            for sig, val in m.dispatch_map.items():
                w = val[0]
                raw = getattr(w, "__wrapped_compute__", None)
                if raw is not None:
                    self.wr[id(raw)] = w
        self.vec_classes = {self.O.VectorObject2D, self.O.VectorObject3D, self.O.VectorObject4D,
                            self.O.MomentumObject2D, self.O.MomentumObject3D, self.O.MomentumObject4D}
        self.vectypes = (NO.VectorObject2DType, NO.VectorObject3DType, NO.VectorObject4DType)
        self.tc = {}
        for cls, typer_factory in REG["tc"]:
            self.tc[cls] = typer_factory(None)
        self.attr_index = {}
        for kind in ("attr", "method"):
            for typ, name, f, kw in REG[kind]:
                self.attr_index.setdefault((typ, name), []).append((kind, f, kw))
        self.func_index = {}
        for func, f, kw in REG["func"]:
            self.func_index.setdefault(id(func), []).append((f, kw))
        self._fn_cache = {}
        self._glob_cache = {}
        self.depth = 0
        self.stats = {"overloader_calls": 0, "impl_runs": 0, "pyfunc_runs": 0}

    # ------------------------------------------------------------------ types
    def coordtype(self, c):
        nb = self.numba
        return nb.types.NamedUniTuple(nb.float64, len(c), type(c))

    def typeof(self, v, literal=False):
        nb = self.numba
        if isinstance(v, NbVec):
            return v.nbtype
        if isinstance(v, S.Sym):
            return nb.boolean if v.op in t3.t1.BOOL_OPS else nb.float64
        if isinstance(v, Lit):
            if literal:
                return nb.types.literal(v.value)
            v = v.value
        if v is None:
            return nb.types.none
        if isinstance(v, bool):
            return nb.boolean
        if isinstance(v, int):
            return nb.int64
        if isinstance(v, float):
            return nb.float64
        if isinstance(v, str):
            return nb.types.unicode_type
        if isinstance(v, tuple) and hasattr(v, "_fields"):
            return self.coordtype(v)
        raise S.TraceAbort(f"T5: no Numba type for {type(v)}")

    def make_vec(self, dim, names, momentum, prefix):
        """a proxy whose stored coordinates are the variables <prefix>0.. (same naming as T3)"""
        v = [S.Sym("var", f"{prefix}{i}") for i in range(len(names))]
        cc = self.A.coordcls
        az = cc["".join(names[:2])](v[0], v[1])
        lg = cc[names[2]](v[2]) if dim >= 3 else None
        tm = cc[names[3]](v[3]) if dim == 4 else None
        NO = self.NO
        T = {(2, False): NO.VectorObject2DType, (2, True): NO.MomentumObject2DType, (3, False): NO.VectorObject3DType,
             (3, True): NO.MomentumObject3DType, (4, False): NO.VectorObject4DType, (4, True): NO.MomentumObject4DType}[(dim, momentum)]
        args = [self.coordtype(c) for c in (az, lg, tm) if c is not None]
        return NbVec(self, T(*args), az, lg, tm)

    # ------------------------------------------------------------------ substitution of impl environments
    def subst(self, o):
        nb = self.numba
        if isinstance(o, nb.core.dispatcher.Dispatcher):
            return self.pyfunc(o.py_func)
        if isinstance(o, type) and o in self.vec_classes:
            return self.ctor(o)
        if isinstance(o, types.FunctionType):
            if id(o) in self.wr:
                return self.wr[id(o)]
            return o
        if o is self.numpy:
            return NbNumpy(self)
        if o is self.vector:
            return NbVectorModule(self)
        return o

    def globals_for(self, g):
        k = id(g)
        if k not in self._glob_cache:
            ng = dict(g)
            self._glob_cache[k] = ng
            for n, o in g.items():
                so = self.subst(o) if not n.startswith("__") else o
                if so is not o:
                    ng[n] = so
            ng["__t5_orig__"] = g
            self._glob_cache[k] = ng
        return self._glob_cache[k]

    def rebuild(self, fn):
        closure = None
        if fn.__closure__:
            closure = tuple(types.CellType(self.subst(c.cell_contents)) for c in fn.__closure__)
        new = types.FunctionType(fn.__code__, self.globals_for(fn.__globals__), fn.__name__, fn.__defaults__, closure)
        new.__kwdefaults__ = fn.__kwdefaults__
        return new

    def pyfunc(self, fn):
        if id(fn) not in self._fn_cache:
            ex = self
            box = []

            def run(*a, **k):
                if not box:
                    box.append(ex.rebuild(fn))
                ex.stats["pyfunc_runs"] += 1
                return box[0](*a, **k)
            self._fn_cache[id(fn)] = (run, fn)
        return self._fn_cache[id(fn)][0]

    def ctor(self, cls):
        ex = self

        def construct(*coords):
            typer = ex.tc[cls]
            ts = [ex.typeof(c) for c in coords]
            try:
                rt = typer(*ts)
            except TypeError:
                rt = None
            if rt is None:
                raise NbTypingError(f"{cls.__name__}({', '.join(map(str, ts))}) does not type")
            return NbVec(ex, rt, *coords)
        construct.__name__ = cls.__name__
        return construct

    # ------------------------------------------------------------------ resolution (mirrors numba.core.typing.context)
    def fold(self, overloader, args, kwargs, literal):
        """Numba calls the overloader with the types of exactly the arguments given (defaults stay Python values)"""
        try:
            inspect.signature(overloader).bind(*args, **kwargs)
        except TypeError as e:
            raise NbTypingError(f"cannot bind arguments: {e}")
        unl = lambda v: v.value if isinstance(v, Lit) else v  # noqa: E731
        return ([self.typeof(v, literal) for v in args], {k: self.typeof(v, literal) for k, v in kwargs.items()},
                [unl(v) for v in args], {k: unl(v) for k, v in kwargs.items()})

    def apply_overload(self, overloader, kw, args, kwargs, method=False):
        """-> result of running the impl, trying non-literal then literal typing (prefer_literal=False) as Numba does"""
        nb = self.numba
        order = [True, False] if kw.get("prefer_literal") else [False, True]
        has_lit = any(isinstance(a, Lit) for a in list(args) + list(kwargs.values()))
        errs = []
        for uselit in order:
            if uselit and not has_lit and len(order) == 2 and order[0] is False:
                continue
            try:
                ts, kts, vals, kvals = self.fold(overloader, args, kwargs, uselit)
                self.stats["overloader_calls"] += 1
                impl = overloader(*ts, **kts)
            except nb.core.errors.NumbaError as e:
                errs.append(e)
                continue
            except NbTypingError as e:
                errs.append(e)
                continue
            except S.TraceAbort:
                raise
            except Exception as e:      # a non-Numba exception inside an overloader aborts compilation as well
                raise NbTypingError(f"overloader crashed: {type(e).__name__}: {e}")
            if impl is None:
                errs.append(NbTypingError("overload returned None"))
                continue
            if method:
                # overload_method: the lowering re-resolves the call with the FOLDED argument types (parameters not passed
                # arrive as Omitted(default)); the overloader has to succeed on those too or compilation fails
                sig = inspect.signature(overloader)
                ba = sig.bind(*args, **kwargs)
                fts = [self.typeof(ba.arguments[n_], uselit) if n_ in ba.arguments else nb.types.Omitted(p_.default)
                       for n_, p_ in sig.parameters.items()]
                if any(isinstance(t_, nb.types.Omitted) for t_ in fts):
                    try:
                        self.stats["overloader_calls"] += 1
                        impl2 = overloader(*fts)
                    except nb.core.errors.NumbaError as e:
                        errs.append(e)
                        continue
                    except S.TraceAbort:
                        raise
                    except Exception as e:
                        raise NbTypingError(f"overloader crashed on the folded arguments (lowering): {type(e).__name__}: {e}")
                    if impl2 is None:
                        errs.append(NbTypingError("overload returned None for the folded arguments"))
                        continue
            self.stats["impl_runs"] += 1
            self.depth += 1
            if self.depth > 12:
                raise S.TraceAbort("T5: overload recursion too deep")
            try:
                return True, self.rebuild(impl)(*vals, **kvals)
            finally:
                self.depth -= 1
        return False, errs

    def getattr(self, v, name):
        for cls in type(v.nbtype).__mro__:
            hits = self.attr_index.get((cls, name))
            if not hits:
                continue
            if len(hits) > 1:
                raise S.TraceAbort(f"T5: {cls.__name__}.{name} registered {len(hits)} times")
            kind, f, kw = hits[0]
            if kind == "attr":
                ok, r = self.apply_overload(f, kw, (v,), {})
                if not ok:
                    raise NbTypingError(f"attribute {name}: {r}")
                return r
            ex = self

            def bound(*a, **k):
                ok, r = ex.apply_overload(f, kw, (v,) + a, k, method=True)
                if not ok:
                    raise NbTypingError(f"method {name}: {r}")
                return r
            return bound
        raise NbTypingError(f"unknown attribute {name} of {v.nbtype}")

    def call_function(self, func, args, kwargs):
        hits = self.func_index.get(id(func), [])
        errs = []
        for f, kw in hits:
            ok, r = self.apply_overload(f, kw, args, kwargs)
            if ok:
                return r
            errs.append(r)
        raise NbTypingError(f"no overload of {getattr(func, '__name__', func)} matches: {errs}")


class NbNumpy:
    """`numpy` inside an impl: vector arguments go through the registered overloads, numbers through TraceLib"""

    def __init__(self, ex):
        self._ex = ex

    def __getattr__(self, name):
        ex = self._ex
        real = getattr(ex.numpy, name)
        if id(real) in ex.func_index:
            def f(*a, **k):
                if any(isinstance(x, NbVec) for x in a):
                    return ex.call_function(real, a, k)
                return getattr(ex.lib, name)(*a, **k)
            return f
        return getattr(ex.lib, name)


class NbVectorModule:
    def __init__(self, ex):
        self._ex = ex

    def obj(self, *a, **k):
        return self._ex.call_function(self._ex.vector.obj, a, k)

    def __getattr__(self, name):
        return getattr(self._ex.vector, name)


def describe(ex, r):
    """same record shape as t3.ApiTracer.describe"""
    if isinstance(r, NbVec):
        NO = ex.NO
        cls = r.nbtype.instance_class.__name__
        systems = [t3.t1.SIGN[NO.numba_aztype(r.nbtype).__name__]]
        coords = list(r.azimuthal)
        if isinstance(r.nbtype, (NO.VectorObject3DType, NO.VectorObject4DType)):
            systems.append(t3.t1.SIGN[NO.numba_ltype(r.nbtype).__name__])
            coords += list(r.longitudinal)
        if isinstance(r.nbtype, NO.VectorObject4DType):
            systems.append(t3.t1.SIGN[NO.numba_ttype(r.nbtype).__name__])
            coords += list(r.temporal)
        # the type decides the class of the boxed result; the coordinate objects must be of the typed classes
        tys = [r.nbtype.azimuthaltype] + ([r.nbtype.longitudinaltype] if len(systems) > 1 else []) + ([r.nbtype.temporaltype] if len(systems) > 2 else [])
        objs = [r.azimuthal] + ([r.longitudinal] if len(systems) > 1 else []) + ([r.temporal] if len(systems) > 2 else [])
        for t, o in zip(tys, objs):
            if t.instance_class is not type(o):
                raise S.TraceAbort(f"T5: coordinate object {type(o).__name__} under type {t}")
        return {"kind": "vector", "cls": cls, "systems": systems, "coords": [t3.ser(c) for c in coords]}
    if isinstance(r, tuple) and not hasattr(r, "_fields"):
        return {"kind": "tuple", "items": [describe(ex, x) for x in r]}
    return {"kind": "scalar", "expr": t3.ser(r)}


def call(ex, thunk):
    try:
        r = thunk()
    except S.TraceAbort as e:
        return {"kind": "abort", "msg": str(e)[:300]}
    except NbTypingError as e:
        return {"kind": "raise", "exc": "TypingError", "msg": str(e)[:300]}
    except ex.numba.core.errors.NumbaError as e:
        return {"kind": "raise", "exc": "TypingError", "msg": str(e)[:300]}
    return describe(ex, r)
