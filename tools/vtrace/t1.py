"""T1 — symbolic tracer of vector._compute (call-structure preserving).

Produces an IR (dict, JSON-serialisable) of every compute function reachable
from the three _compute packages, and the dispatch tables.  Fail-closed: any
construct outside the straight-line vocabulary raises.
"""
from __future__ import annotations

import ast
import inspect
import sys
import textwrap
import types

import numpy

from . import symlib as S

SIGN = {"AzimuthalXY": "xy", "AzimuthalRhoPhi": "rhophi", "LongitudinalZ": "z",
        "LongitudinalTheta": "theta", "LongitudinalEta": "eta", "TemporalT": "t", "TemporalTau": "tau"}
KIND = {"AzimuthalXY": "az", "AzimuthalRhoPhi": "az", "LongitudinalZ": "lg",
        "LongitudinalTheta": "lg", "LongitudinalEta": "lg", "TemporalT": "tm", "TemporalTau": "tm"}
NCOORD = {"az": 2, "lg": 1, "tm": 1}
BOOL_OPS = {"eq", "ne", "lt", "gt", "and", "or", "isclose", "constb"}
LEAF = {"var", "const", "constb", "pi", "inf", "ninf", "nan", "none"}


class TranslationError(Exception):
    pass


def _modules():
    import vector._compute.lorentz
    import vector._compute.planar
    import vector._compute.spatial

    pkgs = (vector._compute.planar, vector._compute.spatial, vector._compute.lorentz)
    mods = []
    for pk in pkgs:
        for _, m in sorted(inspect.getmembers(pk, inspect.ismodule)):
            if m.__name__.startswith(pk.__name__ + ".") and hasattr(m, "dispatch_map"):
                mods.append(m)
    return mods


def short(m):
    return m.__name__.replace("vector._compute.", "").replace(".", "_")


def signame(s):
    n = getattr(s, "__name__", None)
    if n in SIGN:
        return SIGN[n]
    if isinstance(s, str):
        return s
    raise TranslationError(f"unknown signature element {s!r}")


# ---------------------------------------------------------------- AST audit
ALLOWED_STMT = (ast.Assign, ast.Return, ast.Expr)


def audit_function(fn):
    """Enforce the straight-line rule on the source of one compute function."""
    try:
        src = textwrap.dedent(inspect.getsource(fn))
    except (OSError, TypeError) as e:  # pragma: no cover
        raise TranslationError(f"no source for {fn}: {e}")
    tree = ast.parse(src)
    fdef = tree.body[0]
    if not isinstance(fdef, ast.FunctionDef):
        raise TranslationError(f"{fn.__qualname__}: not a plain def")
    nret = 0
    for i, st in enumerate(fdef.body):
        if isinstance(st, ast.Expr) and isinstance(st.value, ast.Constant) and isinstance(st.value.value, str):
            continue  # docstring
        if isinstance(st, ast.Return):
            nret += 1
            if i != len(fdef.body) - 1:
                raise TranslationError(f"{fn.__qualname__}: return is not the last statement")
        elif not isinstance(st, (ast.Assign, ast.AugAssign)):
            # (an augmented assignment traces fine — Sym has no in-place operators — and is reported by purity_of, see C16)
            raise TranslationError(f"{fn.__qualname__}: statement {type(st).__name__} not allowed")
    if nret != 1:
        raise TranslationError(f"{fn.__qualname__}: {nret} return statements")
    for node in ast.walk(fdef):
        if isinstance(node, (ast.If, ast.For, ast.While, ast.Try, ast.With, ast.Lambda, ast.IfExp, ast.ListComp,
                             ast.DictComp, ast.SetComp, ast.GeneratorExp, ast.BoolOp, ast.Yield, ast.Await,
                             ast.Global, ast.Nonlocal, ast.Raise, ast.Assert, ast.Delete, ast.Import,
                             ast.ImportFrom, ast.NamedExpr)) and node is not fdef:
            raise TranslationError(f"{fn.__qualname__}: construct {type(node).__name__} not allowed")
        if isinstance(node, ast.FunctionDef) and node is not fdef:
            raise TranslationError(f"{fn.__qualname__}: nested def")
    return True


def purity_of(fn):
    """statement kinds of one compute function, for the purity table of C16: 'assign' (plain names / tuples of names bound to a new
    value), 'return', or what could write through an operand: 'augassign' (x op= ...), 'store' (assignment to a subscript or an
    attribute), 'out_kw' (a call with out=...)"""
    tree = ast.parse(textwrap.dedent(inspect.getsource(fn)))
    kinds = []
    for st in tree.body[0].body:
        if isinstance(st, ast.Expr) and isinstance(st.value, ast.Constant) and isinstance(st.value.value, str):
            continue
        if isinstance(st, ast.Return):
            k = "return"
        elif isinstance(st, ast.AugAssign):
            k = "augassign"
        elif isinstance(st, ast.Assign):
            def plain(t):
                return isinstance(t, ast.Name) or (isinstance(t, (ast.Tuple, ast.List)) and all(plain(e) for e in t.elts))
            k = "assign" if all(plain(t) for t in st.targets) else "store"
        else:
            k = "other"
        if any(isinstance(n, ast.Call) and any(kw.arg == "out" for kw in n.keywords) for n in ast.walk(st)):
            k = "out_kw"
        kinds.append(k)
    return kinds


# ---------------------------------------------------------------- tracing
class Tracer:
    def __init__(self):
        self.mods = _modules()
        self.funcs = {}  # id(fn) -> [fn, name]
        self.order = []
        self._collect()
        self.params = {n: list(inspect.signature(f).parameters)[1:] for f, n in self.funcs.values()}
        for f, n in self.funcs.values():
            if list(inspect.signature(f).parameters)[0] != "lib":
                raise TranslationError(f"{n}: first parameter is not lib")
            for p in inspect.signature(f).parameters.values():
                if p.kind != p.POSITIONAL_OR_KEYWORD or p.default is not p.empty:
                    raise TranslationError(f"{n}: parameter {p} not plain positional")
        self.active = [None]
        self.nret = {}
        self._probe()
        self._install()

    def _reg(self, fn, name):
        if isinstance(fn, types.FunctionType) and fn.__module__.startswith("vector._compute."):
            if id(fn) not in self.funcs:
                self.funcs[id(fn)] = [fn, name]
                return True
            if self.funcs[id(fn)][1] is None and name:
                self.funcs[id(fn)][1] = name
        return False

    def _reg_cells(self, fn):
        if fn.__closure__:
            for cell in fn.__closure__:
                try:
                    c = cell.cell_contents
                except ValueError:
                    continue
                if self._reg(c, None):
                    self._reg_cells(c)

    def _collect(self):
        for m in self.mods:
            for n, o in vars(m).items():
                if (n not in ("dispatch", "make_conversion", "make_function")
                        and isinstance(o, types.FunctionType) and o.__module__ == m.__name__):
                    self._reg(o, f"{short(m)}_{n}")
        for m in self.mods:
            for sig, val in m.dispatch_map.items():
                fn = val[0]
                if not isinstance(fn, types.FunctionType):
                    raise TranslationError(f"{m.__name__}{sig}: entry is not a function")
                if not fn.__module__.startswith("vector._compute."):
                    raise TranslationError(f"{m.__name__}{sig}: foreign function {fn.__module__}")
                self._reg(fn, None)
                if self.funcs[id(fn)][1] is None:
                    self.funcs[id(fn)][1] = short(m) + "__" + "_".join(signame(s) for s in sig)
                self._reg_cells(fn)
        k = 0
        for ent in self.funcs.values():
            if ent[1] is None:
                k += 1
                ent[1] = f"{ent[0].__module__.replace('vector._compute.', '').replace('.', '_')}__anon{k}"
        names = [n for _, n in self.funcs.values()]
        if len(set(names)) != len(names):
            raise TranslationError("duplicate generated names")

    def _probe(self):
        for f, n in self.funcs.values():
            out = f(S.TraceLib(), *[S.Sym("var", p) for p in self.params[n]])
            self.nret[n] = len(out) if isinstance(out, tuple) else 0

    def _mk(self, fn, name):
        tr = self

        def w(lib, *args):
            if tr.active[0] is not None and tr.active[0] is not fn:
                if any(isinstance(a, numpy.ndarray) for a in args):
                    # object-dtype arrays of symbolic values (symbolic execution of the NumPy backend): record elementwise
                    k = tr.nret[name]

                    def box(a):        # a bare symbolic scalar would be taken for a sequence by NumPy
                        if isinstance(a, numpy.ndarray):
                            return a
                        b = numpy.empty((), dtype=object)
                        b[()] = a
                        return b
                    return numpy.frompyfunc(lambda *xs: w(lib, *xs), len(args), max(k, 1))(*[box(a) for a in args])
                if len(args) != len(tr.params[name]):
                    raise TranslationError(f"call to {name} with {len(args)} args")
                r = S.Sym("call", name, *[S.lift(a) for a in args])
                k = tr.nret[name]
                return r if k == 0 else tuple(S.Sym("proj", i, r) for i in range(k))
            return fn(lib, *args)

        w.__wrapped_compute__ = fn
        return w

    def _install(self):
        wr = {i: self._mk(f, n) for i, (f, n) in self.funcs.items()}
        for m in self.mods:
            for n, o in list(vars(m).items()):
                if id(o) in wr:
                    setattr(m, n, wr[id(o)])
        for f, n in self.funcs.values():
            if f.__closure__:
                for cell in f.__closure__:
                    try:
                        if id(cell.cell_contents) in wr:
                            cell.cell_contents = wr[id(cell.cell_contents)]
                    except ValueError:
                        pass

    def trace(self, fn, n):
        self.active[0] = fn
        try:
            return fn(S.TraceLib(), *[S.Sym("var", p) for p in self.params[n]])
        finally:
            self.active[0] = None


def _to_ir(name, params, out):
    """Sym DAG -> node list with sharing."""
    outs = list(out) if isinstance(out, tuple) else [out]
    nodes, index = [], {}

    def go(s):
        s = S.lift(s)
        if id(s) in index:
            return index[id(s)]
        op = s.op
        if op == "var":
            node = ["var", s.args[0]]
        elif op == "const":
            n, d = S.frac(s.args[0])
            node = ["const", str(n), str(d)]
        elif op == "constb":
            node = ["constb", bool(s.args[0])]
        elif op in ("pi", "inf", "ninf", "nan", "none"):
            node = [op]
        elif op == "call":
            node = ["call", s.args[0]] + [go(a) for a in s.args[1:]]
        elif op == "proj":
            node = ["proj", s.args[0], go(s.args[1])]
        else:
            node = [op] + [go(a) for a in s.args]
        nodes.append(node)
        index[id(s)] = len(nodes) - 1
        return index[id(s)]

    oidx = [go(o) for o in outs]
    return {"name": name, "params": params, "nodes": nodes, "outs": oidx,
            "tuple": isinstance(out, tuple)}


def _infer_types(ir):
    """num / bln typing of params, nodes and results; functions in call order."""
    fns = ir["functions"]
    order = ir["order"]
    for n in order:
        f = fns[n]
        nodes = f["nodes"]
        ptype = {p: "num" for p in f["params"]}
        # pass 1: discover boolean parameters from use sites
        changed = True
        ntype = [None] * len(nodes)

        def tof(i):
            return ntype[i]

        for _ in range(3):
            for i, nd in enumerate(nodes):
                op = nd[0]
                if op == "var":
                    ntype[i] = ptype[nd[1]]
                elif op in BOOL_OPS:
                    ntype[i] = "bln"
                elif op == "call":
                    ntype[i] = ("tuple", fns[nd[1]]["rtypes"]) if fns[nd[1]]["tuple"] else fns[nd[1]]["rtypes"][0]
                elif op == "proj":
                    ntype[i] = ntype[nd[2]][1][nd[1]]
                elif op in ("none", "inf", "ninf", "nan"):
                    ntype[i] = "rpl"
                else:
                    ntype[i] = "num"
            for i, nd in enumerate(nodes):
                op = nd[0]
                want = []
                if op == "isclose":
                    want = [(nd[5], "bln")]
                elif op in ("and", "or"):
                    want = [(nd[1], "bln"), (nd[2], "bln")]
                elif op == "call":
                    want = list(zip(nd[2:], fns[nd[1]]["ptypes"]))
                for j, t in want:
                    if t == "bln" and nodes[j][0] == "var":
                        ptype[nodes[j][1]] = "bln"
        f["ptypes"] = [ptype[p] for p in f["params"]]
        f["ntypes"] = ntype
        f["rtypes"] = [ntype[o] for o in f["outs"]]
        for t in f["rtypes"]:
            if t not in ("num", "bln"):
                raise TranslationError(f"{n}: result of sort {t}")


def build_ir():
    tr = Tracer()
    audited = 0
    purity = {}
    for f, n in tr.funcs.values():
        audit_function(f)
        purity[n] = purity_of(f)
        audited += 1
    fns = {}
    for f, n in tr.funcs.values():
        fns[n] = _to_ir(n, tr.params[n], tr.trace(f, n))
        fns[n]["qualname"] = f"{f.__module__}.{f.__qualname__}"
    # call-dependency order
    deps = {n: sorted({nd[1] for nd in f["nodes"] if nd[0] == "call"}) for n, f in fns.items()}
    order, seen = [], set()

    def visit(n, stack=()):
        if n in seen:
            return
        if n in stack:
            raise TranslationError(f"recursive call cycle through {n}")
        for d in deps[n]:
            visit(d, stack + (n,))
        seen.add(n)
        order.append(n)

    for n in sorted(fns):
        visit(n)
    tables = {}
    for m in tr.mods:
        ents = []
        for sig, val in m.dispatch_map.items():
            fn, *ret = val
            name = tr.funcs[id(fn)][1]
            rets = []
            for r in ret:
                if r is None:
                    rets.append("None")
                elif r is float:
                    rets.append("float")
                elif r is bool:
                    rets.append("bool")
                elif getattr(r, "__name__", None) in SIGN:
                    rets.append(r.__name__)
                else:
                    raise TranslationError(f"{m.__name__}{sig}: unknown return {r!r}")
            ents.append({"sig": [getattr(s, "__name__", s) for s in sig], "fn": name, "returns": rets})
        tables[short(m)] = {"module": m.__name__, "entries": ents,
                            "dispatch_params": list(inspect.signature(m.dispatch).parameters)}
    ir = {"functions": fns, "order": order, "tables": tables, "audited": audited, "purity": purity}
    _infer_types(ir)
    return ir, tr


if __name__ == "__main__":
    import json
    ir, _ = build_ir()
    json.dump(ir, open(sys.argv[1], "w"))
    print(len(ir["functions"]), "functions", sum(len(t["entries"]) for t in ir["tables"].values()), "entries")
