"""T3 — symbolic execution of the public API of the REAL object backend.

`VectorObject.lib` is replaced (in this process only) by the recording TraceLib, coordinates are `Sym`
variables, and every compute function reachable from a dispatch_map is wrapped so that a dispatch
records a call node `call <generated name> args` instead of inlining it.  Each API call yields
(result class, coordinate systems, field expressions) or the exception type: value-universal because the
traced code cannot branch on symbolic values (Sym.__bool__ raises)."""
from __future__ import annotations

from . import symlib as S
from . import t1

AZ = [("x", "y"), ("rho", "phi")]
LG = [("z",), ("theta",), ("eta",)]
TM = [("t",), ("tau",)]
SYS = {2: list(AZ), 3: [a + l for a in AZ for l in LG], 4: [a + l + t for a in AZ for l in LG for t in TM]}


def ser(e):
    """Sym -> nested lists"""
    if isinstance(e, S.Sym):
        op = e.op
        if op == "var":
            return ["var", e.args[0]]
        if op == "const":
            n, d = S.frac(e.args[0])
            return ["const", str(n), str(d)]
        if op == "constb":
            return ["constb", bool(e.args[0])]
        if op in ("pi", "inf", "ninf", "nan", "none"):
            return [op]
        if op == "call":
            return ["call", e.args[0]] + [ser(a) for a in e.args[1:]]
        if op == "proj":
            return ["proj", e.args[0], ser(e.args[1])]
        return [op] + [ser(a) for a in e.args]
    if isinstance(e, bool):
        return ["constb", e]
    if isinstance(e, str):
        return ["str", e]
    if isinstance(e, (int, float)):
        n, d = S.frac(e)
        return ["const", str(n), str(d)]
    if e is None:
        return ["none"]
    raise TypeError(f"cannot serialise {type(e)}")


class ApiTracer:
    def __init__(self):
        import vector
        from vector.backends import object as O
        self.vector, self.O = vector, O
        self.tr = t1.Tracer()
        # dispatch_map entries -> wrappers too, and never inline (active = sentinel)
        wr = {}
        for m in self.tr.mods:
            for n, o in vars(m).items():
                w = getattr(o, "__wrapped_compute__", None)
                if w is not None:
                    wr[id(w)] = o
        for i, (f, n) in self.tr.funcs.items():
            if i not in wr:
                wr[i] = self.tr._mk(f, n)
        for m in self.tr.mods:
            for sig, val in list(m.dispatch_map.items()):
                fn = val[0]
                m.dispatch_map[sig] = (wr[id(fn)],) + tuple(val[1:])
        self.tr.active[0] = object()
        O.VectorObject.lib = S.TraceLib()
        self.coordcls = {"xy": O.AzimuthalObjectXY, "rhophi": O.AzimuthalObjectRhoPhi, "z": O.LongitudinalObjectZ,
                         "theta": O.LongitudinalObjectTheta, "eta": O.LongitudinalObjectEta, "t": O.TemporalObjectT,
                         "tau": O.TemporalObjectTau}
        self.cls = {(2, False): O.VectorObject2D, (2, True): O.MomentumObject2D, (3, False): O.VectorObject3D,
                    (3, True): O.MomentumObject3D, (4, False): O.VectorObject4D, (4, True): O.MomentumObject4D}

    def make(self, dim, names, momentum, prefix):
        """a vector object whose stored coordinates are the variables <prefix>0.."""
        v = [S.Sym("var", f"{prefix}{i}") for i in range(len(names))]
        O = self.O
        az = self.coordcls["".join(names[:2])](v[0], v[1])
        kw = {"azimuthal": az}
        if dim >= 3:
            kw["longitudinal"] = self.coordcls[names[2]](v[2])
        if dim == 4:
            kw["temporal"] = self.coordcls[names[3]](v[3])
        return self.cls[(dim, momentum)](**kw)

    def describe(self, r):
        V = self.vector
        if isinstance(r, self.O.VectorObject):
            from vector._methods import _aztype, _ltype, _ttype
            systems = [t1.SIGN[_aztype(r).__name__]]
            coords = list(r.azimuthal.elements)
            if hasattr(r, "longitudinal"):
                systems.append(t1.SIGN[_ltype(r).__name__])
                coords += list(r.longitudinal.elements)
            if hasattr(r, "temporal"):
                systems.append(t1.SIGN[_ttype(r).__name__])
                coords += list(r.temporal.elements)
            return {"kind": "vector", "cls": type(r).__name__, "systems": systems, "coords": [ser(c) for c in coords]}
        if isinstance(r, tuple):
            return {"kind": "tuple", "items": [self.describe(x) for x in r]}
        return {"kind": "scalar", "expr": ser(r)}

    def call(self, thunk):
        try:
            r = thunk()
        except S.TraceAbort as e:
            return {"kind": "abort", "msg": str(e)[:200]}
        except Exception as e:
            return {"kind": "raise", "exc": type(e).__name__}
        return self.describe(r)
