"""Enumerate programs over the numba-supported API and run each one twice, symbolically:
   nb — through the Numba overload layer at typing level (T5),   py — through the real interpreter object backend (T3)
-> build/nbapi.json: records {"fam", "name", "text", "srcs", "nb", "py"} with outcomes in the T3 record format.

A program is an expression TEXT over the names a, b (vectors), k, k1..k4 (float arguments), a0..a4 (constructor
arguments), np (numpy) and vector; the same text is (i) evaluated on Numba-typing proxies, with every literal constant
typed as a compile-time constant, (ii) evaluated on interpreter objects with symbolic coordinates, and (iii) compiled
for real with numba.njit by tools/props/C07.py.

Families: getters, conversions (keyword-free: the compiled API has no keywords there), unary and binary methods /
operators over the signature x flavor lattice, vector.obj constructors over coordinate-name sets, and chains of two or
three calls (generated from the step vocabulary with a fixed PRNG)."""
from __future__ import annotations

import ast
import itertools
import json
import os
import random
import sys

from . import symlib as S
from . import t3
from . import t5

ROOT = os.path.dirname(os.path.dirname(os.path.dirname(os.path.abspath(__file__))))
SCALARS = ("k", "k1", "k2", "k3", "k4", "g")

GETTERS = ["x", "y", "rho", "phi", "rho2", "z", "theta", "eta", "costheta", "cottheta", "mag", "mag2", "t", "t2", "tau",
           "tau2", "beta", "gamma", "rapidity", "px", "py", "pt", "pt2", "pz", "pseudorapidity", "p", "p2", "E", "e",
           "energy", "E2", "e2", "energy2", "M", "m", "mass", "M2", "m2", "mass2", "Et", "et", "transverse_energy",
           "Et2", "et2", "transverse_energy2", "Mt", "mt", "transverse_mass", "Mt2", "mt2", "transverse_mass2",
           "neg2D", "neg3D", "neg4D"]

UNARY = {
    "unit": "{v}.unit()", "neg": "-{v}", "pos": "+{v}", "abs": "abs({v})", "pow2": "{v} ** 2", "pow3": "{v} ** 3",
    "scale": "{v}.scale(k)", "mul": "{v} * k", "rmul": "k * {v}", "div": "{v} / k", "scale2D": "{v}.scale2D(k)",
    "scale3D": "{v}.scale3D(k)", "scale4D": "{v}.scale4D(k)", "rotateZ": "{v}.rotateZ(k)", "rotateX": "{v}.rotateX(k)",
    "rotateY": "{v}.rotateY(k)", "rotate_euler_default": "{v}.rotate_euler(k1, k2, k3)",
    "rotate_nautical": "{v}.rotate_nautical(k1, k2, k3)", "rotate_quaternion": "{v}.rotate_quaternion(k1, k2, k3, k4)",
    "boostX_beta": "{v}.boostX(beta=k)", "boostY_beta": "{v}.boostY(beta=k)", "boostZ_beta": "{v}.boostZ(beta=k)",
    "boostX_gamma": "{v}.boostX(gamma=g)", "boostY_gamma": "{v}.boostY(gamma=g)", "boostZ_gamma": "{v}.boostZ(gamma=g)",
    "boostX_pos": "{v}.boostX(k)", "to_beta3": "{v}.to_beta3()", "is_timelike": "{v}.is_timelike()",
    "is_spacelike": "{v}.is_spacelike()", "is_lightlike": "{v}.is_lightlike()", "is_timelike_tol": "{v}.is_timelike(k)",
    "is_spacelike_tol": "{v}.is_spacelike(tolerance=k)", "np_absolute": "np.absolute({v})", "np_square": "np.square({v})",
    "np_sqrt": "np.sqrt({v})", "np_cbrt": "np.cbrt({v})", "np_negative": "np.negative({v})", "np_positive": "np.positive({v})",
    "np_power2": "np.power({v}, 2)", "np_power3": "np.power({v}, 3)", "np_multiply": "np.multiply({v}, k)",
    "np_true_divide": "np.true_divide({v}, k)",
}
for _o in ("xzx", "xyx", "yxy", "yzy", "zyz", "zxz", "xzy", "xyz", "yxz", "yzx", "zyx", "zxy"):
    UNARY["rotate_euler_" + _o] = "{v}.rotate_euler(k1, k2, k3, \"" + _o + "\")"

BINARY = {
    "add": "{a}.add({b})", "+": "{a} + {b}", "subtract": "{a}.subtract({b})", "-": "{a} - {b}", "dot": "{a}.dot({b})",
    "@": "{a} @ {b}", "equal": "{a}.equal({b})", "==": "{a} == {b}", "not_equal": "{a}.not_equal({b})", "!=": "{a} != {b}",
    "isclose": "{a}.isclose({b})", "isclose_tol": "{a}.isclose({b}, rtol=k1, atol=k2)", "is_parallel": "{a}.is_parallel({b})",
    "is_antiparallel": "{a}.is_antiparallel({b})", "is_perpendicular": "{a}.is_perpendicular({b})",
    "is_parallel_tol": "{a}.is_parallel({b}, tolerance=k)", "cross": "{a}.cross({b})", "deltaphi": "{a}.deltaphi({b})",
    "deltaR": "{a}.deltaR({b})", "deltaR2": "{a}.deltaR2({b})", "deltaeta": "{a}.deltaeta({b})", "deltaangle": "{a}.deltaangle({b})",
    "deltaRapidityPhi": "{a}.deltaRapidityPhi({b})", "deltaRapidityPhi2": "{a}.deltaRapidityPhi2({b})",
    "rotate_axis": "{a}.rotate_axis({b}, k)", "boost_p4": "{a}.boost_p4({b})", "boost_beta3": "{a}.boost_beta3({b})",
    "boost": "{a}.boost({b})", "boostCM_of": "{a}.boostCM_of({b})", "boostCM_of_p4": "{a}.boostCM_of_p4({b})",
    "boostCM_of_beta3": "{a}.boostCM_of_beta3({b})", "np_add": "np.add({a}, {b})", "np_subtract": "np.subtract({a}, {b})",
    "np_matmul": "np.matmul({a}, {b})",
}
TYPED_BIN = ("add", "+", "subtract", "-", "dot", "@", "equal", "==", "not_equal", "!=", "boost_p4", "boost_beta3", "boost",
             "cross", "rotate_axis", "boostCM_of", "np_add")

CONVERSIONS = []
for _az in ("xy", "rhophi"):
    for _lg in ("", "z", "theta", "eta"):
        for _tm in ("", "t", "tau"):
            if _tm and not _lg:
                continue
            CONVERSIONS.append("to_" + _az + _lg + _tm)
CONVERSIONS += ["to_Vector2D", "to_Vector3D", "to_Vector4D"]

AZN = [("x", "y"), ("x", "py"), ("px", "y"), ("px", "py"), ("rho", "phi"), ("pt", "phi")]
LGN = [(), ("z",), ("pz",), ("theta",), ("eta",)]
TMN = [(), ("t",), ("E",), ("e",), ("energy",), ("tau",), ("M",), ("m",), ("mass",)]


def name_sets():
    for a in AZN:
        for l_ in LGN:
            for t_ in TMN:
                yield a + l_ + t_
    # not documented / incomplete / clashing sets
    for s in [("x",), ("x", "phi"), ("x", "y", "rho"), ("x", "px", "y"), ("x", "y", "z", "theta"), ("x", "y", "t", "tau"),
              ("x", "y", "E", "e"), ("x", "y", "z", "M", "m"), ("rho", "pt", "phi"), ("x", "y", "z", "pz"), ("y", "phi"), ("z", "t"),
              ("x", "y", "theta", "eta", "t"), ("px", "py", "pz", "E", "mass")]:
        yield s


class _Lit(ast.NodeTransformer):
    """wrap every literal constant of the program text: Numba types it as a compile-time constant"""

    def visit_Constant(self, node):
        if isinstance(node.value, (int, float, str)) and not isinstance(node.value, bool):
            return ast.copy_location(ast.Call(func=ast.Name(id="__lit", ctx=ast.Load()), args=[node], keywords=[]), node)
        return node


_code_cache = {}


def compile_text(text, mode):
    k = (text, mode)
    if k not in _code_cache:
        tree = ast.parse(text, mode="eval")
        if mode == "nb":
            tree = ast.fix_missing_locations(_Lit().visit(tree))
        _code_cache[k] = compile(tree, "<program>", "eval")
    return _code_cache[k]


class _PyNumpy:
    def __init__(self, ex):
        self.np = ex.numpy

    def __getattr__(self, n):
        return getattr(self.np, n)


def evaluate(ex, text, mode, vecs, nargs=0):
    """vecs: {"a": (dim, names, mom), "b": ...}"""
    env = {n: S.Sym("var", "kw_" + n) for n in SCALARS}
    for i in range(nargs):
        env[f"a{i}"] = S.Sym("var", f"a{i}")
    if mode == "nb":
        env.update(np=t5.NbNumpy(ex), vector=t5.NbVectorModule(ex), __lit=t5.Lit)
        mk = ex.make_vec
    else:
        env.update(np=_PyNumpy(ex), vector=ex.vector)
        mk = ex.A.make
    code = compile_text(text, mode)

    def thunk():
        loc = dict(env)
        for n, (d, names, mom) in vecs.items():
            loc[n] = mk(d, names, mom, n)
        return eval(code, {"__builtins__": {"abs": abs}}, loc)
    return t5.call(ex, thunk) if mode == "nb" else ex.A.call(thunk)


def src_key(dim, names, mom):
    return {"dim": dim, "sys": list(names), "momentum": mom}


def chain_text(steps):
    cur = "a"
    for kind, nm in steps:
        if kind == "u":
            cur = "(" + UNARY[nm].format(v=cur) + ")"
        elif kind == "c":
            cur = f"{cur}.{nm}()"
        elif kind in ("b", "fb"):
            cur = "(" + BINARY[nm].format(a=cur, b="b") + ")"
        else:
            cur = f"{cur}.{nm}"
    return cur


def run(seed=0, nchains=600):
    ex = t5.Executor()
    recs = []
    srcs = [(d, n, m) for d in (2, 3, 4) for n in t3.SYS[d] for m in (False, True)]

    def add(fam, name, text, vecs, nargs=0):
        keys = [src_key(*vecs[n]) for n in sorted(vecs)]
        recs.append({"fam": fam, "name": name, "text": text, "srcs": keys,
                     "nb": evaluate(ex, text, "nb", vecs, nargs), "py": evaluate(ex, text, "py", vecs, nargs)})

    for s in srcs:
        for g in GETTERS:
            add("getter", g, f"a.{g}", {"a": s})
        for meth in CONVERSIONS:
            add("conversion", meth, f"a.{meth}()", {"a": s})
        for nm, t in UNARY.items():
            add("unary", nm, t.format(v="a"), {"a": s})
    for s1, s2 in itertools.product(srcs, srcs):
        (d1, n1, m1), (d2, n2, m2) = s1, s2
        if d1 != d2 and (n1 != t3.SYS[d1][-1] or n2 != t3.SYS[d2][0]):
            continue
        for nm, t in BINARY.items():
            if d1 == d2 and nm not in TYPED_BIN and (m1 or m2):
                continue
            add("binary", nm, t.format(a="a", b="b"), {"a": s1, "b": s2})
    for names in name_sets():
        add("obj", ",".join(names), "vector.obj(" + ", ".join(f"{n}=a{i}" for i, n in enumerate(names)) + ")", {}, len(names))
    # ---- Awkward records inside compiled code: the registered typer (awkward.py::_numba_typer_*) applied to the record type of an
    # Awkward vector array with the given field names (+ an extra field) vs the Numba type of the equivalent object (no compilation)
    try:
        import awkward as ak
        import numba
        ak.numba.register_and_check()
        V, NO = ex.vector, ex.NO

        def tdesc(T, n):
            systems = [t3.t1.SIGN[NO.numba_aztype(T).__name__]]
            if isinstance(T, (NO.VectorObject3DType, NO.VectorObject4DType)):
                systems.append(t3.t1.SIGN[NO.numba_ltype(T).__name__])
            if isinstance(T, NO.VectorObject4DType):
                systems.append(t3.t1.SIGN[NO.numba_ttype(T).__name__])
            return {"kind": "vector", "cls": T.instance_class.__name__, "systems": systems, "coords": [["var", f"a{i}"] for i in range(n)]}
        for names in name_sets():
            try:
                o = V.obj(**{n: 1.5 for n in names})
            except Exception:
                continue
            try:
                arr = V.Array(ak.Array([dict({n: 1.5 for n in names}, extra=1)]))
                rv = ak._connect.numba.arrayview.RecordViewType(numba.typeof(arr))
                got = tdesc(V.backends.awkward.behavior["__numba_typer__", arr.layout.parameter("__record__")](rv), len(names))
            except Exception as e:
                got = {"kind": "raise", "exc": "TypingError", "msg": f"{type(e).__name__}: {e}"[:200]}
            recs.append({"fam": "obj", "name": "aktyper__" + ",".join(names), "text": "A[i]  # record of an Awkward vector array with fields " + ",".join(names),
                         "srcs": [], "nb": got, "py": tdesc(numba.typeof(o), len(names))})
    except ImportError:
        pass
    # ---- chains of two or three calls
    rng = random.Random(seed * 7919 + 5)
    vec_un = ["unit", "neg", "scale", "rotateZ", "rotateX", "rotate_euler_zyx", "boostX_beta", "boostZ_gamma", "to_beta3", "rotate_nautical"]
    vec_bin = ["add", "subtract", "cross", "boost", "boost_p4", "boost_beta3", "rotate_axis", "boostCM_of"]
    fin_get = ["x", "rho", "phi", "z", "theta", "eta", "t", "tau", "mass", "pt", "E", "mag", "Et", "beta", "rapidity"]
    fin_bin = ["dot", "deltaR", "deltaphi", "equal", "isclose", "deltaangle"]
    for ci in range(nchains):
        a = srcs[rng.randrange(len(srcs))]
        # second operand: mostly of the same dimension as the first (mixed dimensions are rejected by the interpreter)
        same = [s for s in srcs if s[0] == a[0]]
        b = same[rng.randrange(len(same))] if rng.random() < 0.75 else srcs[rng.randrange(len(srcs))]
        steps = []
        for _ in range(rng.choice((1, 2, 2))):
            k = rng.random()
            if k < 0.35:
                steps.append(("u", rng.choice(vec_un)))
            elif k < 0.6:
                steps.append(("c", rng.choice(CONVERSIONS)))
            else:
                steps.append(("b", rng.choice(vec_bin)))
        steps.append(("g", rng.choice(fin_get)) if rng.random() < 0.6 else ("fb", rng.choice(fin_bin)))
        add("chain", "/".join(f"{k}:{n}" for k, n in steps), chain_text(steps), {"a": a, "b": b})
    return ex, recs


if __name__ == "__main__":
    ex, recs = run(seed=int(os.environ.get("VERIF_SEED", "0") or 0), nchains=int(os.environ.get("VERIF_T5_CHAINS", "600")))
    out = sys.argv[1] if len(sys.argv) > 1 else os.path.join(ROOT, "build", "nbapi.json")
    json.dump(recs, open(out, "w"))
    cnt = {}
    for r in recs:
        cnt[r["fam"]] = cnt.get(r["fam"], 0) + 1
    print(json.dumps({"records": cnt, "stats": ex.stats}))
