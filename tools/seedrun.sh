#!/bin/bash
# tools/seedrun.sh <seed id> <property>...: apply seeded/<id>/patch.diff to /repo, run the checks, undo.
id=$1; shift
cd /repo && git diff --quiet || { echo "/repo has uncommitted changes"; exit 2; }
git -C /repo apply /verif/seeded/$id/patch.diff || exit 3
cd /verif
rm -rf /tmp/evidence_keep && cp -r /verif/evidence /tmp/evidence_keep
for p in "$@"; do ./check $p --tier quick 2>&1 | grep -E "VIOLATION|KNOWN|^C[0-9]+ " | sed "s/^/[$id] /"; done
git -C /repo checkout -- . 
rm -rf /verif/evidence && mv /tmp/evidence_keep /verif/evidence
