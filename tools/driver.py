"""./check <property> [--tier quick|thorough] [--replay FILE]

regenerate model from /repo -> validate translator -> build Coq closure of the property
-> correspondence / search on the real code -> known findings -> evidence -> exit code.
"""
from __future__ import annotations

import argparse
import fcntl
import glob
import hashlib
import importlib
import json
import os
import re
import subprocess
import sys
import time

ROOT = os.path.dirname(os.path.dirname(os.path.abspath(__file__)))
COQ = os.path.join(ROOT, "coq")
BUILD = os.path.join(ROOT, "build")
PY = "/venv/bin/python"
REPO = os.environ.get("VERIF_REPO") or "/repo"
ENV = dict(os.environ, PYTHONPATH=REPO + "/src:" + ROOT, PYTHONHASHSEED="0", VERIF_REPO=REPO)
FORBIDDEN = re.compile(r"\b(Admitted|admit|Axiom|Axioms|Parameter|Parameters|Conjecture|Conjectures|Hypothesis|Hypotheses|Variable|Variables)\b"
                       r"|Unset\s+Guard|bypass_check|type-in-type|impredicative-set|Admit\s+Obligations|Unset\s+Universe\s+Checking|Unset\s+Positivity")
STD_AXIOMS = {
    "ClassicalDedekindReals.sig_forall_dec": "stdlib reals",
    "ClassicalDedekindReals.sig_not_dec": "stdlib reals",
    "FunctionalExtensionality.functional_extensionality_dep": "stdlib (used by the reals)",
    "Classical_Prop.classic": "stdlib classical logic (used by the reals)",
}


class Ctx:
    def __init__(self, prop, tier, seed):
        self.prop, self.tier, self.seed = prop, tier, seed
        self.failures = []      # concrete violations found on the real code
        self.broken = []        # proof obligations / correspondences / translators that no longer check
        self.coverage = {}
        self.assumptions = []
        self.notes = []
        self.known_hits = []
        self.t0 = time.time()

    def fail(self, site, what, inp=None, **kw):
        self.failures.append(dict(site=site, what=what, input=inp, **kw))

    def broke(self, kind, name, detail=""):
        self.broken.append({"kind": kind, "name": name, "detail": detail[-1500:]})


def sh(cmd, timeout, cwd=ROOT, log=None):
    p = subprocess.run(cmd, cwd=cwd, env=ENV, stdout=subprocess.PIPE, stderr=subprocess.STDOUT, text=True,
                       timeout=timeout, shell=isinstance(cmd, str))
    if log:
        os.makedirs(os.path.dirname(log), exist_ok=True)
        with open(log, "w") as fh:
            fh.write(p.stdout)
    return p.returncode, p.stdout


def tree_hash(seed):
    """content hash of everything the translators read: the repository's package source, the translators, the seed"""
    h = hashlib.sha256(str(seed).encode())
    roots = [os.path.join(REPO, "src", "vector"), os.path.join(ROOT, "tools", "vtrace")]
    files = [os.path.join(ROOT, "tools", "gen.py")]
    for r in roots:
        for d, _, fs in os.walk(r):
            files += [os.path.join(d, f) for f in fs if f.endswith(".py")]
    for f in sorted(files):
        h.update(f.encode())
        with open(f, "rb") as fh:
            h.update(hashlib.sha256(fh.read()).digest())
    return h.hexdigest()


def regen(ctx):
    """regenerate the model from the working tree; skipped only when the content hash of every input equals the one of
    the generation whose outputs are on disk (same result, byte for byte: the translators are deterministic)"""
    stamp = os.path.join(BUILD, "gen.stamp.json")
    th = tree_hash(ctx.seed)
    gen_dir = os.path.join(COQ, "gen")
    try:
        st = json.load(open(stamp))
        if st.get("hash") == th and st.get("rc") == 0 and all(os.path.exists(os.path.join(gen_dir, f)) for f in st.get("files", [])) \
                and all(os.path.exists(os.path.join(BUILD, f)) for f in ("nbapi.json", "objapi.json", "npapi.json", "spapi.json", "npreduce.json")):
            rc, out = 0, st["out"]
            ctx.coverage["regeneration"] = "inputs unchanged (sha256 of src/vector, translators, seed): outputs of the previous regeneration reused"
        else:
            raise ValueError
    except (OSError, ValueError, KeyError):
        try:
            rc, out = sh([PY, "-m", "tools.gen"], 900, log=os.path.join(BUILD, "logs", "gen.log"))
        except subprocess.TimeoutExpired:
            ctx.broke("translator", "tools.gen", "timeout")
            return False
        if tree_hash(ctx.seed) == th:
            json.dump({"hash": th, "rc": rc, "out": out, "files": sorted(os.listdir(gen_dir)) if os.path.isdir(gen_dir) else []}, open(stamp, "w"))
    for line in out.splitlines():
        if line.startswith("{"):
            try:
                ctx.coverage.setdefault("translator", {}).update(json.loads(line))
            except ValueError:
                pass
    if rc != 0:
        ctx.broke("translator", "T1/T2/T3 regeneration or validation", out)
        return False
    return True


def coq_sources():
    fs = []
    for d in ("lib", "gen", "model", "proofs", "props"):
        fs += sorted(glob.glob(os.path.join(COQ, d, "*.v")))
    return [os.path.relpath(f, COQ) for f in fs]


def lint(ctx):
    bad = []
    for d in ("lib", "model", "proofs", "props", "findings"):
        for f in sorted(glob.glob(os.path.join(COQ, d, "*.v"))):
            txt = re.sub(r"\(\*.*?\*\)", "", open(f).read(), flags=re.S)
            # Variable/Hypothesis are fine inside a Section; we use Context only, so flag all
            for m in FORBIDDEN.finditer(txt):
                bad.append(f"{os.path.relpath(f, COQ)}: {m.group(0)}")
    if bad:
        ctx.broke("lint", "forbidden vernacular", "\n".join(bad))
    ctx.coverage["lint_files"] = sum(len(glob.glob(os.path.join(COQ, d, "*.v"))) for d in ("lib", "model", "proofs", "props", "findings"))
    return not bad


def lemma_at(path, line):
    try:
        lines = open(os.path.join(COQ, path)).read().splitlines()
    except OSError:
        return "?"
    for i in range(min(line, len(lines)) - 1, -1, -1):
        m = re.match(r"\s*(?:#\[[^\]]*\]\s*)?(?:Local\s+|Global\s+)?(Lemma|Theorem|Corollary|Example|Definition|Fixpoint|Instance|Program Instance|Fact|Remark|Proposition)\s+([A-Za-z0-9_']+)", lines[i])
        if m:
            return m.group(2)
    return "?"


def build(ctx, targets, timeout):
    srcs = coq_sources()
    rc, out = sh(["coq_makefile", "-f", "_CoqProject", "-o", "Makefile.coq"] + srcs, 120, cwd=COQ)
    if rc != 0:
        ctx.broke("build", "coq_makefile", out)
        return False
    log = os.path.join(BUILD, "logs", f"{ctx.prop}.build.log")
    try:
        rc, out = sh(["timeout", str(timeout), "make", "-f", "Makefile.coq", "-j16", "-k"] + targets, timeout + 30,
                     cwd=COQ, log=log)
    except subprocess.TimeoutExpired:
        ctx.broke("proof", "make", "timeout")
        return False
    if rc != 0:
        errs = list(re.finditer(r'File "\./([^"]+)", line (\d+), characters [^\n]*\n((?:(?!File "\./|make|COQC|COQDEP).*\n?)*)', out))
        seen = set()
        for m in errs:
            if "Error" not in m.group(3):
                continue
            f, ln = m.group(1), int(m.group(2))
            name = lemma_at(f, ln)
            if (f, name) in seen:
                continue
            seen.add((f, name))
            ctx.broke("proof", f"{f}:{name}", f"line {ln}: " + m.group(3).strip())
        if not seen:
            ctx.broke("proof", "make " + " ".join(targets), out)
        return False
    return True


def theorems_of(propfile):
    txt = open(os.path.join(COQ, propfile)).read()
    txt = re.sub(r"\(\*.*?\*\)", "", txt, flags=re.S)
    return re.findall(r"^\s*Theorem\s+([A-Za-z0-9_']+)", txt, flags=re.M)


def print_assumptions(ctx, module, names):
    """Always re-run Print Assumptions on the compiled property theorems."""
    os.makedirs(os.path.join(BUILD, "assum"), exist_ok=True)
    f = os.path.join(BUILD, "assum", f"A_{ctx.prop}.v")
    with open(f, "w") as fh:
        fh.write(f"From VP Require Import {module}.\n")
        for n in names:
            fh.write(f'Goal True. idtac "BEGIN {n}". Abort.\nPrint Assumptions {n}.\n')
    args = []
    for d in ("lib", "gen", "model", "proofs", "props"):
        args += ["-Q", os.path.join(COQ, d), "VP"]
    try:
        rc, out = sh(["timeout", "300", "coqc"] + args + ["-o", os.path.join(BUILD, "assum", f"A_{ctx.prop}.vo"), f], 330)
    except subprocess.TimeoutExpired:
        ctx.broke("proof", "Print Assumptions", "timeout")
        return {}
    if rc != 0:
        ctx.broke("proof", "Print Assumptions", out)
        return {}
    res = {}
    cur = None
    for line in out.splitlines():
        m = re.match(r"BEGIN (\S+)", line)
        if m:
            cur = m.group(1)
            res[cur] = []
            continue
        m = re.match(r"^([A-Za-z_][A-Za-z0-9_.']*)\s*:", line)
        if m and cur is not None and not line.startswith("Axioms"):
            res[cur].append(m.group(1))
    allax = sorted({a for v in res.values() for a in v})
    foreign = [a for a in allax if a not in STD_AXIOMS]
    if foreign:
        ctx.broke("proof", "axioms outside the declared trusted base", ", ".join(foreign))
    ctx.coverage["axioms"] = allax
    ctx.coverage["closed_theorems"] = sum(1 for v in res.values() if not v)
    return res


def load_known():
    p = os.path.join(ROOT, "known_findings.json")
    if not os.path.exists(p):
        return []
    return json.load(open(p))["findings"]


def matches(k, f):
    m = k.get("match", {})
    if "site" in m and m["site"] != f.get("site"):
        return False
    if "site_re" in m and not re.search(m["site_re"], f.get("site", "")):
        return False
    if "what_re" in m and not re.search(m["what_re"], str(f.get("what", ""))):
        return False
    return bool(m)


def write_replay(ctx, rec):
    os.makedirs(os.path.join(ROOT, "evidence", "replays"), exist_ok=True)
    h = hashlib.sha1(json.dumps(rec, sort_keys=True, default=str).encode()).hexdigest()[:10]
    p = os.path.join(ROOT, "evidence", "replays", f"{ctx.prop}-{h}.json")
    json.dump(rec, open(p, "w"), indent=1, default=str)
    return p


def main(argv=None):
    ap = argparse.ArgumentParser()
    ap.add_argument("prop")
    ap.add_argument("--tier", default=os.environ.get("VERIF_TIER") or "quick", choices=["quick", "thorough"])
    ap.add_argument("--replay")
    a = ap.parse_args(argv)
    seed = int(os.environ.get("VERIF_SEED", "0") or 0)
    os.makedirs(BUILD, exist_ok=True)
    mod = importlib.import_module(f"tools.props.{a.prop}")
    if a.replay:
        rec = json.load(open(a.replay))
        sys.path.insert(0, REPO + "/src")
        r = mod.replay(rec)
        print(json.dumps(r, indent=1, default=str))
        return 1 if r.get("still_fails") else 0
    ctx = Ctx(a.prop, a.tier, seed)
    lock = open(os.path.join(BUILD, ".lock"), "w")
    fcntl.flock(lock, fcntl.LOCK_EX)
    try:
        ok = regen(ctx)
        lint(ctx)
        thms = []
        if ok:
            ok = build(ctx, mod.COQ_TARGETS, 3000 if a.tier == "thorough" else 1500)
        if ok:
            for t in mod.COQ_TARGETS:
                if t.startswith("props/"):
                    names = theorems_of(t[:-1])
                    thms += names
                    ax = print_assumptions(ctx, os.path.basename(t)[:-3], names)
                    ctx.coverage.setdefault("print_assumptions", {}).update(ax)
            if a.tier == "thorough" and getattr(mod, "COQCHK", True):
                try:
                    rc, out = sh("timeout 1500 coqchk -silent -o " + " ".join(f"-Q {d} VP" for d in ("lib", "gen", "model", "proofs", "props"))
                                 + " " + " ".join("VP." + os.path.basename(t)[:-3] for t in mod.COQ_TARGETS if t.startswith("props/")),
                                 1600, cwd=COQ, log=os.path.join(BUILD, "logs", f"{a.prop}.coqchk.log"))
                    ctx.coverage["coqchk"] = "ok" if rc == 0 else "FAILED"
                    if rc != 0:
                        ctx.broke("proof", "coqchk", out)
                except subprocess.TimeoutExpired:
                    ctx.coverage["coqchk"] = "timeout (not counted)"
    finally:
        fcntl.flock(lock, fcntl.LOCK_UN)
    # correspondence / search on the real code (always; deeper when something broke)
    sys.path.insert(0, REPO + "/src")
    try:
        mod.run(ctx)
    except Exception as e:
        import traceback
        ctx.broke("correspondence", f"harness of {a.prop} crashed: {type(e).__name__}", traceback.format_exc())
    known = [k for k in load_known() if k["property"] == a.prop]
    new = []
    for f in ctx.failures:
        hit = [k for k in known if k.get("status") == "known" and matches(k, f)]
        if hit:
            ctx.known_hits.append((hit[0], f))
        else:
            new.append(f)
    printed = set()
    for k, f in ctx.known_hits:
        if k["id"] not in printed:
            printed.add(k["id"])
            print(f"KNOWN-FINDING: property={a.prop} {k['what']}")
    # obligations that broke only because of a listed known finding
    broken = [b for b in ctx.broken if not any(k.get("status") == "known" and b["name"] in k.get("breaks", []) for k in known)]
    rc = 0
    replay_path = None
    if new:
        rec = {"property": a.prop, "kind": "failing-input", "failure": new[0], "more": new[1:10], "broken": broken,
               "seed": seed, "tier": a.tier}
        replay_path = write_replay(ctx, rec)
        print(f"VIOLATION property={a.prop} replay={replay_path}")
        rc = 1
    elif broken:
        rec = {"property": a.prop, "kind": "obligation-no-longer-checks", "broken": broken, "seed": seed, "tier": a.tier,
               "note": "no failing input was found on the implementation by the property's search"}
        replay_path = write_replay(ctx, rec)
        print(f"VIOLATION property={a.prop} replay={replay_path} no-failing-input-found")
        rc = 1
    n_thm = len(thms)
    corr = ctx.coverage.get("correspondences", {})
    obligations = n_thm + len(corr) + 1  # +1: translator validation
    discharged = (n_thm if not any(b["kind"] in ("proof", "build", "lint") for b in ctx.broken) else 0) \
        + sum(1 for c in corr.values() if c.get("ok")) + (0 if any(b["kind"] == "translator" for b in ctx.broken) else 1)
    if rc == 0:
        discharged = obligations      # nothing broke and every failure found is a listed known finding
    cov = {
        "obligations": max(obligations, 1), "discharged": max(discharged, 0 if rc else 1),
        "checker_cmd": f"cd {COQ} && coq_makefile -f _CoqProject -o Makefile.coq <all .v> && make -f Makefile.coq " + " ".join(mod.COQ_TARGETS)
                       + " ; coqc Print Assumptions on every Theorem of props/" + (" ; coqchk -o" if a.tier == "thorough" else ""),
        "trusted_base": ["Coq 8.16.1 kernel (coqc, vm_compute; no native_compute)"] + [f"axiom {k} ({v})" for k, v in STD_AXIOMS.items() if k in ctx.coverage.get("axioms", [])]
                        + ["translator tools/vtrace (T1 tracer + emitter), validated bit-exactly in float64 on this run",
                           "correspondence/search harness tools/props/%s.py" % a.prop] + list(getattr(mod, "TRUSTED", [])),
        "theorems": thms,
        "samples": ctx.coverage.pop("samples", [])[:8] or [{"theorem": t} for t in thms[:5]] or ["(none)"],
        "evaluations": int(ctx.coverage.pop("evaluations", 0)) + int(ctx.coverage.get("translator", {}).get("t1_validation_evaluations", 0)),
        "distinct_nontrivial": int(ctx.coverage.pop("distinct_nontrivial", 0)),
        "rule": ctx.coverage.pop("rule", getattr(mod, "RULE", "")),
        "broken": ctx.broken, "known_findings_hit": sorted(printed),
    }
    cov.update(ctx.coverage)
    ev = {"property_id": a.prop, "tier": a.tier, "seed": seed, "level": "proof", "coverage": cov,
          "assumptions": list(getattr(mod, "ASSUMPTIONS", [])) + ctx.assumptions,
          "wall_s": round(time.time() - ctx.t0, 2), "violations": (len(new) if new else (1 if broken else 0))}
    os.makedirs(os.path.join(ROOT, "evidence"), exist_ok=True)
    with open(os.path.join(ROOT, "evidence", f"{a.prop}.json"), "w") as fh:
        json.dump(ev, fh, indent=1, default=str)
    print(f"{a.prop} {a.tier}: theorems={n_thm} broken={len(broken)} failures={len(new)} known={len(printed)} "
          f"evaluations={cov['evaluations']} wall={ev['wall_s']}s")
    return rc


if __name__ == "__main__":
    sys.exit(main())
