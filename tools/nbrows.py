"""Compiled-path rows of the T5 table for the operations a property speaks about: every row on which the compiled and the
interpreted outcome differ (outside the C07 known findings) is confirmed with a real numba.njit probe and reported."""
from __future__ import annotations

import json
import os
import random

ROOT = os.path.dirname(os.path.dirname(os.path.abspath(__file__)))


def check(ctx, names, label):
    from tools import nbprobe
    from tools.props import C07
    p = os.path.join(ROOT, "build", "nbapi.json")
    if not os.path.exists(p):
        ctx.broke("translator", "T5 table missing", p)
        return
    recs = [r for r in json.load(open(p)) if r["name"] in names and r["fam"] != "chain"]
    rng = random.Random(f"{label}:{ctx.seed}")
    bad = [r for r in recs if C07.classify(r) in ("differ", "flavor", "nb-unsupported")]
    seen, probes, meta = set(), [], {}
    for r in bad:
        k = (r["name"], tuple(s["dim"] for s in r["srcs"]), C07.classify(r))
        if k in seen:
            continue
        seen.add(k)
        if len(probes) >= 24:
            break
        pr = C07.make_probe(r, rng, len(probes))
        probes.append(pr)
        meta[pr["id"]] = r
    res = nbprobe.run_many(probes) if probes else []
    for x in res:
        r = meta[x["id"]]
        site_src = "|".join(f"{s['dim']}D:{''.join(s['sys'])}:{'momentum' if s['momentum'] else 'generic'}" for s in r["srcs"])
        inp = {"program": x["text"], "operands": probes[x["id"]]["vecs"], "scalars": nbprobe.scalar_values(r["name"])}
        if x["status"] == "singular":
            continue
        if x["status"] in ("mismatch", "nb_error") or (x.get("nb") or {}).get("cls") != (x.get("py") or {}).get("cls"):
            ctx.fail(f"compiled:{r['name']}:{C07.classify(r)}", f"numba-compiled {x['text']} on {site_src} returns {x.get('nb')}, the interpreter {x.get('py')}", inp)
        else:
            ctx.broke("proof", f"compiled-path rows of {label} ({r['name']} on {site_src})",
                      f"symbolic outcomes differ: compiled {json.dumps(C07.strip(r['nb']))[:300]} vs interpreted {json.dumps(C07.strip(r['py']))[:300]}")
    ctx.coverage["compiled_path_rows"] = {"rows": len(recs), "both_return": sum(1 for r in recs if C07.returns(r["nb"]) and C07.returns(r["py"])),
                                          "disagreeing": len(bad), "probes": len(probes)}
    ctx.coverage.setdefault("correspondences", {})[f"compiled path of {label} == interpreter (T5 rows; disagreements confirmed by numba.njit probes)"] = {"ok": not bad}
