"""Compile-and-run probes for C07: one program text is compiled for real with numba.njit, run on concrete
well-conditioned operands, and compared with (a) the interpreter on the same operands and (b) what the typing-level
executor T5 predicted (class, coordinate systems).  Runs in worker processes (compilation is 0.5-2.5 s per probe)."""
from __future__ import annotations

import math
import os
import sys

SCALARS = ("k", "k1", "k2", "k3", "k4", "g")


def scalar_values(name):
    """k: a velocity / angle / factor / tolerance (|k| < 1), g: a Lorentz factor (> 1)"""
    return {"k": 0.3, "k1": 0.4, "k2": -0.7, "k3": 1.1, "k4": 0.6, "g": 1.3}


def _leaf(r):
    import numpy
    import vector
    from tools import arrayharness as AH
    if isinstance(r, vector._methods.Vector):
        return {"cls": type(r).__name__, "fields": {f: float(getattr(r, f)) for f in AH.vec_fields(r)}}
    if isinstance(r, (bool, numpy.bool_)):
        return {"bool": bool(r)}
    return {"float": float(r)}


def _close(a, b, tol=1e-9):
    if set(a) != set(b):
        return False
    if "cls" in a:
        return a["cls"] == b["cls"] and set(a["fields"]) == set(b["fields"]) and all(_closef(a["fields"][k], b["fields"][k], tol) for k in a["fields"])
    if "bool" in a:
        return a["bool"] == b["bool"]
    return _closef(a["float"], b["float"], tol)


def _closef(x, y, tol):
    if math.isnan(x) or math.isnan(y):
        return math.isnan(x) and math.isnan(y)
    if math.isinf(x) or math.isinf(y):
        return x == y
    return abs(x - y) <= tol * max(1.0, abs(x), abs(y))


_state = {}


def _init():
    if not _state:
        sys.path.insert(0, (os.environ.get("VERIF_REPO") or "/repo") + "/src")
        import numba
        import numpy
        import vector
        _state.update(numba=numba, numpy=numpy, vector=vector)
    return _state["numba"], _state["numpy"], _state["vector"]


def run_probe(p):
    """p: {id, text, vecs: {name: {names, coords, momentum}}, nargs_values: {a0:..}, name, expect: {kind, cls, systems}, value_text}
    -> {id, status: ok | mismatch | nb_error | py_error, ...}"""
    numba, numpy, vector = _init()
    from tools import harness as H
    out = {"id": p["id"], "text": p["text"]}
    try:
        args = {}
        for n, v in p.get("vecs", {}).items():
            args[n] = H.obj(vector, v["names"], v["coords"], momentum=v["momentum"])
        args.update(scalar_values(p.get("name", "")))
        args.update(p.get("values", {}))
        names = sorted(args)
        glob = {"np": numpy, "vector": vector, "abs": abs}
        fn = eval(f"lambda {', '.join(names)}: {p['text']}", glob)
        vals = [args[n] for n in names]
        with numpy.errstate(all="ignore"):
            try:
                py = _leaf(eval(f"lambda {', '.join(names)}: {p.get('value_text') or p['text']}", glob)(*vals))
            except Exception as e:
                py = {"raise": type(e).__name__}
            try:
                nb = _leaf(numba.njit(fn)(*vals))
            except ZeroDivisionError as e:
                # compiled scalar division by zero raises where NumPy returns inf / nan: a singular point, outside the
                # property's domain (well-conditioned finite operands); it says nothing about typing
                nb = {"singular": "ZeroDivisionError"}
            except Exception as e:
                nb = {"raise": type(e).__name__, "msg": str(e)[:300]}
        out.update(py=py, nb=nb)
        exp = p.get("expect") or {}
        if "singular" in nb or any(isinstance(v, float) and (math.isinf(v) or math.isnan(v)) for v in (list((py.get("fields") or {}).values()) + [py.get("float", 0.0)])):
            out["status"] = "singular"
            return out
        if "raise" in nb:
            out["status"] = "ok" if exp.get("kind") == "raise" else "nb_error"
            return out
        if exp.get("kind") == "raise":
            out["status"] = "t5_mismatch"
            out["why"] = "T5 predicted a typing error, the program compiles"
            return out
        if exp.get("kind") == "vector":
            if nb.get("cls") != exp["cls"]:
                out["status"] = "t5_mismatch"
                out["why"] = f"T5 predicted class {exp['cls']}, compiled result is {nb.get('cls')}"
                return out
            if exp.get("fields") and sorted(nb.get("fields", {})) != sorted(exp["fields"]):
                out["status"] = "t5_mismatch"
                out["why"] = f"T5 predicted stored coordinates {exp['fields']}, compiled result has {sorted(nb.get('fields', {}))}"
                return out
        if "raise" in py:
            out["status"] = "py_error"
            return out
        cmp_py = dict(py)
        if exp.get("cls_differs") and "cls" in cmp_py:     # known flavor finding: compare the values only
            cmp_py["cls"] = nb["cls"]
        out["status"] = "ok" if _close(nb, cmp_py) else "mismatch"
        return out
    except Exception as e:  # harness problem
        import traceback
        out["status"] = "harness_error"
        out["why"] = traceback.format_exc()[-600:]
        return out


def run_many(probes, procs=16):
    import multiprocessing as mp
    if not probes:
        return []
    ctx = mp.get_context("spawn")
    with ctx.Pool(min(procs, len(probes))) as pool:
        return pool.map(run_probe, probes, chunksize=max(1, len(probes) // (procs * 4)))
