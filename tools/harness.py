"""Shared generators for correspondence checks and counter-example search on the REAL code."""
from __future__ import annotations

import itertools
import math
import random

AZ = [("x", "y"), ("rho", "phi")]
LG = [("z",), ("theta",), ("eta",)]
TM = [("t",), ("tau",)]
SYS = {2: [a for a in AZ], 3: [a + l for a in AZ for l in LG], 4: [a + l + t for a in AZ for l in LG for t in TM]}
MOM = {"x": "px", "y": "py", "rho": "pt", "z": "pz", "t": "E", "tau": "mass"}
STRATA = ["generic", "quadrants", "near_axis", "near_lightcone", "axis_aligned", "large", "ultra"]


def sysname(names):
    return "".join(names)


def from_cart(names, x, y, z=0.0, t=0.0):
    """Coordinates `names` of the Cartesian point (x, y, z, t); float64 math, independent of vector."""
    out = {}
    rho = math.hypot(x, y)
    for n in names:
        if n == "x":
            out[n] = x
        elif n == "y":
            out[n] = y
        elif n == "rho":
            out[n] = rho
        elif n == "phi":
            out[n] = math.atan2(y, x)
        elif n == "z":
            out[n] = z
        elif n == "theta":
            out[n] = math.atan2(rho, z)
        elif n == "eta":
            out[n] = math.asinh(z / rho) if rho != 0 else (math.copysign(math.inf, z) if z != 0 else 0.0)
        elif n == "t":
            out[n] = t
        elif n == "tau":
            m2 = t * t - (x * x + y * y + z * z)
            out[n] = math.copysign(math.sqrt(abs(m2)), m2)
    return out


def cart_stratum(rng, stratum, dim):
    """A Cartesian point (x,y,z,t) of the stratum; t >= |p| style choices are left to callers when needed."""
    u = rng.uniform
    if stratum == "generic":
        x, y, z = u(0.2, 3), u(0.2, 3), u(0.2, 3)
    elif stratum == "quadrants":
        x, y, z = u(0.2, 3) * rng.choice([-1, 1]), u(0.2, 3) * rng.choice([-1, 1]), u(0.2, 3) * rng.choice([-1, 1])
    elif stratum == "near_axis":
        x, y, z = u(-1e-3, 1e-3), u(-1e-3, 1e-3), u(0.5, 3) * rng.choice([-1, 1])
    elif stratum == "axis_aligned":
        x, y, z = rng.choice([(1.0, 0.0, 0.5), (0.0, 1.0, -0.5), (-1.0, 0.0, 2.0), (0.0, -1.0, 1.0), (1.0, 1.0, 0.0)])
    elif stratum == "large":
        x, y, z = u(-1e5, 1e5), u(-1e5, 1e5), u(-1e5, 1e5)
    else:
        x, y, z = u(-3, 3), u(-3, 3), u(-3, 3)
    mag = math.sqrt(x * x + y * y + z * z)
    if stratum == "near_lightcone":
        t = mag * (1 + rng.choice([1e-9, 1e-6, 1e-3]))
    elif stratum == "ultra":
        t = mag * (1 + 1e-8)
    else:
        t = mag + u(0.1, 5)
    return x, y, z, t


def obj(vector, names, coords, momentum=False):
    kw = {}
    for n in names:
        kw[MOM.get(n, n) if momentum else n] = coords[n]
    return vector.obj(**kw)


def all_sigs(dim):
    return SYS[dim]


def pairs(dim):
    return list(itertools.product(SYS[dim], SYS[dim]))


def rng_for(seed, *salt):
    return random.Random(f"{seed}:{':'.join(map(str, salt))}")


def stored_stratum(rng, names):
    """Stored coordinates drawn directly (not derived from a Cartesian point): reaches states such as
    tau < -|p| that no conversion from (x,y,z,t) produces."""
    import math as m
    out = {}
    for n in names:
        out[n] = {"x": lambda: rng.uniform(-3, 3), "y": lambda: rng.uniform(-3, 3), "rho": lambda: rng.uniform(0.05, 3),
                  "phi": lambda: rng.uniform(-m.pi, m.pi), "z": lambda: rng.uniform(-3, 3),
                  "theta": lambda: rng.uniform(0.05, m.pi - 0.05), "eta": lambda: rng.uniform(-3, 3),
                  "t": lambda: rng.uniform(-5, 20), "tau": lambda: rng.choice([rng.uniform(-50, 50), rng.uniform(-2, 2), 0.0])}[n]()
    return out
