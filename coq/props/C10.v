(* C10 — rotations are proper rotations and their spellings agree.  Statements only.
   Every signature reduces to the Cartesian variant by the commuting squares of C01 (restated first). *)
From Coq Require Import Reals.
From VP Require Import Lib RLib Spec Compute Tables Spec_planar Spec_spatial2 C10_rot.
From VP Require ObjModel ObjNames NbModel NbApi NbChecks.
Import ObjNames List.ListNotations.
Open Scope R_scope.

Theorem C10_all_signatures_reduce_to_cartesian : forall s l a b c,
  let x := sx s a b in let y := sy s a b in let z := sz s l a b c in
  (forall ang, den3 (T_spatial_rotateX s l ang a b c) = Some (Rx ang (x, y, z))) /\
  (forall ang, den3 (T_spatial_rotateY s l ang a b c) = Some (Ry ang (x, y, z))) /\
  (forall ang, den2 (T_planar_rotateZ s ang a b) = Some (cos ang * x - sin ang * y, sin ang * x + cos ang * y)) /\
  (forall o phi theta psi, den3 (T_spatial_rotate_euler s l o phi theta psi a b c) = Some (euler_spec o phi theta psi (x, y, z))) /\
  (forall u i j k, den3 (T_spatial_rotate_quaternion s l u i j k a b c) = Some (Rquat u i j k (x, y, z))).
Proof.
  intros s l a b c. cbv zeta. repeat split; intros.
  - rewrite rotateX_square. apply rotateX_is_Rx.
  - rewrite rotateY_square. apply rotateY_is_Ry.
  - apply rotateZ_spec.
  - rewrite rotate_euler_square. apply euler_is_product.
  - rewrite rotate_quaternion_square. apply quaternion_is_Rquat.
Qed.

Theorem C10_rotate_axis_all_signatures : forall s1 l1 s2 l2 ang a1 b1 c1 a2 b2 c2,
  let x1 := sx s1 a1 b1 in let y1 := sy s1 a1 b1 in let z1 := sz s1 l1 a1 b1 c1 in
  let n := sqrt (x1 * x1 + y1 * y1 + z1 * z1) in
  den3 (T_spatial_rotate_axis s1 l1 s2 l2 ang a1 b1 c1 a2 b2 c2)
  = Some (Raxis (x1 / n) (y1 / n) (z1 / n) ang (sx s2 a2 b2, sy s2 a2 b2, sz s2 l2 a2 b2 c2)).
Proof. intros. rewrite rotate_axis_square. apply rotate_axis_is_Raxis. Qed.

(* proper: dot products (hence lengths) and the triple product (handedness) are preserved *)
Theorem C10_proper_rotations :
  (forall k a, proper (Rax k a)) /\
  (forall o phi theta psi, proper (euler_spec o phi theta psi)) /\
  (forall ux uy uz a, ux * ux + uy * uy + uz * uz = 1 -> proper (Raxis ux uy uz a)) /\
  (forall u i j k, u * u + i * i + j * j + k * k = 1 -> proper (Rquat u i j k)) /\
  (forall x1 y1 z1, 0 < x1 * x1 + y1 * y1 + z1 * z1 ->
     let n := sqrt (x1 * x1 + y1 * y1 + z1 * z1) in x1 / n * (x1 / n) + y1 / n * (y1 / n) + z1 / n * (z1 / n) = 1).
Proof. exact (conj Rax_proper (conj euler_proper (conj Raxis_proper (conj Rquat_proper unit_axis)))). Qed.

(* additive about a fixed axis, inverted by the opposite angle *)
Theorem C10_compose_and_invert :
  (forall k a b v, Rax k a (Rax k b v) = Rax k (a + b) v) /\ (forall k a v, Rax k (- a) (Rax k a v) = v) /\
  (forall ux uy uz a b v, ux * ux + uy * uy + uz * uz = 1 -> Raxis ux uy uz a (Raxis ux uy uz b v) = Raxis ux uy uz (a + b) v).
Proof. exact (conj Rax_add (conj Rax_inverse Raxis_add)). Qed.

(* rotate_axis about a coordinate axis is rotateX/Y/Z and ignores the axis length *)
Theorem C10_rotate_axis_spellings : forall (k a x y z : R), 0 < k ->
  den3 (T_spatial_rotate_axis XY LZ XY LZ a k 0 0 x y z) = Some (Rx a (x, y, z)) /\
  den3 (T_spatial_rotate_axis XY LZ XY LZ a 0 k 0 x y z) = Some (Ry a (x, y, z)) /\
  den3 (T_spatial_rotate_axis XY LZ XY LZ a 0 0 k x y z) = Some (Rz a (x, y, z)) /\
  (forall x1 y1 z1, den3 (T_spatial_rotate_axis XY LZ XY LZ a (k * x1) (k * y1) (k * z1) x y z)
                    = den3 (T_spatial_rotate_axis XY LZ XY LZ a x1 y1 z1 x y z)).
Proof.
  intros k a x y z Hk. exact (conj (rotate_axis_about_ex k a x y z Hk) (conj (rotate_axis_about_ey k a x y z Hk)
    (conj (rotate_axis_about_ez k a x y z Hk) (fun x1 y1 z1 => axis_length_irrelevant k a x1 y1 z1 x y z Hk)))).
Qed.

(* quaternion (cos a/2, n sin a/2) = rotation by a about the unit vector n *)
Theorem C10_quaternion_is_axis_rotation : forall (h nx ny nz x y z : R), nx * nx + ny * ny + nz * nz = 1 ->
  den3 (T_spatial_rotate_quaternion XY LZ (cos h) (nx * sin h) (ny * sin h) (nz * sin h) x y z)
  = Some (Raxis nx ny nz (2 * h) (x, y, z)).
Proof. exact quaternion_is_axis. Qed.

(* the 12 Euler orders: order "abc" is R_a(-psi) o R_b(-theta) o R_c(-phi)  — constrains all nine matrix entries *)
Theorem C10_euler_is_documented_product : forall o (phi theta psi x y z : R),
  den3 (T_spatial_rotate_euler XY LZ o phi theta psi x y z) = Some (euler_spec o phi theta psi (x, y, z)).
Proof. exact euler_is_product. Qed.


(* the same laws hold in numba-compiled code: for these operations every program point of the numba-supported API has the
   same outcome (class, coordinate system, field expressions over the generated compute definitions) through the
   Numba overload layer as through the interpreter (T5 table, gen/NbApi*.v; exceptions: the C07 known findings) *)
Theorem C10_compiled_rotations_are_the_interpreted_ones :
  VP.NbChecks.agree_on [N_rotateZ; N_rotateX; N_rotateY; N_rotate_axis; N_rotate_nautical; N_rotate_quaternion; N_rotate_euler_default; N_rotate_euler_xzx; N_rotate_euler_xyx; N_rotate_euler_yxy; N_rotate_euler_yzy; N_rotate_euler_zyz; N_rotate_euler_zxz; N_rotate_euler_xzy; N_rotate_euler_xyz; N_rotate_euler_yxz; N_rotate_euler_yzx; N_rotate_euler_zyx; N_rotate_euler_zxy]%list = true /\
  Nat.ltb 100 (VP.NbChecks.count_on [N_rotateZ; N_rotateX; N_rotateY; N_rotate_axis; N_rotate_nautical; N_rotate_quaternion; N_rotate_euler_default; N_rotate_euler_xzx; N_rotate_euler_xyx; N_rotate_euler_yxy; N_rotate_euler_yzy; N_rotate_euler_zyz; N_rotate_euler_zxz; N_rotate_euler_xzy; N_rotate_euler_xyz; N_rotate_euler_yxz; N_rotate_euler_yzx; N_rotate_euler_zyx; N_rotate_euler_zxy]%list) = true.
Proof. vm_cast_no_check (conj (eq_refl true) (eq_refl true)). Qed.

Example C10_nonvacuous : euler_spec E_zyx 0 0 0 (1, 2, 3) = (1, 2, 3) /\ Rx PI (0, 1, 0) = (0, -1, 0).
Proof.
  split.
  - unfold euler_spec, euler_axes, Rax, Rx, Ry, Rz. rewrite !Ropp_0, cos_0, sin_0. apply t3; ring.
  - unfold Rx. rewrite cos_PI, sin_PI. apply t3; ring.
Qed.
