(* C03 — object, NumPy and Awkward backends compute the same values.  Statements only.
   Model (model/Layout.v): a backend method is the elementwise lift of the object-level operation over an array of any
   shape (row-major data) or a layout of any depth; scalars, single objects and records broadcast.  Proved by induction on
   lists / layouts.  The real backends are tied to the lifts by the correspondence over the operation catalogue, every
   coordinate system, flavor and backend pairing (see evidence). *)
From Coq Require Import List ZArith Bool.
From VP Require Import Layout ObjModel ObjNames NbModel NpApi NpChecks.

(* element i of an array result equals the object-backend result for element i; the shape is preserved *)
Theorem C03_numpy_elementwise : forall (A B : Type) (f : A -> B) (a : narr A),
  shape (amap f a) = shape a /\ forall i, nth_error (data (amap f a)) i = option_map f (nth_error (data a) i).
Proof. intros. split; [reflexivity | apply amap_element]. Qed.
Theorem C03_numpy_binary_and_broadcast : forall (A B C : Type) (f : A -> B -> C) (a : narr A) (b : narr B) (s : B) i x y,
  (nth_error (data a) i = Some x -> nth_error (data b) i = Some y -> nth_error (data (azip f a b)) i = Some (f x y)) /\
  nth_error (data (abroadcast f a s)) i = option_map (fun x => f x s) (nth_error (data a) i).
Proof. intros. split; [apply azip_element | apply abroadcast_element]. Qed.

(* Awkward arrays: flat, jagged, nested to any depth, option-typed: same structure, element = object result *)
Theorem C03_awkward_elementwise : forall (A B : Type) (f : A -> B) (t : layout A),
  skeleton (lmap f t) = skeleton t /\ forall p, at_path p (lmap f t) = option_map f (at_path p t).
Proof. intros. split; [apply skeleton_lmap | apply at_path_lmap]. Qed.
Theorem C03_awkward_binary_and_broadcast : forall (A B C : Type) (f : A -> B -> C) (s : layout A) (t : layout B),
  (skeleton s = skeleton t ->
     skeleton (lzip f s t) = skeleton s /\
     forall p, at_path p (lzip f s t) = match at_path p s, at_path p t with Some a, Some b => Some (f a b) | _, _ => None end) /\
  (forall a, lzip f (Leaf a) t = lmap (f a) t) /\ (forall b, lzip f s (Leaf b) = lmap (fun a => f a b) s).
Proof. intros. split; [apply lzip_same_structure|]. split; intros; [apply lzip_broadcast_left | apply lzip_broadcast_right]. Qed.

(* The REAL NumPy backend, executed symbolically on object-dtype arrays of variables (T6, gen/NpApi*.v), next to the real object
   backend on the same program, for every getter, conversion (with every keyword choice), unary / binary method, operator and
   ufunc, over all 20 coordinate systems x 2 flavors (x second operand, x the mixed pairings NumPy x object, object x NumPy):
   the element of the NumPy result is the object result — same class (VectorNumpyND ~ VectorObjectND, flavor included), same
   coordinate systems, the same field expressions over the generated compute definitions, hence the same value for every operand
   value — and what the object backend rejects the NumPy backend rejects.  With the elementwise lift above: C03 for NumPy arrays
   of any shape. *)
Theorem C03_numpy_backend_is_the_object_backend_elementwise : forallb np_agree np_tab = true.
Proof. vm_cast_no_check (eq_refl true). Qed.

Example C03_numpy_table_nonvacuous : Nat.ltb 20000 (count np_count_returning np_tab) = true.
Proof. vm_cast_no_check (eq_refl true). Qed.
