(* C09 — boosts are Lorentz transformations with the documented relations.  Statements only. *)
From Coq Require Import Reals.
From VP Require Import Lib RLib Spec Compute Tables C09_boost C09_boost2 C09_boost3.
From VP Require ObjModel ObjNames NbModel NbApi NbChecks.
Import ObjNames List.ListNotations.
Open Scope R_scope.

(* every storage of vector and booster reduces to the Cartesian variant (boost_beta3: all 72 signatures) *)
Theorem C09_boost_beta3_all_signatures : forall s l t s2 l2 a b c d a2 b2 c2,
  den4 (T_lorentz_boost_beta3 s l t s2 l2 a b c d a2 b2 c2)
  = den4 (T_lorentz_boost_beta3 XY LZ t XY LZ (sx s a b) (sy s a b) (sz s l a b c) d (sx s2 a2 b2) (sy s2 a2 b2) (sz s2 l2 a2 b2 c2)).
Proof. exact boost_beta3_square. Qed.

Theorem C09_other_boosts_signatures_partial : forall s l a b c d,
  (forall t t2 x2 y2 z2 d2, den4 (T_lorentz_boost_p4 s l t XY LZ t2 a b c d x2 y2 z2 d2)
     = den4 (T_lorentz_boost_p4 XY LZ t XY LZ t2 (sx s a b) (sy s a b) (sz s l a b c) d x2 y2 z2 d2)) /\
  (forall beta, den4 (T_lorentz_boostX_beta s l TT beta a b c d) = den4 (T_lorentz_boostX_beta XY LZ TT beta (sx s a b) (sy s a b) (sz s l a b c) d)) /\
  (forall beta, den4 (T_lorentz_boostY_beta s l TT beta a b c d) = den4 (T_lorentz_boostY_beta XY LZ TT beta (sx s a b) (sy s a b) (sz s l a b c) d)) /\
  (forall beta, den4 (T_lorentz_boostZ_beta s l TT beta a b c d) = den4 (T_lorentz_boostZ_beta XY LZ TT beta (sx s a b) (sy s a b) (sz s l a b c) d)) /\
  (forall g, den4 (T_lorentz_boostX_gamma s l TT g a b c d) = den4 (T_lorentz_boostX_gamma XY LZ TT g (sx s a b) (sy s a b) (sz s l a b c) d)) /\
  (forall g, den4 (T_lorentz_boostY_gamma s l TT g a b c d) = den4 (T_lorentz_boostY_gamma XY LZ TT g (sx s a b) (sy s a b) (sz s l a b c) d)) /\
  (forall g, den4 (T_lorentz_boostZ_gamma s l TT g a b c d) = den4 (T_lorentz_boostZ_gamma XY LZ TT g (sx s a b) (sy s a b) (sz s l a b c) d)).
Proof.
  intros. repeat split; intros.
  - apply boost_p4_square_partial.
  - apply boostX_beta_square.  - apply boostY_beta_square.  - apply boostZ_beta_square.
  - apply boostX_gamma_square. - apply boostY_gamma_square. - apply boostZ_gamma_square.
Qed.

(* boost_p4: every storage of the boosted vector AND of the booster (144 signatures) reduces to the Cartesian variant *)
Theorem C09_boost_p4_all_signatures : forall s l t s2 l2 t2 a b c d a2 b2 c2 d2, canon_az s2 a2 b2 -> canon_lg l2 c2 ->
  den4 (T_lorentz_boost_p4 s l t s2 l2 t2 a b c d a2 b2 c2 d2)
  = den4 (T_lorentz_boost_p4 XY LZ t XY LZ t2 (sx s a b) (sy s a b) (sz s l a b c) d (sx s2 a2 b2) (sy s2 a2 b2) (sz s2 l2 a2 b2 c2) d2).
Proof. exact boost_p4_square. Qed.

(* the axis boosts of tau-stored vectors (beta and gamma spellings), every storage of the spatial part *)
Theorem C09_axis_boosts_tau_storage_signatures : forall s l k a b c d, canon_az s a b -> canon_lg l c ->
  den4 (T_lorentz_boostX_beta s l TTau k a b c d) = den4 (T_lorentz_boostX_beta XY LZ TTau k (sx s a b) (sy s a b) (sz s l a b c) d) /\
  den4 (T_lorentz_boostY_beta s l TTau k a b c d) = den4 (T_lorentz_boostY_beta XY LZ TTau k (sx s a b) (sy s a b) (sz s l a b c) d) /\
  den4 (T_lorentz_boostZ_beta s l TTau k a b c d) = den4 (T_lorentz_boostZ_beta XY LZ TTau k (sx s a b) (sy s a b) (sz s l a b c) d) /\
  den4 (T_lorentz_boostX_gamma s l TTau k a b c d) = den4 (T_lorentz_boostX_gamma XY LZ TTau k (sx s a b) (sy s a b) (sz s l a b c) d) /\
  den4 (T_lorentz_boostY_gamma s l TTau k a b c d) = den4 (T_lorentz_boostY_gamma XY LZ TTau k (sx s a b) (sy s a b) (sz s l a b c) d) /\
  den4 (T_lorentz_boostZ_gamma s l TTau k a b c d) = den4 (T_lorentz_boostZ_gamma XY LZ TTau k (sx s a b) (sy s a b) (sz s l a b c) d).
Proof.
  intros s l k a b c d Ha Hl.
  exact (conj (boostX_beta_tau_square s l k a b c d Ha Hl) (conj (boostY_beta_tau_square s l k a b c d Ha Hl) (conj (boostZ_beta_tau_square s l k a b c d Ha Hl)
    (conj (boostX_gamma_tau_square s l k a b c d Ha Hl) (conj (boostY_gamma_tau_square s l k a b c d Ha Hl) (boostZ_gamma_tau_square s l k a b c d Ha Hl)))))).
Qed.

(* the Cartesian variant is the textbook active boost matrix ... *)
Theorem C09_boost_beta3_is_the_boost_matrix : forall (x y z t bx by_ bz : R),
  den4 (T_lorentz_boost_beta3 XY LZ TT XY LZ x y z t bx by_ bz) = Some (boost3 bx by_ bz (x, y, z, t)).
Proof. exact boost_beta3_is_boost3. Qed.

(* ... which preserves the Minkowski product of ANY two vectors (hence proper time) and is undone by the opposite boost *)
Theorem C09_lorentz_invariance_and_inverse : forall bx by_ bz, bx * bx + by_ * by_ + bz * bz < 1 ->
  (forall u v, mink (boost3 bx by_ bz u) (boost3 bx by_ bz v) = mink u v) /\
  (forall v, boost3 (- bx) (- by_) (- bz) (boost3 bx by_ bz v) = v).
Proof. intros bx by_ bz H. exact (conj (fun u v => boost3_invariant bx by_ bz u v H) (fun v => boost3_inverse bx by_ bz v H)). Qed.

(* axis boosts: the textbook form, equal to boost_beta3 along the axis, composing by velocity addition *)
Theorem C09_axis_boosts : forall (b x y z t : R),
  den4 (T_lorentz_boostX_beta XY LZ TT b x y z t) = Some (Bx b (x, y, z, t)) /\
  den4 (T_lorentz_boostY_beta XY LZ TT b x y z t) = Some (By b (x, y, z, t)) /\
  den4 (T_lorentz_boostZ_beta XY LZ TT b x y z t) = Some (Bz b (x, y, z, t)) /\
  (b * b < 1 -> Bx b (x, y, z, t) = boost3 b 0 0 (x, y, z, t) /\ By b (x, y, z, t) = boost3 0 b 0 (x, y, z, t)
                /\ Bz b (x, y, z, t) = boost3 0 0 b (x, y, z, t)).
Proof.
  intros. refine (conj (boostX_beta_is_Bx b x y z t) (conj (boostY_beta_is_By b x y z t) (conj (boostZ_beta_is_Bz b x y z t) _))).
  intros H. exact (conj (Bx_is_boost3 b _ H) (conj (By_is_boost3 b _ H) (Bz_is_boost3 b _ H))).
Qed.
Theorem C09_velocity_addition : forall b1 b2 v, b1 * b1 < 1 -> b2 * b2 < 1 ->
  Bx b1 (Bx b2 v) = Bx ((b1 + b2) / (1 + b1 * b2)) v.
Proof. exact Bx_compose. Qed.

(* boostX(gamma) = boostX(beta) for gamma = +-1/sqrt(1-beta^2), the sign giving the direction *)
Theorem C09_gamma_spelling : forall (b x y z t : R), b * b < 1 ->
  let g := (if Rlt_dec b 0 then - gam (b * b) else gam (b * b)) in
  den4 (T_lorentz_boostX_gamma XY LZ TT g x y z t) = den4 (T_lorentz_boostX_beta XY LZ TT b x y z t).
Proof. exact boostX_gamma_matches_beta. Qed.

(* boost_p4(p) = boost_beta3(p.to_beta3()) for a forward time-like p *)
Theorem C09_boost_p4_is_boost_by_its_velocity : forall (x1 y1 z1 t1 x y z t : R), 0 < t -> x * x + y * y + z * z < t * t ->
  den3 (T_lorentz_to_beta3 XY LZ TT x y z t) = Some (x / t, y / t, z / t) /\
  den4 (T_lorentz_boost_p4 XY LZ TT XY LZ TT x1 y1 z1 t1 x y z t)
  = den4 (T_lorentz_boost_beta3 XY LZ TT XY LZ x1 y1 z1 t1 (x / t) (y / t) (z / t)).
Proof. intros. exact (conj (to_beta3_cartesian x y z t) (boost_p4_is_boost_beta3 x1 y1 z1 t1 x y z t H H0)). Qed.

(* boosting p into its own rest frame: zero spatial part and time tau *)
Theorem C09_rest_frame : forall x y z t, 0 < t -> x * x + y * y + z * z < t * t ->
  boost3 (- (x / t)) (- (y / t)) (- (z / t)) (x, y, z, t) = (0, 0, 0, sqrt (t * t - (x * x + y * y + z * z))).
Proof. exact boost_to_rest. Qed.

(* tau storage: the boost keeps tau, recomputes the spatial part, and denotes the same boosted vector *)
Theorem C09_tau_storage_keeps_tau : forall (x y z tau bx by_ bz : R), 0 <= tau -> bx * bx + by_ * by_ + bz * bz < 1 ->
  den4 (T_lorentz_boost_beta3 XY LZ TTau XY LZ x y z tau bx by_ bz)
  = den4 (T_lorentz_boost_beta3 XY LZ TT XY LZ x y z (sqrt (tau * tau + (x * x + y * y + z * z))) bx by_ bz).
Proof. exact boost_beta3_tau_storage. Qed.


(* the same laws hold in numba-compiled code: for these operations every program point of the numba-supported API has the
   same outcome (class, coordinate system, field expressions over the generated compute definitions) through the
   Numba overload layer as through the interpreter (T5 table, gen/NbApi*.v; exceptions: the C07 known findings) *)
Theorem C09_compiled_boosts_are_the_interpreted_ones :
  VP.NbChecks.agree_on [N_boostX_beta; N_boostY_beta; N_boostZ_beta; N_boostX_gamma; N_boostY_gamma; N_boostZ_gamma; N_boostX_pos; N_boost_p4; N_boost_beta3; N_boost; N_boostCM_of; N_boostCM_of_p4; N_boostCM_of_beta3; N_to_beta3]%list = true /\
  Nat.ltb 100 (VP.NbChecks.count_on [N_boostX_beta; N_boostY_beta; N_boostZ_beta; N_boostX_gamma; N_boostY_gamma; N_boostZ_gamma; N_boostX_pos; N_boost_p4; N_boost_beta3; N_boost; N_boostCM_of; N_boostCM_of_p4; N_boostCM_of_beta3; N_to_beta3]%list) = true.
Proof. vm_cast_no_check (conj (eq_refl true) (eq_refl true)). Qed.

Example C09_nonvacuous : (3/5) * (3/5) + 0 * 0 + 0 * 0 < 1 /\ (0 < 5 /\ 3 * 3 + 0 * 0 + 0 * 0 < 5 * 5).
Proof. repeat split; Lra.lra. Qed.
