(* C19 — NumPy vector arrays behave as arrays of vectors.  Statements only.
   Model (model/Layout.v): an array is a shape plus row-major data of records; integer indexing returns the element,
   elementwise operations / reshapes / views / masks act on the data and never on the element type.  The theorems hold
   for arrays of any length and shape; the real backend is tied to the model by an exhaustive-lattice correspondence
   (20 systems x 2 flavors x shapes up to 3-D x index kinds), see evidence. *)
From Coq Require Import List Arith.
From VP Require Import Layout.
From Coq Require Import List Bool.
From VP Require ObjModel ObjNames NbModel NpApi NpChecks.
Import List.ListNotations.
Import ListNotations.

Theorem C19_elementwise_keeps_shape_and_acts_on_elements : forall (A B : Type) (f : A -> B) (a : narr A),
  shape (amap f a) = shape a /\ (wf a -> wf (amap f a)) /\
  (forall i, nth_error (data (amap f a)) i = option_map f (nth_error (data a) i)).
Proof. intros. destruct (amap_shape f a) as [H1 H2]. exact (conj H1 (conj H2 (amap_element f a))). Qed.

Theorem C19_reshape_and_views_keep_every_element : forall (A : Type) (s : list nat) (a : narr A), data (reshape s a) = data a.
Proof. intros. apply reshape_keeps_elements. Qed.

Theorem C19_masks_select_elements : forall (A : Type) (m : list bool) (a : narr A) (x : A), In x (mask m a) -> In x (data a).
Proof. intros A m a x. apply mask_elements. Qed.

Theorem C19_binary_and_broadcast : forall (A B C : Type) (f : A -> B -> C) (a : narr A) (b : narr B) (s : B) i x y,
  (nth_error (data a) i = Some x -> nth_error (data b) i = Some y -> nth_error (data (azip f a b)) i = Some (f x y)) /\
  nth_error (data (abroadcast f a s)) i = option_map (fun x => f x s) (nth_error (data a) i).
Proof. intros. split; [apply azip_element | apply abroadcast_element]. Qed.

(* obj -> array -> [0] = obj, in the model: a one-element array of an object returns that object *)
Example C19_roundtrip_model : forall (A : Type) (v : A), nth_error (data {| shape := [1]; data := [v] |}) 0 = Some v.
Proof. reflexivity. Qed.

(* the REAL NumPy backend executed symbolically (T6): a[0] is the object vector holding exactly the element's stored coordinates, in
   the array's coordinate system and flavor; a["name"], for every generic name and every momentum synonym of a stored coordinate, is
   the stored column (what the object getter returns), and is rejected exactly where the object has no such attribute — all 20
   systems x 2 flavors *)
Theorem C19_numpy_index_and_field_access :
  VP.NpChecks.np_agree_on [VP.ObjNames.N_index0; VP.ObjNames.N_field_x; VP.ObjNames.N_field_y; VP.ObjNames.N_field_rho; VP.ObjNames.N_field_phi; VP.ObjNames.N_field_z; VP.ObjNames.N_field_theta; VP.ObjNames.N_field_eta; VP.ObjNames.N_field_t; VP.ObjNames.N_field_tau; VP.ObjNames.N_field_px; VP.ObjNames.N_field_py; VP.ObjNames.N_field_pt; VP.ObjNames.N_field_pz; VP.ObjNames.N_field_E; VP.ObjNames.N_field_e; VP.ObjNames.N_field_energy; VP.ObjNames.N_field_M; VP.ObjNames.N_field_m; VP.ObjNames.N_field_mass]%list = true.
Proof. vm_cast_no_check (eq_refl true). Qed.
