(* C08 — SymPy expressions agree with the numeric backends.  Statements only.
   lib/ELib.v: the expression tree of a generated definition (one constructor per primitive), its numeric reading evalR
   and the reading eval_sym that vector's SympyLib implements (nan_to_num = identity, maximum/minimum return their first
   symbolic argument, copysign returns its first argument).  [regular rho e] is DERIVED from the tree: every dropped
   clamp is inactive and every dropped copysign is a no-op at rho — the formal content of "timelike, forward-pointing,
   off-axis".  The SymPy backend itself is tied to eval_sym by correspondence (evidence). *)
From Coq Require Import Reals.
From VP Require Import Lib RLib ELib Spec Compute Tables C08_sym.
From Coq Require Import List Bool Arith.
From VP Require ObjModel ObjNames NbModel SpApi NpChecks SpChecks.
Open Scope R_scope.

(* for EVERY expression tree: on its regular domain the symbolic reading equals the numeric one (induction on the tree) *)
Theorem C08_symbolic_equals_numeric_on_the_regular_domain : forall rho e, regular rho e -> eval_sym rho e = evalR rho e.
Proof. exact sym_agrees_on_regular_domain. Qed.

(* the numeric reading of the tree of a generated definition IS the real-number model of that definition (by computation),
   for every coordinate-system signature: accessors and the 144 Minkowski products *)
Theorem C08_tree_links : forall rho,
  (forall s, option_map (evalR rho) (enum (T_planar_phi (L:=ELib) s V0 V1)) = numr (T_planar_phi (L:=RLib) s (rho 0%nat) (rho 1%nat))) /\
  (forall s l, option_map (evalR rho) (enum (T_spatial_eta (L:=ELib) s l V0 V1 V2)) = numr (T_spatial_eta (L:=RLib) s l (rho 0%nat) (rho 1%nat) (rho 2%nat))) /\
  (forall s l t, option_map (evalR rho) (enum (T_lorentz_tau (L:=ELib) s l t V0 V1 V2 V3))
                 = numr (T_lorentz_tau (L:=RLib) s l t (rho 0%nat) (rho 1%nat) (rho 2%nat) (rho 3%nat))) /\
  (forall s1 l1 t1 s2 l2 t2, option_map (evalR rho) (enum (T_lorentz_dot (L:=ELib) s1 l1 t1 s2 l2 t2 V0 V1 V2 V3 V4 V5 V6 V7))
     = numr (T_lorentz_dot (L:=RLib) s1 l1 t1 s2 l2 t2 (rho 0%nat) (rho 1%nat) (rho 2%nat) (rho 3%nat) (rho 4%nat) (rho 5%nat) (rho 6%nat) (rho 7%nat))).
Proof.
  intros rho. repeat split; intros.
  - apply (link_planar s rho).  - apply (link_spatial s l rho).  - apply (link_lorentz s l t rho).  - apply link_dot4.
Qed.

(* an instance: t of a vector stored with tau >= 0 (any of the six spatial systems) is regular, hence symbolic = numeric *)
Theorem C08_t_of_tau_regular : forall s l rho, 0 <= rho 3%nat ->
  holds_e (enum (T_lorentz_t (L:=ELib) s l TTau V0 V1 V2 V3)) (fun e => regular rho e /\ eval_sym rho e = evalR rho e).
Proof. exact t_of_tau_is_regular. Qed.

(* and outside the regular domain the two readings do differ: the clamp that SympyLib drops *)
Example C08_irregular_point_differs :
  let e := EBin BMax (EVar 0) (ECst 0 1) in eval_sym (fun _ => -1) e = -1 /\ evalR (fun _ => -1) e = 0.
Proof.
  cbn [eval_sym evalR is_literal bin_sem]. split; [reflexivity|]. unfold Rdiv. rewrite Rmult_0_l. apply Rmax_right. Lra.lra.
Qed.

(* the SymPy backend's glue is the object backend's: with the same (recording) lib every getter, conversion (every keyword choice),
   unary and binary method of the SymPy vector classes returns the object backend's outcome — class (VectorSympyND ~ VectorObjectND,
   flavor), coordinate systems and field expressions over the generated compute definitions — for all 20 systems x 2 flavors;
   so a SymPy result IS the generated compute definition instantiated with SympyLib, which the theorem above relates to the numeric
   backends on the regular domain.  Exception listed in model/SpChecks.v: v ** 2. *)
Theorem C08_sympy_glue_is_the_object_backend :
  forallb VP.SpChecks.sp_agree VP.SpApi.sp_tab = true /\
  Nat.ltb 10000 (VP.NbModel.count VP.SpChecks.sp_count_returning VP.SpApi.sp_tab) = true.
Proof. vm_cast_no_check (conj (eq_refl true) (eq_refl true)). Qed.
