(* C12 — equality, inequality and closeness are coherent.
   Statements only; each is closed by the lemma that proves it over the definitions
   generated from /repo on this run (VP.Compute / VP.Tables). *)
From Coq Require Import Reals Bool.
From VP Require Import Lib RLib BoolLaws Compute Tables C12_eq C12_ne C12_close.
From VP Require ObjModel ObjNames NbModel NbApi NbChecks.
Import ObjNames List.ListNotations.
Open Scope R_scope.

Section AnyCarrier.   (* any carrier whose comparisons obey BoolLaws: reals, NaN-free floats *)
Context {L : Lib} {BL : BoolLaws L}.

(* == is reflexive *)
Theorem C12_equal_reflexive :
  (forall s a b, trres (T_planar_equal s s a b a b) = Some true) /\
  (forall s l a b c, trres (T_spatial_equal s l s l a b c a b c) = Some true) /\
  (forall s l t a b c d, trres (T_lorentz_equal s l t s l t a b c d a b c d) = Some true).
Proof. exact (conj planar_equal_refl (conj spatial_equal_refl lorentz_equal_refl)). Qed.

(* == is symmetric, for every pairing of coordinate systems *)
Theorem C12_equal_symmetric :
  (forall s1 s2 a1 b1 a2 b2,
     trres (T_planar_equal s1 s2 a1 b1 a2 b2) = trres (T_planar_equal s2 s1 a2 b2 a1 b1)) /\
  (forall s1 l1 s2 l2 a1 b1 c1 a2 b2 c2,
     trres (T_spatial_equal s1 l1 s2 l2 a1 b1 c1 a2 b2 c2) = trres (T_spatial_equal s2 l2 s1 l1 a2 b2 c2 a1 b1 c1)) /\
  (forall s1 l1 t1 s2 l2 t2 a1 b1 c1 d1 a2 b2 c2 d2,
     trres (T_lorentz_equal s1 l1 t1 s2 l2 t2 a1 b1 c1 d1 a2 b2 c2 d2)
     = trres (T_lorentz_equal s2 l2 t2 s1 l1 t1 a2 b2 c2 d2 a1 b1 c1 d1)).
Proof. exact (conj planar_equal_sym (conj spatial_equal_sym lorentz_equal_sym)). Qed.

(* same coordinate system: == is exactly the conjunction over the stored coordinates *)
Theorem C12_equal_same_system :
  (forall s a1 b1 a2 b2,
     trres (T_planar_equal s s a1 b1 a2 b2) = Some (tr (leq a1 a2) && tr (leq b1 b2))) /\
  (forall s l a1 b1 c1 a2 b2 c2,
     trres (T_spatial_equal s l s l a1 b1 c1 a2 b2 c2)
     = Some (tr (leq a1 a2) && tr (leq b1 b2) && tr (leq c1 c2))) /\
  (forall s l t a1 b1 c1 d1 a2 b2 c2 d2,
     trres (T_lorentz_equal s l t s l t a1 b1 c1 d1 a2 b2 c2 d2)
     = Some (tr (leq a1 a2) && tr (leq b1 b2) && tr (leq c1 c2) && tr (leq d1 d2))).
Proof. exact (conj planar_equal_same (conj spatial_equal_same lorentz_equal_same)). Qed.

(* != is the logical negation of ==, for every pairing of coordinate systems (4 + 36 + 144) *)
Theorem C12_not_equal_is_negation :
  (forall s1 s2 a1 b1 a2 b2,
     trres (T_planar_not_equal s1 s2 a1 b1 a2 b2) = option_map negb (trres (T_planar_equal s1 s2 a1 b1 a2 b2))) /\
  (forall s1 l1 s2 l2 a1 b1 c1 a2 b2 c2,
     trres (T_spatial_not_equal s1 l1 s2 l2 a1 b1 c1 a2 b2 c2)
     = option_map negb (trres (T_spatial_equal s1 l1 s2 l2 a1 b1 c1 a2 b2 c2))) /\
  (forall s1 l1 t1 s2 l2 t2 a1 b1 c1 d1 a2 b2 c2 d2,
     trres (T_lorentz_not_equal s1 l1 t1 s2 l2 t2 a1 b1 c1 d1 a2 b2 c2 d2)
     = option_map negb (trres (T_lorentz_equal s1 l1 t1 s2 l2 t2 a1 b1 c1 d1 a2 b2 c2 d2))).
Proof. exact (conj planar_ne_neg (conj spatial_ne_neg lorentz_ne_neg)). Qed.
End AnyCarrier.

(* isclose, over the reals *)
Theorem C12_isclose_reflexive : forall rtol atol en, 0 <= rtol -> 0 <= atol ->
  (forall s a b, rb (T_planar_isclose s s rtol atol en a b a b) = Some true) /\
  (forall s l a b c, rb (T_spatial_isclose s l s l rtol atol en a b c a b c) = Some true) /\
  (forall s l t a b c d, rb (T_lorentz_isclose s l t s l t rtol atol en a b c d a b c d) = Some true).
Proof.
  intros rtol atol en Hr Ha.
  exact (conj (fun s a b => planar_isclose_refl s rtol atol en a b Hr Ha)
        (conj (fun s l a b c => spatial_isclose_refl s l rtol atol en a b c Hr Ha)
              (fun s l t a b c d => lorentz_isclose_refl s l t rtol atol en a b c d Hr Ha))).
Qed.

Theorem C12_equal_implies_isclose : forall rtol atol en, 0 <= rtol -> 0 <= atol ->
  (forall s1 s2 a1 b1 a2 b2, rb (T_planar_equal s1 s2 a1 b1 a2 b2) = Some true ->
     rb (T_planar_isclose s1 s2 rtol atol en a1 b1 a2 b2) = Some true) /\
  (forall s1 l1 s2 l2 a1 b1 c1 a2 b2 c2, rb (T_spatial_equal s1 l1 s2 l2 a1 b1 c1 a2 b2 c2) = Some true ->
     rb (T_spatial_isclose s1 l1 s2 l2 rtol atol en a1 b1 c1 a2 b2 c2) = Some true) /\
  (forall s1 l1 t1 s2 l2 t2 a1 b1 c1 d1 a2 b2 c2 d2,
     rb (T_lorentz_equal s1 l1 t1 s2 l2 t2 a1 b1 c1 d1 a2 b2 c2 d2) = Some true ->
     rb (T_lorentz_isclose s1 l1 t1 s2 l2 t2 rtol atol en a1 b1 c1 d1 a2 b2 c2 d2) = Some true).
Proof.
  intros rtol atol en Hr Ha.
  exact (conj (fun s1 s2 a1 b1 a2 b2 => planar_equal_isclose s1 s2 rtol atol en a1 b1 a2 b2 Hr Ha)
        (conj (fun s1 l1 s2 l2 a1 b1 c1 a2 b2 c2 => spatial_equal_isclose s1 l1 s2 l2 rtol atol en a1 b1 c1 a2 b2 c2 Hr Ha)
              (fun s1 l1 t1 s2 l2 t2 a1 b1 c1 d1 a2 b2 c2 d2 =>
                 lorentz_equal_isclose s1 l1 t1 s2 l2 t2 rtol atol en a1 b1 c1 d1 a2 b2 c2 d2 Hr Ha))).
Qed.

(* growing a tolerance never makes isclose stricter *)
Theorem C12_isclose_monotone : forall r1 t1 r2 t2 en, r1 <= r2 -> t1 <= t2 ->
  (forall s1 s2 a1 b1 a2 b2, rb (T_planar_isclose s1 s2 r1 t1 en a1 b1 a2 b2) = Some true ->
     rb (T_planar_isclose s1 s2 r2 t2 en a1 b1 a2 b2) = Some true) /\
  (forall s1 l1 s2 l2 a1 b1 c1 a2 b2 c2, rb (T_spatial_isclose s1 l1 s2 l2 r1 t1 en a1 b1 c1 a2 b2 c2) = Some true ->
     rb (T_spatial_isclose s1 l1 s2 l2 r2 t2 en a1 b1 c1 a2 b2 c2) = Some true) /\
  (forall s1 l1 u1 s2 l2 u2 a1 b1 c1 d1 a2 b2 c2 d2,
     rb (T_lorentz_isclose s1 l1 u1 s2 l2 u2 r1 t1 en a1 b1 c1 d1 a2 b2 c2 d2) = Some true ->
     rb (T_lorentz_isclose s1 l1 u1 s2 l2 u2 r2 t2 en a1 b1 c1 d1 a2 b2 c2 d2) = Some true).
Proof.
  intros r1 t1 r2 t2 en Hr Ha.
  exact (conj (fun s1 s2 a1 b1 a2 b2 => planar_isclose_mono s1 s2 r1 t1 r2 t2 en a1 b1 a2 b2 Hr Ha)
        (conj (fun s1 l1 s2 l2 a1 b1 c1 a2 b2 c2 => spatial_isclose_mono s1 l1 s2 l2 r1 t1 r2 t2 en a1 b1 c1 a2 b2 c2 Hr Ha)
              (fun s1 l1 u1 s2 l2 u2 a1 b1 c1 d1 a2 b2 c2 d2 =>
                 lorentz_isclose_mono s1 l1 u1 s2 l2 u2 r1 t1 r2 t2 en a1 b1 c1 d1 a2 b2 c2 d2 Hr Ha))).
Qed.

(* same coordinate system: isclose is exactly |a-b| <= atol + rtol*|b| on every stored coordinate *)
Theorem C12_isclose_same_system : forall rtol atol en,
  (forall s a1 b1 a2 b2, rb (T_planar_isclose s s rtol atol en a1 b1 a2 b2)
     = Some (Risclose a1 a2 rtol atol && Risclose b1 b2 rtol atol)) /\
  (forall s l a1 b1 c1 a2 b2 c2, rb (T_spatial_isclose s l s l rtol atol en a1 b1 c1 a2 b2 c2)
     = Some (Risclose a1 a2 rtol atol && Risclose b1 b2 rtol atol && Risclose c1 c2 rtol atol)) /\
  (forall s l t a1 b1 c1 d1 a2 b2 c2 d2, rb (T_lorentz_isclose s l t s l t rtol atol en a1 b1 c1 d1 a2 b2 c2 d2)
     = Some (Risclose a1 a2 rtol atol && Risclose b1 b2 rtol atol && Risclose c1 c2 rtol atol && Risclose d1 d2 rtol atol)).
Proof.
  intros rtol atol en.
  exact (conj (fun s => planar_isclose_same s rtol atol en)
        (conj (fun s l => spatial_isclose_same s l rtol atol en) (fun s l t => lorentz_isclose_same s l t rtol atol en))).
Qed.

(* non-vacuity: the premises are met by concrete values and the comparison really discriminates *)

(* the same laws hold in numba-compiled code: for these operations every program point of the numba-supported API has the
   same outcome (class, coordinate system, field expressions over the generated compute definitions) through the
   Numba overload layer as through the interpreter (T5 table, gen/NbApi*.v; exceptions: the C07 known findings) *)
Theorem C12_compiled_comparisons_are_the_interpreted_ones :
  VP.NbChecks.agree_on [N_equal; N_op_eq; N_not_equal; N_op_ne; N_isclose; N_isclose_tol]%list = true /\
  Nat.ltb 100 (VP.NbChecks.count_on [N_equal; N_op_eq; N_not_equal; N_op_ne; N_isclose; N_isclose_tol]%list) = true.
Proof. vm_cast_no_check (conj (eq_refl true) (eq_refl true)). Qed.

Example C12_nonvacuous :
  rb (T_planar_equal XY XY 1 2 1 2) = Some true /\ rb (T_planar_equal XY XY 1 2 1 3) = Some false /\
  rb (T_planar_isclose XY XY (1/100000) (1/100000000) false 1 2 1 2) = Some true.
Proof.
  repeat split; cbv [T_planar_equal T_planar_isclose planar_equal_xy_xy planar_isclose_xy_xy rb]; runfold.
  - rewrite !Reqb_refl; reflexivity.
  - rewrite Reqb_refl. replace (Reqb 2 3) with false; [reflexivity|].
    unfold Reqb; destruct (Req_EM_T 2 3); [exfalso; Lra.lra | reflexivity].
  - rewrite !Risclose_refl by Lra.lra; reflexivity.
Qed.
