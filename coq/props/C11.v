(* C11 — vector-space, dot, cross laws, for every coordinate-system signature.  Statements only. *)
From Coq Require Import Reals Lra Psatz.
From VP Require Import Lib RLib Spec Compute Tables Spec_planar Spec_spatial1 Spec_spatial2 Spec_lorentz C11_laws.
From VP Require Import Spec_lorentz Spec_lorentz2 Spec_lorentz3.
From VP Require ObjModel ObjNames NbModel NbApi NbChecks.
Import ObjNames List.ListNotations.
Open Scope R_scope.

Theorem C11_planar_addition_laws : forall s1 s2 s3 a1 b1 a2 b2 a3 b3,
  (* commutative *)
  den2 (T_planar_add s1 s2 a1 b1 a2 b2) = den2 (T_planar_add s2 s1 a2 b2 a1 b1) /\
  (* associative, feeding each intermediate result back in its declared system *)
  den2 (bind2 (T_planar_add s1 s2 a1 b1 a2 b2) (fun s a b => T_planar_add s s3 a b a3 b3))
    = den2 (bind2 (T_planar_add s2 s3 a2 b2 a3 b3) (fun s a b => T_planar_add s1 s a1 b1 a b)) /\
  (* a - b + b = a *)
  den2 (bind2 (T_planar_subtract s1 s2 a1 b1 a2 b2) (fun s a b => T_planar_add s s2 a b a2 b2))
    = Some (sx s1 a1 b1, sy s1 a1 b1).
Proof. intros. exact (conj (add_comm2 s1 s2 a1 b1 a2 b2) (conj (add_assoc2 s1 s2 s3 a1 b1 a2 b2 a3 b3) (sub_add_cancel2 s1 s2 a1 b1 a2 b2))). Qed.

Theorem C11_planar_scaling_laws : forall s1 s2 f g a1 b1 a2 b2,
  den2 (bind2 (T_planar_add s1 s2 a1 b1 a2 b2) (fun s a b => T_planar_scale s f a b))
    = den2 (bind2 (T_planar_scale s1 f a1 b1) (fun s a b =>
            bind2 (T_planar_scale s2 f a2 b2) (fun s' a' b' => T_planar_add s s' a b a' b'))) /\
  den2 (bind2 (T_planar_scale s1 f a1 b1) (fun s' a' b' => T_planar_scale s' g a' b')) = den2 (T_planar_scale s1 (f * g) a1 b1) /\
  den2 (T_planar_scale s1 (-1) a1 b1) = Some (- sx s1 a1 b1, - sy s1 a1 b1).
Proof.
  intros. refine (conj (scale_distr2 s1 s2 f a1 b1 a2 b2) (conj (scale_compose2 s1 f g a1 b1) _)).
  rewrite scale_spec. f_equal. f_equal; ring.
Qed.

Theorem C11_dot_laws : 
  (forall s1 s2 a1 b1 a2 b2, numr (T_planar_dot s1 s2 a1 b1 a2 b2) = numr (T_planar_dot s2 s1 a2 b2 a1 b1)) /\
  (forall s a b, numr (T_planar_dot s s a b a b) = numr (T_planar_rho2 s a b)) /\
  (forall s1 l1 s2 l2 a1 b1 c1 a2 b2 c2,
     numr (T_spatial_dot s1 l1 s2 l2 a1 b1 c1 a2 b2 c2) = numr (T_spatial_dot s2 l2 s1 l1 a2 b2 c2 a1 b1 c1)) /\
  (forall s l a b c, canon_az s a b -> canon_lg l c -> numr (T_spatial_dot s l s l a b c a b c) = numr (T_spatial_mag2 s l a b c)) /\
  (forall s1 l1 t1 s2 l2 t2 a1 b1 c1 d1 a2 b2 c2 d2, rep4 s1 l1 t1 a1 b1 c1 d1 -> rep4 s2 l2 t2 a2 b2 c2 d2 ->
     numr (T_lorentz_dot s1 l1 t1 s2 l2 t2 a1 b1 c1 d1 a2 b2 c2 d2) = numr (T_lorentz_dot s2 l2 t2 s1 l1 t1 a2 b2 c2 d2 a1 b1 c1 d1)) /\
  (forall s l t a b c d, rep4 s l t a b c d -> numr (T_lorentz_dot s l t s l t a b c d a b c d) = numr (T_lorentz_tau2 s l t a b c d)).
Proof. exact (conj dot_sym2 (conj dot_self2 (conj dot_sym3 (conj dot_self3 (conj dot_sym4 dot_self4))))). Qed.

(* the dot product is bilinear: it IS the bilinear form x1 x2 + y1 y2 (+ z1 z2; t1 t2 - ...) of the denotations (C01),
   and add / scale act linearly on denotations; spelled out in 2D: *)
Theorem C11_dot_bilinear_planar : forall s1 s2 s3 f a1 b1 a2 b2 a3 b3,
  match den2 (T_planar_add s1 s2 a1 b1 a2 b2), den2 (T_planar_scale s1 f a1 b1) with
  | Some (x, y), Some (u, v) =>
      x * sx s3 a3 b3 + y * sy s3 a3 b3
        = (sx s1 a1 b1 * sx s3 a3 b3 + sy s1 a1 b1 * sy s3 a3 b3) + (sx s2 a2 b2 * sx s3 a3 b3 + sy s2 a2 b2 * sy s3 a3 b3)
      /\ u * sx s3 a3 b3 + v * sy s3 a3 b3 = f * (sx s1 a1 b1 * sx s3 a3 b3 + sy s1 a1 b1 * sy s3 a3 b3)
  | _, _ => False end.
Proof. exact dot_bilinear2. Qed.

Theorem C11_spatial_add_commutative : forall s1 l1 s2 l2 a1 b1 c1 a2 b2 c2,
  res_regular (T_spatial_add s1 l1 s2 l2 a1 b1 c1 a2 b2 c2) -> res_regular (T_spatial_add s2 l2 s1 l1 a2 b2 c2 a1 b1 c1) ->
  den3 (T_spatial_add s1 l1 s2 l2 a1 b1 c1 a2 b2 c2) = den3 (T_spatial_add s2 l2 s1 l1 a2 b2 c2 a1 b1 c1).
Proof. exact add_comm3. Qed.

Theorem C11_cross_laws : forall s1 l1 s2 l2 a1 b1 c1 a2 b2 c2,
  res_regular (T_spatial_cross s1 l1 s2 l2 a1 b1 c1 a2 b2 c2) ->
  (res_regular (T_spatial_cross s2 l2 s1 l1 a2 b2 c2 a1 b1 c1) ->
   match den3 (T_spatial_cross s1 l1 s2 l2 a1 b1 c1 a2 b2 c2), den3 (T_spatial_cross s2 l2 s1 l1 a2 b2 c2 a1 b1 c1) with
   | Some (x, y, z), Some (x', y', z') => x = - x' /\ y = - y' /\ z = - z' | _, _ => False end) /\
  (let x1 := sx s1 a1 b1 in let y1 := sy s1 a1 b1 in let z1 := sz s1 l1 a1 b1 c1 in
   let x2 := sx s2 a2 b2 in let y2 := sy s2 a2 b2 in let z2 := sz s2 l2 a2 b2 c2 in
   match den3 (T_spatial_cross s1 l1 s2 l2 a1 b1 c1 a2 b2 c2) with
   | Some (x, y, z) =>
       x * x1 + y * y1 + z * z1 = 0 /\ x * x2 + y * y2 + z * z2 = 0 /\
       x * x + y * y + z * z = (x1 * x1 + y1 * y1 + z1 * z1) * (x2 * x2 + y2 * y2 + z2 * z2)
                               - (x1 * x2 + y1 * y2 + z1 * z2) * (x1 * x2 + y1 * y2 + z1 * z2)
   | None => False end).
Proof.
  intros s1 l1 s2 l2 a1 b1 c1 a2 b2 c2 H.
  exact (conj (cross_antisym s1 l1 s2 l2 a1 b1 c1 a2 b2 c2 H) (cross_orthogonal_lagrange s1 l1 s2 l2 a1 b1 c1 a2 b2 c2 H)).
Qed.

(* unit: norm one and parallel (planar; the spatial / lorentz variants are the next theorem) *)
Theorem C11_planar_unit_partial : forall s a b, pos_az s a b ->
  match den2 (T_planar_unit s a b) with
  | Some (u, v) => u * u + v * v = 1 /\ u * sy s a b - v * sx s a b = 0 /\ 0 < u * sx s a b + v * sy s a b
  | None => False end.
Proof.
  intros s a b H. rewrite unit_spec by exact H. cbv zeta.
  set (x := sx s a b). set (y := sy s a b).
  assert (Hn : 0 < x * x + y * y).
  { unfold x, y. destruct s; cbn [sx sy pos_az] in *; [exact H | rewrite sq_cs; nra]. }
  assert (Hs : 0 < sqrt (x * x + y * y)) by (apply sqrt_lt_R0; exact Hn).
  assert (Hq : sqrt (x * x + y * y) * sqrt (x * x + y * y) = x * x + y * y) by (apply sqrt_sqrt; lra).
  set (n := sqrt (x * x + y * y)) in *. assert (Hi : 0 < / n) by (apply Rinv_0_lt_compat; exact Hs).
  repeat split.
  - replace (x / n * (x / n) + y / n * (y / n)) with ((x * x + y * y) / (n * n)) by (field; lra). rewrite Hq. field. lra.
  - field. lra.
  - replace (x / n * x + y / n * y) with ((x * x + y * y) * / n) by (field; lra). nra.
Qed.

(* spatial unit: norm one, parallel to v; lorentz unit: Minkowski norm one (time-like v), all signatures *)
Theorem C11_spatial_and_lorentz_unit : forall s l a b c, rep3 s l a b c -> 0 < smag2 s l a b c ->
  (match den3 (T_spatial_unit s l a b c) with
   | Some (u, v, w) => u * u + v * v + w * w = 1 /\
                       u * sy s a b - v * sx s a b = 0 /\ v * sz s l a b c - w * sy s a b = 0 /\
                       0 < u * sx s a b + v * sy s a b + w * sz s l a b c
   | None => False end) /\
  (forall t d, rep4 s l t a b c d -> smag2 s l a b c < st s l t a b c d * st s l t a b c d -> (t = TTau -> 0 < d) ->
     match den4 (T_lorentz_unit s l t a b c d) with
     | Some (u, v, w, e) => e * e - (u * u + v * v + w * w) = 1
     | None => False end).
Proof.
  intros s l a b c H Hm. split.
  - rewrite unit_spec3 by assumption.
    assert (Hu : 0 < sqrt (smag2 s l a b c)) by (apply sqrt_lt_R0; exact Hm).
    pose proof (sqrt_sqrt (smag2 s l a b c) (Rlt_le _ _ Hm)) as Hq.
    set (n := sqrt (smag2 s l a b c)) in *. unfold smag2 in Hq, Hm. set (x := sx s a b) in *. set (y := sy s a b) in *. set (z := sz s l a b c) in *.
    assert (Hi : 0 < / n) by (apply Rinv_0_lt_compat; exact Hu).
    repeat split.
    + replace (x / n * (x / n) + y / n * (y / n) + z / n * (z / n)) with ((x * x + y * y + z * z) / (n * n)) by (field; lra). rewrite <- Hq. field. lra.
    + field. lra.
    + field. lra.
    + replace (x / n * x + y / n * y + z / n * z) with ((x * x + y * y + z * z) * / n) by (field; lra). nra.
  - intros t d H4 Htl Hd. rewrite (unit_spec4 s l t a b c d H4 Htl Hd).
    set (T := st s l t a b c d) in *. set (P := smag2 s l a b c) in *.
    assert (Hq0 : 0 < T * T - P) by lra.
    assert (Hu : 0 < sqrt (T * T - P)) by (apply sqrt_lt_R0; exact Hq0).
    pose proof (sqrt_sqrt (T * T - P) (Rlt_le _ _ Hq0)) as Hq. set (n := sqrt (T * T - P)) in *.
    unfold P, smag2 in Hq. set (x := sx s a b) in *. set (y := sy s a b) in *. set (z := sz s l a b c) in *.
    replace (T / n * (T / n) - (x / n * (x / n) + y / n * (y / n) + z / n * (z / n))) with ((T * T - (x * x + y * y + z * z)) / (n * n)) by (field; lra).
    rewrite <- Hq. field. lra.
Qed.

(* the same laws hold in numba-compiled code: for these operations every program point of the numba-supported API has the
   same outcome (class, coordinate system, field expressions over the generated compute definitions) through the
   Numba overload layer as through the interpreter (T5 table, gen/NbApi*.v; exceptions: the C07 known findings) *)
Theorem C11_compiled_arithmetic_are_the_interpreted_ones :
  VP.NbChecks.agree_on [N_add; N_op_add; N_subtract; N_op_sub; N_dot; N_op_matmul; N_cross; N_scale; N_mul; N_rmul; N_div; N_neg; N_pos; N_unit; N_abs; N_pow2; N_pow3; N_scale2D; N_scale3D; N_scale4D; N_np_add; N_np_subtract; N_np_matmul; N_np_absolute; N_np_square; N_np_sqrt; N_np_cbrt; N_np_negative; N_np_positive; N_np_multiply; N_np_true_divide; N_np_power3]%list = true /\
  Nat.ltb 100 (VP.NbChecks.count_on [N_add; N_op_add; N_subtract; N_op_sub; N_dot; N_op_matmul; N_cross; N_scale; N_mul; N_rmul; N_div; N_neg; N_pos; N_unit; N_abs; N_pow2; N_pow3; N_scale2D; N_scale3D; N_scale4D; N_np_add; N_np_subtract; N_np_matmul; N_np_absolute; N_np_square; N_np_sqrt; N_np_cbrt; N_np_negative; N_np_positive; N_np_multiply; N_np_true_divide; N_np_power3]%list) = true.
Proof. vm_cast_no_check (conj (eq_refl true) (eq_refl true)). Qed.
