(* C02 — every operation computes its documented mathematical definition.  Statements only.
   lib/Spec.v holds the definitions written from the documentation (x = rho cos phi, z = rho cot theta = rho sinh eta,
   t = sqrt(tau^2+|p|^2), metric (-,-,-,+), active right-handed rotations, active boosts, ROOT Euler / quaternion
   conventions ...).  The theorems of C01 / C09 / C10 are stated against these definitions in every coordinate system, so
   they are the bulk of C02; this file names them and adds the remaining definitions on the Cartesian variants.
   PARTIAL: float64 rounding-error bounds are proved only for the Cartesian sums of products and their square roots
   (C02_float64_error_bounds_partial, in the rounding instance lib/FLib.v); for everything else float64 vs 60-digit evaluation is a
   test (evidence). *)
From Coq Require Import Reals.
From VP Require Import Lib RLib Spec Compute Tables Spec_planar Spec_spatial1 Spec_spatial2 Spec_lorentz C02_defs C09_boost C10_rot.
From VP Require Import Spec_lorentz2 Spec_lorentz3 Spec_lorentz4 Spec_lorentz5 FLib C02_float.
Open Scope R_scope.

(* coordinate relations, all systems *)
Theorem C02_coordinate_relations : forall s l t a b c d,
  numr (T_planar_x s a b) = Some (sx s a b) /\ numr (T_planar_y s a b) = Some (sy s a b) /\
  numr (T_spatial_z s l a b c) = Some (sz s l a b c) /\
  (rep4 s l t a b c d -> numr (T_lorentz_t s l t a b c d) = Some (st s l t a b c d)) /\
  (canon_az s a b -> exists p, numr (T_planar_phi s a b) = Some p /\ polar_angle (sx s a b) (sy s a b) p) /\
  (pos_az s a b -> canon_lg l c -> exists th, numr (T_spatial_theta s l a b c) = Some th /\ is_theta (srho s a b) (sz s l a b c) th) /\
  (pos_az s a b -> canon_lg l c -> exists e, numr (T_spatial_eta s l a b c) = Some e /\ srho s a b * sinh e = sz s l a b c).
Proof.
  intros. exact (conj (x_spec s a b) (conj (y_spec s a b) (conj (z_spec s l a b c) (conj (t_spec s l t a b c d)
    (conj (phi_spec s a b) (conj (theta_spec s l a b c) (eta_spec s l a b c))))))).
Qed.

(* Euclidean and Minkowski (-,-,-,+) products, all pairings *)
Theorem C02_metric : 
  (forall s1 s2 a1 b1 a2 b2, numr (T_planar_dot s1 s2 a1 b1 a2 b2) = Some (sx s1 a1 b1 * sx s2 a2 b2 + sy s1 a1 b1 * sy s2 a2 b2)) /\
  (forall s1 l1 s2 l2 a1 b1 c1 a2 b2 c2, numr (T_spatial_dot s1 l1 s2 l2 a1 b1 c1 a2 b2 c2)
     = Some (sx s1 a1 b1 * sx s2 a2 b2 + sy s1 a1 b1 * sy s2 a2 b2 + sz s1 l1 a1 b1 c1 * sz s2 l2 a2 b2 c2)) /\
  (forall s1 l1 t1 s2 l2 t2 a1 b1 c1 d1 a2 b2 c2 d2, rep4 s1 l1 t1 a1 b1 c1 d1 -> rep4 s2 l2 t2 a2 b2 c2 d2 ->
     numr (T_lorentz_dot s1 l1 t1 s2 l2 t2 a1 b1 c1 d1 a2 b2 c2 d2)
     = Some (st s1 l1 t1 a1 b1 c1 d1 * st s2 l2 t2 a2 b2 c2 d2
             - (sx s1 a1 b1 * sx s2 a2 b2 + sy s1 a1 b1 * sy s2 a2 b2 + sz s1 l1 a1 b1 c1 * sz s2 l2 a2 b2 c2))).
Proof. exact (conj dot_spec (conj dot_spec3 dot_spec4)). Qed.

(* rotations: active, right-handed; Euler order "abc" = R_a(-psi) R_b(-theta) R_c(-phi) (ROOT); quaternion sandwich; Rodrigues *)
Theorem C02_rotations : forall (a x y z : R),
  den3 (T_spatial_rotateX XY LZ a x y z) = Some (Rx a (x, y, z)) /\
  den3 (T_spatial_rotateY XY LZ a x y z) = Some (Ry a (x, y, z)) /\
  den2 (T_planar_rotateZ XY a x y) = Some (cos a * x - sin a * y, sin a * x + cos a * y) /\
  (forall o phi theta psi, den3 (T_spatial_rotate_euler XY LZ o phi theta psi x y z) = Some (euler_spec o phi theta psi (x, y, z))) /\
  (forall u i j k, den3 (T_spatial_rotate_quaternion XY LZ u i j k x y z) = Some (Rquat u i j k (x, y, z))).
Proof.
  intros. exact (conj (rotateX_is_Rx a x y z) (conj (rotateY_is_Ry a x y z) (conj (rotateZ_spec XY a x y)
    (conj (fun o phi theta psi => euler_is_product o phi theta psi x y z) (fun u i j k => quaternion_is_Rquat u i j k x y z))))).
Qed.

(* boosts: the textbook active boost matrix *)
Theorem C02_boost : forall (x y z t bx by_ bz : R),
  den4 (T_lorentz_boost_beta3 XY LZ TT XY LZ x y z t bx by_ bz) = Some (boost3 bx by_ bz (x, y, z, t)).
Proof. exact boost_beta3_is_boost3. Qed.

(* deltaphi wrapped into [-pi, pi); deltaR^2 = deltaphi^2 + deltaeta^2; deltaR = sqrt(deltaR2) *)
Theorem C02_deltas : forall s1 l1 s2 l2 a1 b1 c1 a2 b2 c2,
  (canon_az s1 a1 b1 -> canon_az s2 a2 b2 ->
     exists d p1 p2, numr (T_planar_deltaphi s1 s2 a1 b1 a2 b2) = Some d /\
       polar_angle (sx s1 a1 b1) (sy s1 a1 b1) p1 /\ polar_angle (sx s2 a2 b2) (sy s2 a2 b2) p2 /\
       cos d = cos (p1 - p2) /\ sin d = sin (p1 - p2) /\ - PI <= d < PI) /\
  numr (T_spatial_deltaR2 s1 l1 s2 l2 a1 b1 c1 a2 b2 c2)
    = lift2 (fun p e => p * p + e * e) (numr (T_planar_deltaphi s1 s2 a1 b1 a2 b2)) (numr (T_spatial_deltaeta s1 l1 s2 l2 a1 b1 c1 a2 b2 c2)) /\
  numr (T_spatial_deltaR s1 l1 s2 l2 a1 b1 c1 a2 b2 c2) = lift1 sqrt (numr (T_spatial_deltaR2 s1 l1 s2 l2 a1 b1 c1 a2 b2 c2)) /\
  numr (T_spatial_deltaeta s1 l1 s2 l2 a1 b1 c1 a2 b2 c2) = lift2 Rminus (numr (T_spatial_eta s1 l1 a1 b1 c1)) (numr (T_spatial_eta s2 l2 a2 b2 c2)).
Proof.
  intros. exact (conj (deltaphi_spec s1 s2 a1 b1 a2 b2) (conj (deltaR2_def s1 l1 s2 l2 a1 b1 c1 a2 b2 c2)
    (conj (deltaR_def s1 l1 s2 l2 a1 b1 c1 a2 b2 c2) (deltaeta_def s1 l1 s2 l2 a1 b1 c1 a2 b2 c2)))).
Qed.

(* rapidity, transverse mass and energy, beta, gamma, tau, to_beta3, scale, general linear maps (Cartesian variants) *)
Theorem C02_lorentz_scalars : forall (x y z t : R),
  numr (T_lorentz_rapidity XY LZ TT x y z t) = Some (1 / 2 * ln ((t + z) / (t - z))) /\
  numr (T_lorentz_Mt2 XY LZ TT x y z t) = Some (t * t - z * z) /\ numr (T_lorentz_Mt XY LZ TT x y z t) = Some (sqrt (t * t - z * z)) /\
  numr (T_lorentz_Et2 XY LZ TT x y z t) = Some (t * t * (x * x + y * y) / (x * x + y * y + z * z)) /\
  (0 < x * x + y * y -> exists th, is_theta (sqrt (x * x + y * y)) z th /\ numr (T_lorentz_Et XY LZ TT x y z t) = Some (t * sin th)) /\
  numr (T_lorentz_beta XY LZ TT x y z t) = Some (sqrt (x * x + y * y + z * z) / t) /\
  (x * x + y * y + z * z < t * t -> numr (T_lorentz_gamma XY LZ TT x y z t) = Some (t / sqrt (t * t - (x * x + y * y + z * z)))) /\
  (x * x + y * y + z * z <= t * t -> numr (T_lorentz_tau XY LZ TT x y z t) = Some (sqrt (t * t - (x * x + y * y + z * z)))) /\
  den3 (T_lorentz_to_beta3 XY LZ TT x y z t) = Some (x / t, y / t, z / t).
Proof.
  intros. exact (conj (rapidity_def x y z t) (conj (Mt2_def x y z t) (conj (Mt_def x y z t) (conj (Et2_def x y z t)
    (conj (Et_is_t_sin_theta x y z t) (conj (beta_def x y z t) (conj (gamma_def x y z t) (conj (tau_def x y z t) (to_beta3_def x y z t))))))))).
Qed.
Theorem C02_linear_maps : forall (s : az) (a b : R),
  (forall xx xy yx yy, den2 (T_planar_transform2D s xx xy yx yy a b) = Some (xx * sx s a b + xy * sy s a b, yx * sx s a b + yy * sy s a b)) /\
  (forall xx xy xz yx yy yz zx zy zz x y z, den3 (T_spatial_transform3D XY LZ xx xy xz yx yy yz zx zy zz x y z)
     = Some (xx * x + xy * y + xz * z, yx * x + yy * y + yz * z, zx * x + zy * y + zz * z)) /\
  (forall xx xy xz xt yx yy yz yt zx zy zz zt tx ty tz tt x y z t,
     den4 (T_lorentz_transform4D XY LZ TT xx xy xz xt yx yy yz yt zx zy zz zt tx ty tz tt x y z t)
     = Some (xx * x + xy * y + xz * z + xt * t, yx * x + yy * y + yz * z + yt * t, zx * x + zy * y + zz * z + zt * t, tx * x + ty * y + tz * z + tt * t)).
Proof.
  intros. exact (conj (fun xx xy yx yy => transform2D_spec s xx xy yx yy a b) (conj transform3D_def transform4D_def)).
Qed.

(* the documented definitions of the Lorentz scalars and of the unit vectors hold in EVERY coordinate system (12 signatures), in terms
   of the Cartesian denotation (T = time, Z = z, P2 = |p|^2, rho): beta = |p| / t, gamma = t / tau, tau = sqrt(t^2 - |p|^2),
   rapidity = 1/2 ln((t + z) / (t - z)), Mt^2 = t^2 - z^2, Et = t rho / |p| (= t sin theta), unit = v / |v|, v / tau *)
Theorem C02_lorentz_scalars_all_signatures : forall s l t a b c d, rep4 s l t a b c d ->
  let T := st s l t a b c d in let Z := sz s l a b c in let P2 := smag2 s l a b c in
  numr (T_lorentz_beta s l t a b c d) = Some (sqrt P2 / T) /\
  numr (T_lorentz_rapidity s l t a b c d) = Some (1 / 2 * ln ((T + Z) / (T - Z))) /\
  numr (T_lorentz_Mt2 s l t a b c d) = Some (T * T - Z * Z) /\
  numr (T_lorentz_Mt s l t a b c d) = Some (sqrt (T * T - Z * Z)) /\
  (P2 <= T * T -> numr (T_lorentz_tau s l t a b c d) = Some (sqrt (T * T - P2))) /\
  (P2 <= T * T -> numr (T_lorentz_gamma s l t a b c d) = Some (T / sqrt (T * T - P2))) /\
  (pos_az s a b -> numr (T_lorentz_Et s l t a b c d) = Some (T * srho s a b / sqrt P2)) /\
  (pos_az s a b -> numr (T_lorentz_Et2 s l t a b c d) = Some ((T * srho s a b / sqrt P2) * (T * srho s a b / sqrt P2))) /\
  (0 < P2 -> den3 (T_spatial_unit s l a b c) = Some (sx s a b / sqrt P2, sy s a b / sqrt P2, Z / sqrt P2)) /\
  (P2 < T * T -> (t = TTau -> 0 < d) ->
     den4 (T_lorentz_unit s l t a b c d)
     = Some (sx s a b / sqrt (T * T - P2), sy s a b / sqrt (T * T - P2), Z / sqrt (T * T - P2), T / sqrt (T * T - P2))).
Proof.
  intros s l t a b c d H. cbv zeta. pose proof H as [H3 _].
  exact (conj (beta_spec s l t a b c d H) (conj (rapidity_spec s l t a b c d H) (conj (Mt2_spec s l t a b c d H)
    (conj (Mt_spec s l t a b c d H) (conj (tau_spec s l t a b c d H) (conj (gamma_spec s l t a b c d H)
    (conj (Et_spec s l t a b c d H) (conj (Et2_spec s l t a b c d H) (conj (unit_spec3 s l a b c H3) (unit_spec4 s l t a b c d H)))))))))).
Qed.

(* the general linear transform is the documented matrix-vector product in EVERY coordinate system: 2D above; 4D here for all 12
   signatures (the time of a tau-stored vector is computed first); the result is returned in Cartesian coordinates *)
Theorem C02_transform4D_all_signatures : forall s l t a b c d, rep4 s l t a b c d ->
  forall xx xy xz xt yx yy yz yt zx zy zz zt tx ty tz tt,
  let x := sx s a b in let y := sy s a b in let z := sz s l a b c in let u := st s l t a b c d in
  den4 (T_lorentz_transform4D s l t xx xy xz xt yx yy yz yt zx zy zz zt tx ty tz tt a b c d)
  = Some (xx * x + xy * y + xz * z + xt * u, yx * x + yy * y + yz * z + yt * u, zx * x + zy * y + zz * z + zt * u, tx * x + ty * y + tz * z + tt * u).
Proof.
  intros s l t a b c d H *. cbv zeta. rewrite (transform4D_square_all s l t a b c d _ _ _ _ _ _ _ _ _ _ _ _ _ _ _ _ H). apply transform4D_def.
Qed.

(* ---------------- float clause (PARTIAL) ----------------
   The generated definitions are polymorphic in the arithmetic (Class Lib).  lib/FLib.v reads them with every + - * / sqrt followed
   by rounding to nearest-even at 53 bits (Flocq's FLX format: binary64 with the exponent range left unbounded, i.e. no overflow and
   no underflow) and x**2 as ANY function with a one-ulp contract (sq_ok: numpy squares by a correctly rounded multiplication, the
   object backend's Python floats go through libm's pow).  For these instances the float result of the SAME definitions is within
     g_k = (1+u)^k - 1 <= (k+1) u,  h_k <= (k+2) u,   u = 2^-53
   of the exact value, relative to the sum of the magnitudes of the terms (which IS the value for the sums of squares: these are
   unconditionally well-conditioned), i.e. "a small multiple of rounding error for well-conditioned operands".
   Missing for the full clause: the other coordinate systems (libm's sin/cos/exp/... carry no proved contract), overflow / underflow. *)
Theorem C02_float64_error_bounds_partial : forall sq, sq_ok sq ->
  (forall x1 y1 x2 y2, exists v e,
     numf (@T_planar_dot (FLib sq) XY XY x1 y1 x2 y2) = Some v /\ numr (@T_planar_dot RLib XY XY x1 y1 x2 y2) = Some e /\
     Rabs (v - e) <= g2 * (Rabs (x1 * x2) + Rabs (y1 * y2))) /\
  (forall x1 y1 z1 x2 y2 z2, exists v e,
     numf (@T_spatial_dot (FLib sq) XY LZ XY LZ x1 y1 z1 x2 y2 z2) = Some v /\ numr (@T_spatial_dot RLib XY LZ XY LZ x1 y1 z1 x2 y2 z2) = Some e /\
     Rabs (v - e) <= g3 * (Rabs (x1 * x2) + Rabs (y1 * y2) + Rabs (z1 * z2))) /\
  (forall x1 y1 z1 t1 x2 y2 z2 t2, exists v e,
     numf (@T_lorentz_dot (FLib sq) XY LZ TT XY LZ TT x1 y1 z1 t1 x2 y2 z2 t2) = Some v /\
     numr (@T_lorentz_dot RLib XY LZ TT XY LZ TT x1 y1 z1 t1 x2 y2 z2 t2) = Some e /\
     Rabs (v - e) <= g4 * (Rabs (t1 * t2) + Rabs (x1 * x2) + Rabs (y1 * y2) + Rabs (z1 * z2))) /\
  (forall x y, exists v e, numf (@T_planar_rho2 (FLib sq) XY x y) = Some v /\ numr (@T_planar_rho2 RLib XY x y) = Some e /\
     e = x * x + y * y /\ Rabs (v - e) <= h2 * e) /\
  (forall x y z, exists v e, numf (@T_spatial_mag2 (FLib sq) XY LZ x y z) = Some v /\ numr (@T_spatial_mag2 RLib XY LZ x y z) = Some e /\
     e = x * x + y * y + z * z /\ Rabs (v - e) <= h3 * e) /\
  (forall x y, exists v, numf (@T_planar_rho (FLib sq) XY x y) = Some v /\ Rabs (v - sqrt (x * x + y * y)) <= h3 * sqrt (x * x + y * y)) /\
  (forall x y z, exists v, numf (@T_spatial_mag (FLib sq) XY LZ x y z) = Some v /\
     Rabs (v - sqrt (x * x + y * y + z * z)) <= h4 * sqrt (x * x + y * y + z * z)) /\
  (forall x1 y1 z1 x2 y2 z2, exists a b c, den3f (@T_spatial_add (FLib sq) XY LZ XY LZ x1 y1 z1 x2 y2 z2) = Some (a, b, c) /\
     Rabs (a - (x1 + x2)) <= u53 * Rabs (x1 + x2) /\ Rabs (b - (y1 + y2)) <= u53 * Rabs (y1 + y2) /\ Rabs (c - (z1 + z2)) <= u53 * Rabs (z1 + z2)) /\
  (forall x1 y1 z1 x2 y2 z2, exists a b c, den3f (@T_spatial_subtract (FLib sq) XY LZ XY LZ x1 y1 z1 x2 y2 z2) = Some (a, b, c) /\
     Rabs (a - (x1 - x2)) <= u53 * Rabs (x1 - x2) /\ Rabs (b - (y1 - y2)) <= u53 * Rabs (y1 - y2) /\ Rabs (c - (z1 - z2)) <= u53 * Rabs (z1 - z2)) /\
  (forall x1 y1 z1 x2 y2 z2, exists a b c, den3f (@T_spatial_cross (FLib sq) XY LZ XY LZ x1 y1 z1 x2 y2 z2) = Some (a, b, c) /\
     Rabs (a - (y1 * z2 - z1 * y2)) <= g2 * (Rabs (y1 * z2) + Rabs (z1 * y2)) /\
     Rabs (b - (z1 * x2 - x1 * z2)) <= g2 * (Rabs (z1 * x2) + Rabs (x1 * z2)) /\
     Rabs (c - (x1 * y2 - y1 * x2)) <= g2 * (Rabs (x1 * y2) + Rabs (y1 * x2))) /\
  (forall x y z t, exists v e, numf (@T_lorentz_tau2 (FLib sq) XY LZ TT x y z t) = Some v /\ numr (@T_lorentz_tau2 RLib XY LZ TT x y z t) = Some e /\
     e = t * t - (x * x + y * y + z * z) /\ Rabs (v - e) <= h4 * (t * t + x * x + y * y + z * z)) /\
  (g2 <= 3 * u53 /\ g3 <= 4 * u53 /\ g4 <= 5 * u53 /\ h2 <= 4 * u53 /\ h3 <= 5 * u53 /\ h4 <= 6 * u53) /\ u53 = / IZR (2 ^ 53).
Proof.
  intros sq Hsq.
  exact (conj (dot2_float_error sq) (conj (dot3_float_error sq) (conj (dot4_float_error sq) (conj (fun x y => rho2_float_error sq x y Hsq)
    (conj (fun x y z => mag2_float_error sq x y z Hsq) (conj (fun x y => rho_float_error sq x y Hsq) (conj (fun x y z => mag_float_error sq x y z Hsq)
    (conj (add3_float_error sq) (conj (subtract3_float_error sq) (conj (cross_float_error sq) (conj (fun x y z t => tau2_float_error sq x y z t Hsq)
    (conj g_numeric u53_value)))))))))))).
Qed.

(* the squaring contract is satisfiable (by the correctly rounded multiplication) *)
Example C02_float_nonvacuous : exists sq, sq_ok sq.
Proof. exact (ex_intro _ _ sq_ok_mult). Qed.
