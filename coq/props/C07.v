(* C07 — Numba-compiled code behaves like the interpreter.  Statements only.
   gen/NbApi*.v (T5, regenerated from the source on every run): every program point of the numba-supported API —
   getters, conversions, unary / binary methods and operators over all 20 coordinate systems x 2 flavors (x second
   operand), vector.obj over coordinate-name sets, and the Awkward typer (the Numba type given to a record of an Awkward vector array
   with each documented field-name set, next to the type of the equivalent object) — executed symbolically (i) through the overload layer of
   _numba_object.py at typing level and (ii) through the real object backend.  An outcome is the result class,
   its coordinate systems and one expression per stored coordinate in terms of calls of the generated compute
   definitions on the operands' stored coordinates: equal outcomes = same class, flavor, dimension, coordinate system
   and same value for every operand value. *)
From Coq Require Import ZArith List Bool.
From VP Require Import ObjModel ObjNames NbModel NbApi NbChecks.

(* every program point on which both paths return a value: identical outcomes, up to the two listed known findings
   (class flavor of mixed generic/momentum binary results; numpy.power(v, 2)) and Python's reflected == / != *)
Theorem C07_every_point_agrees : forallb agree_known nb_tab = true.
Proof. vm_cast_no_check (eq_refl true). Qed.

(* values, dimension and coordinate system agree on EVERY point, the flavor finding included *)
Theorem C07_values_dimension_system_agree : forallb agree_values nb_tab = true.
Proof. vm_cast_no_check (eq_refl true). Qed.

(* whatever the interpreter computes, the compiled API types too, except the eight unregistered spellings *)
Theorem C07_supported_api_is_total : forallb supported_ok nb_tab = true.
Proof. vm_cast_no_check (eq_refl true). Qed.

(* programs of ANY length: compositions of steps of the vocabulary (getter / conversion / unary / binary with a fixed
   second operand) give identical outcomes through both paths whenever both return *)
Theorem C07_programs_of_any_length_agree : forall (p : list (stepkind * name)) (a b : outcome),
  returns (run_nb step_tab b a p) = true -> returns (run_py step_tab b a p) = true ->
  run_nb step_tab b a p = run_py step_tab b a p.
Proof. intros p a b. apply programs_agree. apply rows_strict_sound. vm_cast_no_check (eq_refl true). Qed.

(* chains of two or three calls executed DIRECTLY through both paths (sampled with the run's seed): they agree, and
   the composition of table rows predicts them (this validates the compositional model used above) *)
Theorem C07_sampled_chains_agree : forallb chain_known chain_tab = true.
Proof. vm_cast_no_check (eq_refl true). Qed.
Theorem C07_chains_are_compositions : forallb (chain_consistent (ilookup nb_index)) chain_tab = true.
Proof. vm_cast_no_check (eq_refl true). Qed.

Example C07_nonvacuous :
  Nat.ltb 10000 (count both_return nb_tab) = true /\ Nat.ltb 12000 (length step_tab) = true /\
  Nat.ltb 100 (count (chain_covered (ilookup nb_index)) chain_tab) = true /\ Nat.ltb 1000 (count known nb_tab) = true.
Proof. vm_compute. repeat split; reflexivity. Qed.
