(* C18 — Awkward arrays keep structure and extra fields through vector operations.  Statements only.
   Model (model/Layout.v): a layout is a tree of lists / missing values / leaf records, of ANY depth; a vector operation is
   the elementwise lift (lmap / lzip) of the object-level operation.  Proved by induction on the layout.  The real backend
   is tied to lmap / lzip by the correspondence on generated layouts (see evidence). *)
From Coq Require Import List.
From VP Require Import Layout.
Import ListNotations.

(* a one-array operation returns the same list structure, the same missing-value positions and the same nesting *)
Theorem C18_unary_operations_preserve_structure : forall (A B : Type) (f : A -> B) (t : layout A),
  skeleton (lmap f t) = skeleton t /\ forall p, at_path p (lmap f t) = option_map f (at_path p t).
Proof. intros. split; [apply skeleton_lmap | apply at_path_lmap]. Qed.

(* ... acts on the vector part of each record and carries every other field unchanged *)
Theorem C18_extra_fields_are_carried : forall (V W X : Type) (op : V -> W) (t : layout (V * X)) p,
  option_map snd (at_path p (lmap (on_vector op) t)) = option_map snd (at_path p t) /\
  option_map fst (at_path p (lmap (on_vector op) t)) = option_map op (option_map fst (at_path p t)).
Proof. intros. apply extras_carried. Qed.

(* two arrays of the same structure combine element by element and keep that structure; a single object, record or
   scalar broadcasts against any structure *)
Theorem C18_binary_operations : forall (A B C : Type) (f : A -> B -> C) (s : layout A) (t : layout B),
  (skeleton s = skeleton t ->
     skeleton (lzip f s t) = skeleton s /\
     forall p, at_path p (lzip f s t) = match at_path p s, at_path p t with Some a, Some b => Some (f a b) | _, _ => None end) /\
  (forall a, lzip f (Leaf a) t = lmap (f a) t) /\ (forall b, lzip f s (Leaf b) = lmap (fun a => f a b) s).
Proof.
  intros. split; [apply lzip_same_structure|]. split; intros; [apply lzip_broadcast_left | apply lzip_broadcast_right].
Qed.

Example C18_nonvacuous :
  skeleton (lmap S (ListOf [ListOf [Leaf 1; Missing]; Missing; ListOf []])) = ListOf [ListOf [Leaf tt; Missing]; Missing; ListOf []] /\
  at_path [0; 0] (lmap S (ListOf [ListOf [Leaf 1; Missing]; Missing; ListOf []])) = Some 2.
Proof. split; reflexivity. Qed.
