(* C17 — reductions of vector arrays are component-wise Cartesian reductions.  Statements only.
   Model: model/Layout.v (arrays of any length, rows of any number) instantiated in proofs/C17_reduce.v with vectors
   stored in arbitrary coordinate systems; the per-element columns the real reducers add up are the accessors of C01. *)
From Coq Require Import Reals List.
From VP Require Import Lib RLib Spec Compute Tables Spec_lorentz Layout C17_reduce.
From VP Require ObjModel ObjNames ObjApi ObjChecks NpReduce ReduceChecks NbModel.
Import ListNotations.
Open Scope R_scope.

Definition total := vsum cart4 add4 zero4.

(* each element contributes its Cartesian components, whatever system IT is stored in (elements may differ) *)
Theorem C17_summands_are_cartesian_components : forall l : list stored4, Forall rep l ->
  map accessor_columns l = map (fun v => Some (cart4 v)) l.
Proof. exact sum_is_cartesian_sum. Qed.

(* sums over arrays of any length: empty -> zero vector; concatenation -> sum of sums; only Cartesian components matter *)
Theorem C17_sum_laws :
  total [] = zero4 /\
  (forall l1 l2, total (l1 ++ l2) = add4 (total l1) (total l2)) /\
  (forall l1 l2, map cart4 l1 = map cart4 l2 -> total l1 = total l2).
Proof.
  exact (conj (vsum_empty cart4 add4 zero4) (conj (vsum_app cart4 add4 zero4 add4_assoc add4_0)
              (vsum_depends_on_cart_only cart4 add4 zero4))).
Qed.

(* 2-D arrays, any number of rows and columns: axis=None is the sum of the axis=1 (= -1) row sums and of the axis=0 column sums *)
Theorem C17_axes_are_consistent : forall (rows : list (list stored4)) n, Forall (fun r => length r = n) rows ->
  sum_all cart4 add4 zero4 rows = csum add4 zero4 (sum_axis1 cart4 add4 zero4 rows) /\
  csum add4 zero4 (sum_axis0 cart4 add4 zero4 rows n) = sum_all cart4 add4 zero4 rows.
Proof.
  intros rows n H. split.
  - apply sum_all_is_sum_of_row_sums. exact add4_assoc. exact add4_0.
  - apply sum_axis0_total; auto using add4_assoc, add4_comm, add4_0.
Qed.

(* count_nonzero: the test rho2 != 0 or z != 0 or t2 != 0 is "not the zero vector"; counts add over concatenation, are
   bounded by the number of elements and equal it when no element is zero *)
Theorem C17_nonzero_test : forall v, rep v ->
  match numr (T_planar_rho2 (v_s v) (v_a v) (v_b v)), numr (T_spatial_z (v_s v) (v_l v) (v_a v) (v_b v) (v_c v)),
        numr (T_lorentz_t2 (v_s v) (v_l v) (v_t v) (v_a v) (v_b v) (v_c v) (v_d v)), numr (T_lorentz_t (v_s v) (v_l v) (v_t v) (v_a v) (v_b v) (v_c v) (v_d v)) with
  | Some r2, Some z, Some _, Some t => (r2 <> 0 \/ z <> 0 \/ t * t <> 0) <-> cart4 v <> zero4
  | _, _, _, _ => False end.
Proof. exact nonzero_test_is_not_zero_vector. Qed.
Theorem C17_count_laws : forall (V : Type) (is_zero : V -> bool),
  (forall l1 l2, count_nonzero is_zero (l1 ++ l2) = (count_nonzero is_zero l1 + count_nonzero is_zero l2)%nat) /\
  (forall l, (count_nonzero is_zero l <= length l)%nat) /\
  (forall l, (forall v, In v l -> is_zero v = false) -> count_nonzero is_zero l = length l).
Proof. intros. exact (conj (count_nonzero_app is_zero) (conj (count_nonzero_bound is_zero) (count_nonzero_all is_zero))). Qed.

(* The REAL NumPy reducer, executed symbolically (T6, gen/NpReduce.v): numpy.sum / .sum() of vector arrays of 1, 3 and 2x2 symbolic
   elements, axis in {None, 0, 1, -1, (0,1)}, keepdims, for all 20 coordinate systems x 2 flavors.  Every output element is a
   Cartesian vector of the operand's flavor whose components are the sums, over exactly the input elements NumPy reduces into it
   and in its order, of the elements' Cartesian accessors (the object backend's accessors of the T3 table, i.e. the generated
   compute definitions) — the summands of C17_summands_are_cartesian_components; sizes beyond these are the induction above. *)
Theorem C17_numpy_sum_adds_cartesian_accessors :
  forallb VP.ReduceChecks.check_reduce VP.NpReduce.reduce_tab = true /\
  Nat.ltb 600 (VP.NbModel.count VP.ReduceChecks.multi VP.NpReduce.reduce_tab) = true.
Proof. vm_cast_no_check (conj (eq_refl true) (eq_refl true)). Qed.
