(* C01 — results do not depend on the coordinate system operands are stored in.
   Form: every operation, in every signature, FACTORS THROUGH the Cartesian denotation of its
   operands (sx, sy, sz, st of lib/Spec.v): the value (or, for vector results, the Cartesian reading of
   the result in its declared system) is a function of the denoted points only.  Hence any two storages
   of the same geometric operands give the same result (explicit corollaries at the end).
   Statements only; proofs in proofs/Spec_*.v over the definitions generated from /repo on this run. *)
From Coq Require Import Reals.
From VP Require Import Lib RLib Spec Compute Tables Spec_planar Spec_spatial1 Spec_spatial2 Spec_lorentz Spec_lorentz2 Spec_lorentz3 Spec_lorentz4 Spec_lorentz5.
From VP Require ObjModel ObjNames NbModel NbApi NbChecks.
Import ObjNames List.ListNotations.
Open Scope R_scope.

(* ---------------- planar (19 modules; equal/not_equal/isclose are C12, is_* are C13) ---------------- *)
Theorem C01_planar_accessors : forall s a b,
  numr (T_planar_x s a b) = Some (sx s a b) /\ numr (T_planar_y s a b) = Some (sy s a b) /\
  numr (T_planar_rho2 s a b) = Some (sx s a b * sx s a b + sy s a b * sy s a b) /\
  (canon_az s a b -> numr (T_planar_rho s a b) = Some (sqrt (sx s a b * sx s a b + sy s a b * sy s a b))) /\
  (canon_az s a b -> exists p, numr (T_planar_phi s a b) = Some p /\ polar_angle (sx s a b) (sy s a b) p).
Proof. intros. exact (conj (x_spec s a b) (conj (y_spec s a b) (conj (rho2_spec s a b) (conj (rho_spec s a b) (phi_spec s a b))))). Qed.

Theorem C01_planar_binary : forall s1 s2 a1 b1 a2 b2,
  numr (T_planar_dot s1 s2 a1 b1 a2 b2) = Some (sx s1 a1 b1 * sx s2 a2 b2 + sy s1 a1 b1 * sy s2 a2 b2) /\
  den2 (T_planar_add s1 s2 a1 b1 a2 b2) = Some (sx s1 a1 b1 + sx s2 a2 b2, sy s1 a1 b1 + sy s2 a2 b2) /\
  den2 (T_planar_subtract s1 s2 a1 b1 a2 b2) = Some (sx s1 a1 b1 - sx s2 a2 b2, sy s1 a1 b1 - sy s2 a2 b2) /\
  (canon_az s1 a1 b1 -> canon_az s2 a2 b2 ->
   exists d p1 p2, numr (T_planar_deltaphi s1 s2 a1 b1 a2 b2) = Some d /\
     polar_angle (sx s1 a1 b1) (sy s1 a1 b1) p1 /\ polar_angle (sx s2 a2 b2) (sy s2 a2 b2) p2 /\
     cos d = cos (p1 - p2) /\ sin d = sin (p1 - p2) /\ - PI <= d < PI).
Proof.
  intros. exact (conj (dot_spec s1 s2 a1 b1 a2 b2) (conj (add_spec s1 s2 a1 b1 a2 b2)
    (conj (subtract_spec s1 s2 a1 b1 a2 b2) (deltaphi_spec s1 s2 a1 b1 a2 b2)))).
Qed.

Theorem C01_planar_transforms : forall s a b,
  (forall ang, den2 (T_planar_rotateZ s ang a b)
     = Some (cos ang * sx s a b - sin ang * sy s a b, sin ang * sx s a b + cos ang * sy s a b)) /\
  (forall f, den2 (T_planar_scale s f a b) = Some (sx s a b * f, sy s a b * f)) /\
  (forall xx xy yx yy, den2 (T_planar_transform2D s xx xy yx yy a b)
     = Some (xx * sx s a b + xy * sy s a b, yx * sx s a b + yy * sy s a b)) /\
  (pos_az s a b -> let n := sqrt (sx s a b * sx s a b + sy s a b * sy s a b) in
     den2 (T_planar_unit s a b) = Some (sx s a b / n, sy s a b / n)).
Proof.
  intros. exact (conj (fun ang => rotateZ_spec s ang a b) (conj (fun f => scale_spec s f a b)
    (conj (fun xx xy yx yy => transform2D_spec s xx xy yx yy a b) (unit_spec s a b)))).
Qed.

(* ---------------- spatial ---------------- *)
Theorem C01_spatial_accessors : forall s l a b c,
  numr (T_spatial_z s l a b c) = Some (sz s l a b c) /\
  (canon_az s a b -> canon_lg l c -> numr (T_spatial_mag2 s l a b c) = Some (smag2 s l a b c)) /\
  (canon_az s a b -> canon_lg l c -> numr (T_spatial_mag s l a b c) = Some (sqrt (smag2 s l a b c))) /\
  (pos_az s a b -> canon_lg l c ->
     exists th, numr (T_spatial_theta s l a b c) = Some th /\ is_theta (srho s a b) (sz s l a b c) th) /\
  (pos_az s a b -> canon_lg l c ->
     exists e, numr (T_spatial_eta s l a b c) = Some e /\ srho s a b * sinh e = sz s l a b c) /\
  (pos_az s a b -> canon_lg l c ->
     exists v, numr (T_spatial_costheta s l a b c) = Some v /\ sqrt (smag2 s l a b c) * v = sz s l a b c) /\
  (pos_az s a b -> canon_lg l c ->
     exists v, numr (T_spatial_cottheta s l a b c) = Some v /\ srho s a b * v = sz s l a b c).
Proof.
  intros. exact (conj (z_spec s l a b c) (conj (mag2_spec s l a b c) (conj (mag_spec s l a b c)
    (conj (theta_spec s l a b c) (conj (eta_spec s l a b c) (conj (costheta_spec s l a b c) (cottheta_spec s l a b c))))))).
Qed.

Theorem C01_spatial_binary : forall s1 l1 s2 l2 a1 b1 c1 a2 b2 c2,
  let x1 := sx s1 a1 b1 in let y1 := sy s1 a1 b1 in let z1 := sz s1 l1 a1 b1 c1 in
  let x2 := sx s2 a2 b2 in let y2 := sy s2 a2 b2 in let z2 := sz s2 l2 a2 b2 c2 in
  numr (T_spatial_dot s1 l1 s2 l2 a1 b1 c1 a2 b2 c2) = Some (x1 * x2 + y1 * y2 + z1 * z2) /\
  (res_regular (T_spatial_add s1 l1 s2 l2 a1 b1 c1 a2 b2 c2) ->
     den3 (T_spatial_add s1 l1 s2 l2 a1 b1 c1 a2 b2 c2) = Some (x1 + x2, y1 + y2, z1 + z2)) /\
  (res_regular (T_spatial_subtract s1 l1 s2 l2 a1 b1 c1 a2 b2 c2) ->
     den3 (T_spatial_subtract s1 l1 s2 l2 a1 b1 c1 a2 b2 c2) = Some (x1 - x2, y1 - y2, z1 - z2)) /\
  (res_regular (T_spatial_cross s1 l1 s2 l2 a1 b1 c1 a2 b2 c2) ->
     den3 (T_spatial_cross s1 l1 s2 l2 a1 b1 c1 a2 b2 c2)
     = Some (y1 * z2 - z1 * y2, z1 * x2 - x1 * z2, x1 * y2 - y1 * x2)).
Proof.
  intros. exact (conj (dot_spec3 s1 l1 s2 l2 a1 b1 c1 a2 b2 c2) (conj (add_spec3 s1 l1 s2 l2 a1 b1 c1 a2 b2 c2)
    (conj (subtract_spec3 s1 l1 s2 l2 a1 b1 c1 a2 b2 c2) (cross_spec s1 l1 s2 l2 a1 b1 c1 a2 b2 c2)))).
Qed.

Theorem C01_spatial_composites : forall s1 l1 s2 l2 a1 b1 c1 a2 b2 c2,
  numr (T_spatial_deltaeta s1 l1 s2 l2 a1 b1 c1 a2 b2 c2)
    = lift2 Rminus (numr (T_spatial_eta s1 l1 a1 b1 c1)) (numr (T_spatial_eta s2 l2 a2 b2 c2)) /\
  numr (T_spatial_deltaR2 s1 l1 s2 l2 a1 b1 c1 a2 b2 c2)
    = lift2 (fun p e => p * p + e * e) (numr (T_planar_deltaphi s1 s2 a1 b1 a2 b2))
                                       (numr (T_spatial_deltaeta s1 l1 s2 l2 a1 b1 c1 a2 b2 c2)) /\
  numr (T_spatial_deltaR s1 l1 s2 l2 a1 b1 c1 a2 b2 c2)
    = lift1 sqrt (numr (T_spatial_deltaR2 s1 l1 s2 l2 a1 b1 c1 a2 b2 c2)) /\
  numr (T_spatial_deltaangle s1 l1 s2 l2 a1 b1 c1 a2 b2 c2)
    = match numr (T_spatial_dot s1 l1 s2 l2 a1 b1 c1 a2 b2 c2), numr (T_spatial_mag s1 l1 a1 b1 c1), numr (T_spatial_mag s2 l2 a2 b2 c2) with
      | Some d, Some m1, Some m2 => Some (acos (Rmax (-1 / 1) (Rmin (1 / 1) (d / m1 / m2)))) | _, _, _ => None end.
Proof.
  intros. exact (conj (deltaeta_def s1 l1 s2 l2 a1 b1 c1 a2 b2 c2) (conj (deltaR2_def s1 l1 s2 l2 a1 b1 c1 a2 b2 c2)
    (conj (deltaR_def s1 l1 s2 l2 a1 b1 c1 a2 b2 c2) (deltaangle_def s1 l1 s2 l2 a1 b1 c1 a2 b2 c2)))).
Qed.

Theorem C01_spatial_scale : forall s l f a b c, canon_lg l c -> f <> 0 ->
  den3 (T_spatial_scale s l f a b c) = Some (sx s a b * f, sy s a b * f, sz s l a b c * f).
Proof. exact scale_spec3. Qed.

(* rotations and linear maps: commuting square with the all-Cartesian variant, all signatures, all 12 Euler orders *)
Theorem C01_spatial_rotations : forall s l a b c,
  let x := sx s a b in let y := sy s a b in let z := sz s l a b c in
  (forall ang, den3 (T_spatial_rotateX s l ang a b c) = den3 (T_spatial_rotateX XY LZ ang x y z)) /\
  (forall ang, den3 (T_spatial_rotateY s l ang a b c) = den3 (T_spatial_rotateY XY LZ ang x y z)) /\
  (forall u i j k, den3 (T_spatial_rotate_quaternion s l u i j k a b c) = den3 (T_spatial_rotate_quaternion XY LZ u i j k x y z)) /\
  (forall o phi theta psi, den3 (T_spatial_rotate_euler s l o phi theta psi a b c) = den3 (T_spatial_rotate_euler XY LZ o phi theta psi x y z)) /\
  (forall xx xy xz yx yy yz zx zy zz, den3 (T_spatial_transform3D s l xx xy xz yx yy yz zx zy zz a b c)
                                     = den3 (T_spatial_transform3D XY LZ xx xy xz yx yy yz zx zy zz x y z)).
Proof.
  intros. exact (conj (fun ang => rotateX_square s l ang a b c) (conj (fun ang => rotateY_square s l ang a b c)
    (conj (fun u i j k => rotate_quaternion_square s l u i j k a b c)
    (conj (fun o phi theta psi => rotate_euler_square s l o phi theta psi a b c)
          (fun xx xy xz yx yy yz zx zy zz => transform3D_square s l xx xy xz yx yy yz zx zy zz a b c))))).
Qed.
Theorem C01_spatial_rotate_axis : forall s1 l1 s2 l2 ang a1 b1 c1 a2 b2 c2,
  den3 (T_spatial_rotate_axis s1 l1 s2 l2 ang a1 b1 c1 a2 b2 c2)
  = den3 (T_spatial_rotate_axis XY LZ XY LZ ang (sx s1 a1 b1) (sy s1 a1 b1) (sz s1 l1 a1 b1 c1) (sx s2 a2 b2) (sy s2 a2 b2) (sz s2 l2 a2 b2 c2)).
Proof. exact rotate_axis_square. Qed.

(* ---------------- lorentz ---------------- *)
Theorem C01_lorentz_time : forall s l t a b c d, rep4 s l t a b c d ->
  numr (T_lorentz_t s l t a b c d) = Some (st s l t a b c d) /\
  numr (T_lorentz_tau2 s l t a b c d) = Some (st s l t a b c d * st s l t a b c d - smag2 s l a b c).
Proof. intros s l t a b c d H. exact (conj (t_spec s l t a b c d H) (tau2_spec s l t a b c d H)). Qed.

Theorem C01_lorentz_dot : forall s1 l1 t1 s2 l2 t2 a1 b1 c1 d1 a2 b2 c2 d2,
  rep4 s1 l1 t1 a1 b1 c1 d1 -> rep4 s2 l2 t2 a2 b2 c2 d2 ->
  numr (T_lorentz_dot s1 l1 t1 s2 l2 t2 a1 b1 c1 d1 a2 b2 c2 d2)
  = Some (st s1 l1 t1 a1 b1 c1 d1 * st s2 l2 t2 a2 b2 c2 d2
          - (sx s1 a1 b1 * sx s2 a2 b2 + sy s1 a1 b1 * sy s2 a2 b2 + sz s1 l1 a1 b1 c1 * sz s2 l2 a2 b2 c2)).
Proof. exact dot_spec4. Qed.

(* add/subtract with at least one t-stored operand (108 pairings); tau+tau is the next theorem *)
Theorem C01_lorentz_add_subtract : forall s1 l1 t1 s2 l2 t2 a1 b1 c1 d1 a2 b2 c2 d2,
  (t1 = TT \/ t2 = TT) -> rep4 s1 l1 t1 a1 b1 c1 d1 -> rep4 s2 l2 t2 a2 b2 c2 d2 ->
  (res_regular (T_spatial_add s1 l1 s2 l2 a1 b1 c1 a2 b2 c2) ->
   den4 (T_lorentz_add s1 l1 t1 s2 l2 t2 a1 b1 c1 d1 a2 b2 c2 d2)
   = Some (sx s1 a1 b1 + sx s2 a2 b2, sy s1 a1 b1 + sy s2 a2 b2, sz s1 l1 a1 b1 c1 + sz s2 l2 a2 b2 c2,
           st s1 l1 t1 a1 b1 c1 d1 + st s2 l2 t2 a2 b2 c2 d2)) /\
  (res_regular (T_spatial_subtract s1 l1 s2 l2 a1 b1 c1 a2 b2 c2) ->
   den4 (T_lorentz_subtract s1 l1 t1 s2 l2 t2 a1 b1 c1 d1 a2 b2 c2 d2)
   = Some (sx s1 a1 b1 - sx s2 a2 b2, sy s1 a1 b1 - sy s2 a2 b2, sz s1 l1 a1 b1 c1 - sz s2 l2 a2 b2 c2,
           st s1 l1 t1 a1 b1 c1 d1 - st s2 l2 t2 a2 b2 c2 d2)).
Proof.
  intros s1 l1 t1 s2 l2 t2 a1 b1 c1 d1 a2 b2 c2 d2 Ht H1 H2.
  exact (conj (add_spec4 s1 l1 t1 s2 l2 t2 a1 b1 c1 d1 a2 b2 c2 d2 Ht H1 H2)
              (subtract_spec4 s1 l1 t1 s2 l2 t2 a1 b1 c1 d1 a2 b2 c2 d2 Ht H1 H2)).
Qed.

(* add / subtract with BOTH operands tau-stored, all 36 spatial pairings: the proper time of the result is recomputed from
   t1 +- t2 and |p1 +- p2|^2 in the result's coordinate system (Cartesian for 31 pairings, the operands' own polar system for
   the five same-system polar ones).  The sum of two forward time-like vectors is one (causal_sum: Cauchy-Schwarz), so add needs
   no further hypothesis; the difference need not be, and tau storage cannot represent a backward or space-like vector, so subtract
   is stated inside the representable domain. *)
Theorem C01_lorentz_add_subtract_tau_tau : forall s1 l1 s2 l2 a1 b1 c1 d1 a2 b2 c2 d2,
  rep4 s1 l1 TTau a1 b1 c1 d1 -> rep4 s2 l2 TTau a2 b2 c2 d2 ->
  (res_regular (T_spatial_add s1 l1 s2 l2 a1 b1 c1 a2 b2 c2) ->
   den4 (T_lorentz_add s1 l1 TTau s2 l2 TTau a1 b1 c1 d1 a2 b2 c2 d2)
   = Some (sx s1 a1 b1 + sx s2 a2 b2, sy s1 a1 b1 + sy s2 a2 b2, sz s1 l1 a1 b1 c1 + sz s2 l2 a2 b2 c2,
           st s1 l1 TTau a1 b1 c1 d1 + st s2 l2 TTau a2 b2 c2 d2)) /\
  (let x := sx s1 a1 b1 - sx s2 a2 b2 in let y := sy s1 a1 b1 - sy s2 a2 b2 in let z := sz s1 l1 a1 b1 c1 - sz s2 l2 a2 b2 c2 in
   let u := st s1 l1 TTau a1 b1 c1 d1 - st s2 l2 TTau a2 b2 c2 d2 in
   res_regular (T_spatial_subtract s1 l1 s2 l2 a1 b1 c1 a2 b2 c2) -> 0 <= u -> x * x + y * y + z * z <= u * u ->
   den4 (T_lorentz_subtract s1 l1 TTau s2 l2 TTau a1 b1 c1 d1 a2 b2 c2 d2) = Some (x, y, z, u)).
Proof.
  intros s1 l1 s2 l2 a1 b1 c1 d1 a2 b2 c2 d2 H1 H2.
  exact (conj (add_spec4_tau_tau_all s1 l1 s2 l2 a1 b1 c1 d1 a2 b2 c2 d2 H1 H2)
              (subtract_spec4_tau_tau_all s1 l1 s2 l2 a1 b1 c1 d1 a2 b2 c2 d2 H1 H2)).
Qed.

(* kinematic quantities of a representable 4-vector, all 12 signatures: functions of the Cartesian denotation only *)
Theorem C01_lorentz_kinematics : forall s l t a b c d, rep4 s l t a b c d ->
  let T := st s l t a b c d in let Z := sz s l a b c in let P2 := smag2 s l a b c in
  numr (T_lorentz_beta s l t a b c d) = Some (sqrt P2 / T) /\
  numr (T_lorentz_rapidity s l t a b c d) = Some (1 / 2 * ln ((T + Z) / (T - Z))) /\
  numr (T_lorentz_Mt2 s l t a b c d) = Some (T * T - Z * Z) /\
  numr (T_lorentz_Mt s l t a b c d) = Some (sqrt (T * T - Z * Z)) /\
  (P2 <= T * T -> numr (T_lorentz_tau s l t a b c d) = Some (sqrt (T * T - P2))) /\
  (P2 <= T * T -> numr (T_lorentz_gamma s l t a b c d) = Some (T / sqrt (T * T - P2))) /\
  (pos_az s a b -> numr (T_lorentz_Et s l t a b c d) = Some (T * srho s a b / sqrt P2)).
Proof.
  intros s l t a b c d H. cbv zeta.
  exact (conj (beta_spec s l t a b c d H) (conj (rapidity_spec s l t a b c d H) (conj (Mt2_spec s l t a b c d H)
    (conj (Mt_spec s l t a b c d H) (conj (tau_spec s l t a b c d H) (conj (gamma_spec s l t a b c d H) (Et_spec s l t a b c d H))))))).
Qed.

(* scale (any non-zero factor with t storage, positive with tau storage: a negative time is not representable there) *)
Theorem C01_lorentz_scale : forall s l t f a b c d, canon_lg l c -> canon_tm t d ->
  (match t with TT => f <> 0 | TTau => 0 < f end) ->
  den4 (T_lorentz_scale s l t f a b c d) = Some (sx s a b * f, sy s a b * f, sz s l a b c * f, st s l t a b c d * f).
Proof. exact scale_spec4. Qed.

(* to_beta3 = p / t for a positive time (t < 0: see the known finding C01-to_beta3-negative-time) *)
Theorem C01_lorentz_to_beta3 : forall s l t a b c d, rep4 s l t a b c d -> 0 < st s l t a b c d ->
  den3 (T_lorentz_to_beta3 s l t a b c d)
  = Some (sx s a b / st s l t a b c d, sy s a b / st s l t a b c d, sz s l a b c / st s l t a b c d).
Proof. exact to_beta3_spec. Qed.

(* unit vectors: v / |v| (3D, v <> 0) and v / tau (4D, time-like; tau > 0 when tau is stored), all signatures *)
Theorem C01_unit_vectors : forall s l a b c, rep3 s l a b c -> 0 < smag2 s l a b c ->
  den3 (T_spatial_unit s l a b c)
    = Some (sx s a b / sqrt (smag2 s l a b c), sy s a b / sqrt (smag2 s l a b c), sz s l a b c / sqrt (smag2 s l a b c)) /\
  (forall t d, rep4 s l t a b c d -> let T := st s l t a b c d in let P2 := smag2 s l a b c in
     P2 < T * T -> (t = TTau -> 0 < d) ->
     den4 (T_lorentz_unit s l t a b c d)
     = Some (sx s a b / sqrt (T * T - P2), sy s a b / sqrt (T * T - P2), sz s l a b c / sqrt (T * T - P2), T / sqrt (T * T - P2))).
Proof. intros s l a b c H Hm. split; [exact (unit_spec3 s l a b c H Hm) | intros t d; exact (unit_spec4 s l t a b c d)]. Qed.

(* Et2 = Et^2; deltaRapidityPhi(2) are composed of deltaphi and the rapidities (both storage independent, above);
   transform4D reduces to the Cartesian variant in all 12 signatures *)
Theorem C01_lorentz_composites : forall s1 l1 t1 s2 l2 t2 a1 b1 c1 d1 a2 b2 c2 d2,
  (rep4 s1 l1 t1 a1 b1 c1 d1 -> pos_az s1 a1 b1 ->
     numr (T_lorentz_Et2 s1 l1 t1 a1 b1 c1 d1)
     = Some ((st s1 l1 t1 a1 b1 c1 d1 * srho s1 a1 b1 / sqrt (smag2 s1 l1 a1 b1 c1)) * (st s1 l1 t1 a1 b1 c1 d1 * srho s1 a1 b1 / sqrt (smag2 s1 l1 a1 b1 c1)))) /\
  numr (T_lorentz_deltaRapidityPhi2 s1 l1 t1 s2 l2 t2 a1 b1 c1 d1 a2 b2 c2 d2)
    = match numr (T_planar_deltaphi s1 s2 a1 b1 a2 b2), numr (T_lorentz_rapidity s1 l1 t1 a1 b1 c1 d1), numr (T_lorentz_rapidity s2 l2 t2 a2 b2 c2 d2) with
      | Some p, Some r1, Some r2 => Some (p * p + (r1 - r2) * (r1 - r2)) | _, _, _ => None end /\
  numr (T_lorentz_deltaRapidityPhi s1 l1 t1 s2 l2 t2 a1 b1 c1 d1 a2 b2 c2 d2)
    = lift1 sqrt (numr (T_lorentz_deltaRapidityPhi2 s1 l1 t1 s2 l2 t2 a1 b1 c1 d1 a2 b2 c2 d2)) /\
  (rep4 s1 l1 t1 a1 b1 c1 d1 -> forall xx xy xz xt yx yy yz yt zx zy zz zt tx ty tz tt,
     den4 (T_lorentz_transform4D s1 l1 t1 xx xy xz xt yx yy yz yt zx zy zz zt tx ty tz tt a1 b1 c1 d1)
     = den4 (T_lorentz_transform4D XY LZ TT xx xy xz xt yx yy yz yt zx zy zz zt tx ty tz tt
               (sx s1 a1 b1) (sy s1 a1 b1) (sz s1 l1 a1 b1 c1) (st s1 l1 t1 a1 b1 c1 d1))).
Proof.
  intros. repeat split.
  - apply Et2_spec.
  - apply deltaRapidityPhi2_def.
  - apply deltaRapidityPhi_def.
  - intros H *. apply transform4D_square_all. exact H.
Qed.

(* ---------------- explicit storage-independence corollary (the shape every theorem above yields) ---------------- *)
Theorem C01_dot_same_for_all_storages :
  forall s1 l1 s2 l2 a1 b1 c1 a2 b2 c2 s1' l1' s2' l2' a1' b1' c1' a2' b2' c2',
  (sx s1 a1 b1, sy s1 a1 b1, sz s1 l1 a1 b1 c1) = (sx s1' a1' b1', sy s1' a1' b1', sz s1' l1' a1' b1' c1') ->
  (sx s2 a2 b2, sy s2 a2 b2, sz s2 l2 a2 b2 c2) = (sx s2' a2' b2', sy s2' a2' b2', sz s2' l2' a2' b2' c2') ->
  numr (T_spatial_dot s1 l1 s2 l2 a1 b1 c1 a2 b2 c2) = numr (T_spatial_dot s1' l1' s2' l2' a1' b1' c1' a2' b2' c2').
Proof.
  intros *. intros E1 E2. rewrite !dot_spec3. injection E1 as -> -> ->. injection E2 as -> -> ->. reflexivity.
Qed.

(* non-vacuity: a representable operand in a polar system *)

(* the same laws hold in numba-compiled code: for these operations every program point of the numba-supported API has the
   same outcome (class, coordinate system, field expressions over the generated compute definitions) through the
   Numba overload layer as through the interpreter (T5 table, gen/NbApi*.v; exceptions: the C07 known findings) *)
Theorem C01_compiled_accessors_are_the_interpreted_ones :
  VP.NbChecks.agree_on [N_x; N_y; N_z; N_rho; N_phi; N_theta; N_eta; N_t; N_tau; N_mag; N_mag2; N_rho2; N_t2; N_tau2; N_neg2D; N_neg3D; N_neg4D]%list = true /\
  Nat.ltb 100 (VP.NbChecks.count_on [N_x; N_y; N_z; N_rho; N_phi; N_theta; N_eta; N_t; N_tau; N_mag; N_mag2; N_rho2; N_t2; N_tau2; N_neg2D; N_neg3D; N_neg4D]%list) = true.
Proof. vm_cast_no_check (conj (eq_refl true) (eq_refl true)). Qed.

Example C01_nonvacuous : rep4 RhoPhi LEta TTau 1 2 (1/2) 3 /\ rep3 XY LTheta 1 1 1.
Proof.
  unfold rep4, rep3, canon_az, canon_lg, canon_tm, pos_az. pose proof PI_RGT_0. pose proof (PI_ineq 0).
  assert (1 < PI) by (pose proof PI2_3_2; Lra.lra). repeat split; try Lra.lra; intros; Lra.lra.
Qed.

(* the domain hypotheses of tau - tau are satisfiable: (0,0,0; tau=3) - (0,0,0; tau=1) is forward and causal *)
Example C01_subtract_domain_nonvacuous :
  let u := st XY LZ TTau 0 0 0 3 - st XY LZ TTau 0 0 0 1 in 0 <= u /\ (0 - 0) * (0 - 0) + (0 - 0) * (0 - 0) + (0 - 0) * (0 - 0) <= u * u.
Proof.
  cbv zeta. unfold st, smag2, sx, sy, sz.
  replace (3 * 3 + (0 * 0 + 0 * 0 + 0 * 0)) with (3 * 3) by ring. replace (1 * 1 + (0 * 0 + 0 * 0 + 0 * 0)) with (1 * 1) by ring.
  rewrite !sqrt_square by Lra.lra. Lra.lra.
Qed.
