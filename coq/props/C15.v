(* C15 — in-place updates of object vectors match their functional equivalents.  Statements only.
   Per-step facts are decided on the tables of outcomes obtained by executing assignments and in-place operators
   SYMBOLICALLY on the real objects from an arbitrary vector in each of the 20 systems x 2 flavors (stored values are
   variables, so each fact holds for every state); they are lifted to histories of any length by induction. *)
From Coq Require Import ZArith List Bool.
Import ListNotations.
From VP Require Import ObjModel ObjNames ObjApi ObjApiBin ObjChecks ObjChecksBin ObjHistory.

(* v.c = a: c reads back as exactly a; its partner in the group is the partner's value before; the other groups'
   stored variables and systems are untouched; the class is kept (generic and momentum spellings) *)
Theorem C15_assignment_step : forallb check_setter setters_tab = true.
Proof. vm_compute. reflexivity. Qed.

(* v op= w (+=, -=, *=, /=): same object, same class, same coordinate systems, and every stored coordinate is the
   accessor of that coordinate applied to the functional result v op w;  a raising operation leaves v unchanged *)
Theorem C15_inplace_step : forallb check_inplace inplace_tab = true.
Proof. vm_compute. reflexivity. Qed.
Theorem C15_inplace_raises_iff_dimensions_differ : forallb check_inplace_raises inplace_tab = true.
Proof. vm_compute. reflexivity. Qed.

Lemma set_keeps : forallb (fun e => let '(s, _, o) := e in keeps_dim_flavor s o) setters_tab = true.
Proof. vm_compute. reflexivity. Qed.
Lemma in_keeps : forallb (fun e => let '(a, _, _, _, o) := e in keeps_dim_flavor a o) inplace_tab = true.
Proof. vm_compute. reflexivity. Qed.
Lemma in_keeps_sys : forallb (fun e => let '(a, _, _, _, o) := e in keeps_system a o) inplace_tab = true.
Proof. vm_compute. reflexivity. Qed.

(* for histories of ANY length *)
Theorem C15_any_history_keeps_dimension_and_flavor : forall (hs : list hop) (s : src),
  s_dim (fold_left tstep hs s) = s_dim s /\ s_mom (fold_left tstep hs s) = s_mom s.
Proof. exact (history_keeps_dimension_and_flavor set_keeps in_keeps). Qed.
Theorem C15_inplace_histories_keep_the_coordinate_system : forall (hs : list hop) (s : src),
  only_inplace hs -> s_sys (fold_left tstep hs s) = s_sys s.
Proof. exact (inplace_history_keeps_system in_keeps_sys). Qed.

Example C15_nonvacuous :
  tstep {| s_dim := 3; s_sys := [CXY; CZ]; s_mom := true |} (HSet N_pt) = {| s_dim := 3; s_sys := [CRhoPhi; CZ]; s_mom := true |} /\
  existsb (fun e => match e with (_, _, _, Some _, _) => true | _ => false end) inplace_tab = true.
Proof. vm_compute. split; reflexivity. Qed.
