(* C04 — coordinate conversions and dimension changes lose nothing.  Statements only.
   Lattice part: over gen/ObjApi.v, the outcomes of the conversion methods executed SYMBOLICALLY on the real
   object backend (every field is a term over the stored variables, keyword values and generated compute calls,
   hence valid for all values).  Real-number part: the accessors the conversions are made of preserve the vector. *)
From Coq Require Import Reals List Bool.
From VP Require Import Lib RLib Spec Compute Tables ObjModel ObjNames ObjApi ObjChecks C04_conv.
From VP Require ObjModel ObjNames NbModel NbApi NbChecks NpApi NpChecks.
Import ObjNames List.ListNotations.

(* to_<system>(): 40 methods x 40 sources (20 systems x 2 flavors) x keyword choices.
   - a coordinate group already stored in the target system is returned as the stored VARIABLES (bit for bit);
   - otherwise it is exactly the accessor of that coordinate (whose meaning is C01/C02);
   - a group the source lacks is the keyword value (keyword of the matching coordinate type) or the literal 0;
   - class: same flavor, dimension of the target; systems: as the method name says. *)
Theorem C04_to_system_methods : forallb check_to_system conv_tab = true.
Proof. vm_compute. reflexivity. Qed.

(* to_Vector2D/3D/4D, to_2D/3D/4D, like(): projections keep the retained stored variables, embeddings keep all stored
   variables and append exactly the keyword value under the coordinate type the keyword names (z/pz, theta, eta;
   t/e/E/energy, tau/m/M/mass) or 0 (types z, t); two keywords of one group raise TypeError; flavor kept. *)
Theorem C04_dimension_changes : forallb check_dim_change conv_tab = true.
Proof. vm_compute. reflexivity. Qed.

Corollary C04_every_entry : forall e, In e conv_tab -> check_to_system e = true /\ check_dim_change e = true.
Proof.
  intros e H. split; [exact (proj1 (forallb_forall _ _) C04_to_system_methods e H) | exact (proj1 (forallb_forall _ _) C04_dimension_changes e H)].
Qed.

(* the table is not trivial *)

(* the same laws hold in numba-compiled code: for these operations every program point of the numba-supported API has the
   same outcome (class, coordinate system, field expressions over the generated compute definitions) through the
   Numba overload layer as through the interpreter (T5 table, gen/NbApi*.v; exceptions: the C07 known findings) *)
Theorem C04_compiled_conversions_are_the_interpreted_ones :
  VP.NbChecks.agree_on [N_to_xy; N_to_xyz; N_to_xyzt; N_to_xyztau; N_to_xytheta; N_to_xythetat; N_to_xythetatau; N_to_xyeta; N_to_xyetat; N_to_xyetatau; N_to_rhophi; N_to_rhophiz; N_to_rhophizt; N_to_rhophiztau; N_to_rhophitheta; N_to_rhophithetat; N_to_rhophithetatau; N_to_rhophieta; N_to_rhophietat; N_to_rhophietatau; N_to_Vector2D; N_to_Vector3D; N_to_Vector4D]%list = true /\
  Nat.ltb 100 (VP.NbChecks.count_on [N_to_xy; N_to_xyz; N_to_xyzt; N_to_xyztau; N_to_xytheta; N_to_xythetat; N_to_xythetatau; N_to_xyeta; N_to_xyetat; N_to_xyetatau; N_to_rhophi; N_to_rhophiz; N_to_rhophizt; N_to_rhophiztau; N_to_rhophitheta; N_to_rhophithetat; N_to_rhophithetatau; N_to_rhophieta; N_to_rhophietat; N_to_rhophietatau; N_to_Vector2D; N_to_Vector3D; N_to_Vector4D]%list) = true.
Proof. vm_cast_no_check (conj (eq_refl true) (eq_refl true)). Qed.


(* NumPy arrays (the real backend executed symbolically, T6): every conversion and dimension change, with every keyword choice, from
   every system and flavor gives elementwise the object backend's outcome — so everything proved above about stored variables, imputed
   keywords and zeros holds for NumPy arrays too *)
Theorem C04_numpy_conversions_are_the_object_conversions :
  VP.NpChecks.np_agree_fam VP.NbModel.FConv = true /\ Nat.ltb 5000 (VP.NpChecks.np_count_fam VP.NbModel.FConv) = true.
Proof. vm_cast_no_check (conj (eq_refl true) (eq_refl true)). Qed.

Example C04_nonvacuous : (5000 <? length conv_tab)%nat = true /\
  existsb (fun e => match e with (_, _, Some _, _ :: _, OutVec _ _ _ _) => true | _ => false end) conv_tab = true.
Proof. vm_compute. split; reflexivity. Qed.

Open Scope R_scope.
(* converting to any other system preserves the geometric vector, so converting back does too *)
Theorem C04_conversion_preserves_vector : 
  (forall s' s a b, canon_az s a b ->
     exists u v, az_acc s' s a b = Some (u, v) /\ (sx s' u v, sy s' u v) = (sx s a b, sy s a b)) /\
  (forall s' l' s l a b c, pos_az s a b -> canon_lg l c ->
     exists u v w, az_acc s' s a b = Some (u, v) /\ lg_acc l' s l a b c = Some w /\
       (sx s' u v, sy s' u v, sz s' l' u v w) = (sx s a b, sy s a b, sz s l a b c)) /\
  (forall s l a b c d, canon_az s a b -> canon_lg l c -> (l <> LZ -> pos_az s a b) -> smag2 s l a b c <= d * d -> 0 <= d ->
     exists w, tm_acc TTau s l TT a b c d = Some w /\ sqrt (w * w + smag2 s l a b c) = d).
Proof. exact (conj conversion_preserves_vector_2D (conj conversion_preserves_vector_3D tau_of_t_roundtrip)). Qed.
