(* C05 — result backend, flavor, dimension and coordinate system follow the stated rules.  Statements only.
   Compute layer: generated dispatch tables (gen/Tables.v, gen/Totality.v).  Method layer: outcomes of the public
   object API executed symbolically on the real backend (gen/ObjApi*.v).  Mixed backends: correspondence (evidence). *)
From Coq Require Import ZArith List Bool.
From VP Require Import Lib ULib Totality ObjModel ObjNames ObjApi ObjApiBin ObjChecks ObjChecksBin.
From VP Require NbModel NpApi NpChecks.

(* every operation is defined for every coordinate system of its operands: all 82 dispatch tables have a well-formed
   entry (arity and declared return shape fit) for every signature of the lattice, 12 Euler orders included *)
Theorem C05_every_table_is_total : all_tables_total = true /\ number_of_tables = 82%nat.
Proof. vm_compute. split; reflexivity. Qed.

(* binary methods on object vectors, every system pairing x flavors x dimension pairings:
   the nine arithmetic/comparison methods (and their operators) raise TypeError for unequal dimensions; cross, rotate_axis,
   boost_p4, boost_beta3, boost, boostCM_of* reject wrong dimensions; otherwise the result is momentum iff a counted operand
   is (the axis of rotate_axis does not count) and has the documented dimension (cross: 3, else the first operand's) *)
Theorem C05_binary_result_types : forallb check_binary_type binary_tab = true.
Proof. vm_compute. reflexivity. Qed.

(* the result coordinate system, and every field expression, depends only on the operands' coordinate systems:
   all flavor combinations of one (systems, method) point agree up to the class flavor *)
Theorem C05_result_system_depends_on_systems_only : forallb check_flavor_group binary_flavor_groups = true.
Proof. vm_compute. reflexivity. Qed.

(* unary methods: flavor kept; dimension kept except to_beta3 -> 3D *)
Theorem C05_unary_result_types : forallb check_unary_type unary_tab = true.
Proof. vm_compute. reflexivity. Qed.

(* operators give the same value and type as the methods they stand for *)
Theorem C05_operators_are_methods :
  forallb check_operator_pair operator_pairs = true /\ forallb check_operator_unary unary_tab = true.
Proof. vm_compute. split; reflexivity. Qed.

(* rotate_nautical(yaw,pitch,roll) = rotate_euler(roll,pitch,yaw,"zyx"); the order is case-insensitive; default "zxz" *)
Theorem C05_rotation_spellings : forallb check_rotation_spellings unary_tab = true.
Proof. vm_compute. reflexivity. Qed.


(* NumPy operands (T6 table): the result is a NumPy vector array whenever a counted operand is a NumPy array (the axis of
   rotate_axis does not count: object.rotate_axis(numpy axis) stays an object vector), and its class, flavor, dimension and
   coordinate system are the object backend's (np_agree) *)
Theorem C05_numpy_result_backend_and_type :
  forallb VP.NpChecks.np_backend_ok VP.NpApi.np_tab = true /\ forallb VP.NpChecks.np_agree VP.NpApi.np_tab = true.
Proof. vm_cast_no_check (conj (eq_refl true) (eq_refl true)). Qed.

Example C05_nonvacuous : Nat.ltb 10000 (length binary_tab) = true /\ Nat.ltb 3000 (length operator_pairs) = true /\
  existsb (fun e => match e with (_, _, _, OutRaise _) => true | _ => false end) binary_tab = true.
Proof. vm_compute. repeat split; reflexivity. Qed.
