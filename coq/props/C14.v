(* C14 — momentum names are exact synonyms of the geometric names.  Statements only.
   Over gen/ObjApi.v: outcomes of the object API executed symbolically on the real backend; two outcomes are
   "the same" when they are the same TERM over stored variables, keyword values and compute calls. *)
From Coq Require Import ZArith List Bool Arith PeanoNat.
From VP Require Import ObjModel ObjNames ObjApi ObjChecks.
From VP Require ObjModel ObjNames NbModel NbApi NbChecks NpApi NpChecks.
Import ObjNames List.ListNotations.

(* px,py,pt,pt2,pz,p,p2,pseudorapidity,E/e/energy,E2..,M/m/mass,M2.. are the expressions of x,y,rho,rho2,z,mag,mag2,eta,t,t2,tau,tau2;
   et/transverse_energy = Et, mt/transverse_mass = Mt (and squares); for all 20 systems; absent on generic vectors *)
Theorem C14_getters_are_synonyms : forallb check_getter_synonym getters_tab = true.
Proof. vm_compute. reflexivity. Qed.
(* to_pxpy ... to_ptphietamass equal their geometric counterparts, keyword for keyword (pz=z, energy=t, mass=tau) *)
Theorem C14_conversions_are_synonyms : forallb check_conv_synonym conv_tab = true.
Proof. vm_compute. reflexivity. Qed.
(* assigning through a synonym leaves the same stored state as assigning through the geometric name *)
Theorem C14_setters_are_synonyms : forallb check_setter_synonym setters_tab = true.
Proof. vm_compute. reflexivity. Qed.
(* the flavor never changes any number: getters, conversions and unary methods give the same expressions *)
Theorem C14_flavor_changes_no_number :
  forallb check_flavor_getter getters_tab = true /\ forallb check_flavor_conv conv_tab = true /\ forallb check_flavor_unary unary_tab = true.
Proof. vm_compute. repeat split; reflexivity. Qed.


(* the same laws hold in numba-compiled code: for these operations every program point of the numba-supported API has the
   same outcome (class, coordinate system, field expressions over the generated compute definitions) through the
   Numba overload layer as through the interpreter (T5 table, gen/NbApi*.v; exceptions: the C07 known findings) *)
Theorem C14_compiled_momentum_are_the_interpreted_ones :
  VP.NbChecks.agree_on [N_px; N_py; N_pt; N_pt2; N_pz; N_pseudorapidity; N_p; N_p2; N_E; N_energy; N_E2; N_energy2; N_M; N_mass; N_M2; N_mass2; N_Et; N_transverse_energy; N_Et2; N_transverse_energy2; N_Mt; N_transverse_mass; N_Mt2; N_transverse_mass2]%list = true /\
  Nat.ltb 100 (VP.NbChecks.count_on [N_px; N_py; N_pt; N_pt2; N_pz; N_pseudorapidity; N_p; N_p2; N_E; N_energy; N_E2; N_energy2; N_M; N_mass; N_M2; N_mass2; N_Et; N_transverse_energy; N_Et2; N_transverse_energy2; N_Mt; N_transverse_mass; N_Mt2; N_transverse_mass2]%list) = true.
Proof. vm_cast_no_check (conj (eq_refl true) (eq_refl true)). Qed.


(* NumPy arrays (the real backend executed symbolically, T6): every momentum synonym, read as an attribute or as a field name
   a["px"], is elementwise what the object backend's synonym returns (hence, by the theorems above, the geometric coordinate) *)
Theorem C14_numpy_synonyms_are_the_object_synonyms :
  VP.NpChecks.np_agree_on [N_px; N_py; N_pt; N_pt2; N_pz; N_pseudorapidity; N_p; N_p2; N_E; N_energy; N_E2; N_energy2; N_M; N_mass; N_M2; N_mass2; N_Et; N_transverse_energy; N_Et2; N_transverse_energy2; N_Mt; N_transverse_mass; N_Mt2; N_transverse_mass2; N_e; N_e2; N_m; N_m2; N_et; N_et2; N_mt; N_mt2; N_field_px; N_field_py; N_field_pt; N_field_pz; N_field_E; N_field_e; N_field_energy; N_field_M; N_field_m; N_field_mass]%list = true.
Proof. vm_cast_no_check (eq_refl true). Qed.

Example C14_nonvacuous :
  existsb (fun e => match e with (s, n, OutScalar _) => s_mom s && Pos.eqb n N_mass | _ => false end) getters_tab = true /\
  Nat.ltb 2000 (length getters_tab) = true.
Proof. vm_compute. split; reflexivity. Qed.
