(* C13 — ranges, sign conventions and classification predicates.  Statements only. *)
From Coq Require Import Reals Bool.
From VP Require Import Lib RLib Trig Compute Tables C13_range C13_causal C13_par C13_sign.
From VP Require Import Spec Spec_spatial1 Spec_spatial2 Spec_lorentz Spec_lorentz2.
From Coq Require Import Lra.
From VP Require ObjModel ObjNames NbModel NbApi NbChecks.
Import ObjNames List.ListNotations.
Open Scope R_scope.

(* phi computed from x,y and deltaphi (every pairing) lie in [-pi, pi] *)
Theorem C13_phi_deltaphi_range :
  (forall x y, in_range (- PI) PI (rn (T_planar_phi XY x y))) /\
  (forall s1 s2 a1 b1 a2 b2, in_range (- PI) PI (rn (T_planar_deltaphi s1 s2 a1 b1 a2 b2))).
Proof. exact (conj phi_xy_range deltaphi_range). Qed.

(* theta computed from z or eta, and deltaangle (all 36 pairings), lie in [0, pi] — for ALL real inputs *)
Theorem C13_theta_deltaangle_range :
  (forall s l a b c, l <> LTheta -> in_range 0 PI (rn (T_spatial_theta s l a b c))) /\
  (forall s1 l1 s2 l2 a1 b1 c1 a2 b2 c2, in_range 0 PI (rn (T_spatial_deltaangle s1 l1 s2 l2 a1 b1 c1 a2 b2 c2))).
Proof. exact (conj theta_range deltaangle_range). Qed.

(* rho, rho2, mag, mag2, t2 are non-negative (mag for rho,phi storage: given the stored rho is) *)
Theorem C13_nonnegative :
  (forall x y, nonneg (rn (T_planar_rho XY x y))) /\
  (forall s a b, nonneg (rn (T_planar_rho2 s a b))) /\
  (forall s l a b c, (s = RhoPhi -> 0 <= a) -> nonneg (rn (T_spatial_mag s l a b c))) /\
  (forall s l a b c, nonneg (rn (T_spatial_mag2 s l a b c))) /\
  (forall s l t a b c d, nonneg (rn (T_lorentz_t2 s l t a b c d))).
Proof. exact (conj rho_xy_nonneg (conj rho2_nonneg (conj mag_nonneg (conj mag2_nonneg t2_nonneg)))). Qed.

(* costheta and cottheta have the sign of z, in all six spatial systems, off the z axis *)
Theorem C13_costheta_cottheta_sign_of_z : forall s l a b c, off_axis s a b -> lg_ok l c ->
  same_sign_o (rn (T_spatial_costheta s l a b c)) (rn (T_spatial_z s l a b c)) /\
  same_sign_o (rn (T_spatial_cottheta s l a b c)) (rn (T_spatial_z s l a b c)).
Proof. intros s l a b c Ho Hl. exact (conj (costheta_sign_of_z s l a b c Ho Hl) (cottheta_sign_of_z s l a b c Ho Hl)). Qed.

(* t derived from tau: non-negative, and computed as the square root of a NON-NEGATIVE number for all inputs *)
Theorem C13_t_from_tau_nonneg_never_nan :
  (forall s l a b c d, nonneg (rn (T_lorentz_t s l TTau a b c d))) /\
  (forall s l a b c d, exists u, rn (T_lorentz_t2 s l TTau a b c d) = Some u /\ 0 <= u /\
                                 rn (T_lorentz_t s l TTau a b c d) = Some (sqrt u)).
Proof. exact (conj t_from_tau_nonneg t_from_tau_is_sqrt_of_t2). Qed.

(* tau derived from t has the sign of tau2 = t^2 - mag2: negative exactly for spacelike vectors *)
Theorem C13_tau_negative_iff_spacelike : forall s l a b c d,
  same_sign_o (rn (T_lorentz_tau s l TT a b c d)) (rn (T_lorentz_tau2 s l TT a b c d)) /\
  match rn (T_lorentz_tau2 s l TT a b c d), rn (T_spatial_mag2 s l a b c) with
  | Some u, Some m => u = d * d - m | _, _ => False end.
Proof. intros. exact (conj (tau_sign_of_tau2 s l a b c d) (tau2_is_t2_minus_mag2 s l a b c d)). Qed.

(* forward timelike: 0 <= beta < 1 and gamma >= 1; lightlike: beta = 1  (Cartesian storage; other
   storages by C01) *)
Theorem C13_beta_gamma_partial :
  (forall x y z t, 0 < t -> x * x + y * y + z * z < t * t ->
     holds (rn (T_lorentz_beta XY LZ TT x y z t)) (fun b => 0 <= b < 1) /\
     holds (rn (T_lorentz_gamma XY LZ TT x y z t)) (fun g => 1 <= g)) /\
  (forall x y z t, 0 < t -> x * x + y * y + z * z = t * t ->
     holds (rn (T_lorentz_beta XY LZ TT x y z t)) (fun b => b = 1)).
Proof. exact (conj beta_gamma_timelike beta_lightlike). Qed.

(* ... and in EVERY coordinate system (12 signatures, t or tau stored): forward time-like => 0 <= beta < 1 and gamma >= 1;
   light-like => beta = 1 *)
Theorem C13_beta_gamma_all_signatures : forall s l t a b c d, rep4 s l t a b c d ->
  let T := st s l t a b c d in let P2 := smag2 s l a b c in
  (0 < T -> P2 < T * T ->
     (exists bt, numr (T_lorentz_beta s l t a b c d) = Some bt /\ 0 <= bt < 1) /\
     (exists g, numr (T_lorentz_gamma s l t a b c d) = Some g /\ 1 <= g)) /\
  (0 < T -> P2 = T * T -> numr (T_lorentz_beta s l t a b c d) = Some 1).
Proof.
  intros s l t a b c d H T P2. pose proof (smag2_nonneg s l a b c) as HP. fold P2 in HP. split.
  - intros HT Htl. split.
    + exists (sqrt P2 / T). split; [exact (beta_spec s l t a b c d H)|].
      assert (Hs : sqrt P2 < T). { pose proof (sqrt_lt_1_alt P2 (T * T)) as Hx. rewrite (sqrt_square T) in Hx by lra. apply Hx. lra. }
      pose proof (sqrt_pos P2). split.
      * apply Rmult_le_pos; [assumption | left; apply Rinv_0_lt_compat; exact HT].
      * apply (Rmult_lt_reg_r T); [exact HT|]. unfold Rdiv. rewrite Rmult_assoc, Rinv_l by lra. lra.
    + exists (T / sqrt (T * T - P2)). split; [apply (gamma_spec s l t a b c d H); fold T P2; lra|].
      assert (Hq : 0 < T * T - P2) by lra. pose proof (sqrt_lt_R0 _ Hq) as Hs.
      assert (Hle : sqrt (T * T - P2) <= T). { pose proof (sqrt_le_1_alt (T * T - P2) (T * T)) as Hx. rewrite (sqrt_square T) in Hx by lra. apply Hx. lra. }
      apply (Rmult_le_reg_r (sqrt (T * T - P2))); [exact Hs|]. unfold Rdiv. rewrite Rmult_assoc, Rinv_l by lra. lra.
  - intros HT Hll. rewrite (beta_spec s l t a b c d H). fold T P2. rewrite Hll, sqrt_square by lra. f_equal. field. lra.
Qed.

(* with one tolerance the three causal predicates are decided by d = v.v: d > |tol|, |d| < |tol|, d < -|tol| *)
Theorem C13_causal_follow_sign : forall s l t tol a b c d,
  (is_true (rb (T_lorentz_is_timelike s l t tol a b c d))
     <-> holds (rn (T_lorentz_dot s l t s l t a b c d a b c d)) (fun dd => Rabs tol < dd)) /\
  (is_true (rb (T_lorentz_is_lightlike s l t tol a b c d))
     <-> holds (rn (T_lorentz_dot s l t s l t a b c d a b c d)) (fun dd => Rabs dd < Rabs tol)) /\
  (is_true (rb (T_lorentz_is_spacelike s l t tol a b c d))
     <-> holds (rn (T_lorentz_dot s l t s l t a b c d a b c d)) (fun dd => dd < - Rabs tol)).
Proof. intros. exact (conj (timelike_spec s l t tol a b c d) (conj (lightlike_spec s l t tol a b c d) (spacelike_spec s l t tol a b c d))). Qed.

Theorem C13_causal_never_overlap : forall s l t tol a b c d,
  ~ (is_true (rb (T_lorentz_is_timelike s l t tol a b c d)) /\ is_true (rb (T_lorentz_is_lightlike s l t tol a b c d))) /\
  ~ (is_true (rb (T_lorentz_is_lightlike s l t tol a b c d)) /\ is_true (rb (T_lorentz_is_spacelike s l t tol a b c d))) /\
  ~ (is_true (rb (T_lorentz_is_timelike s l t tol a b c d)) /\ is_true (rb (T_lorentz_is_spacelike s l t tol a b c d))).
Proof. exact causal_disjoint. Qed.

(* parallel / antiparallel / perpendicular: dot against (1-|tol|)|a||b|, (|tol|-1)|a||b|, and |dot| < |tol||a||b| *)
Theorem C13_parallel_predicates_planar : forall s1 s2 tol a1 b1 a2 b2,
  (is_true (rb (T_planar_is_parallel s1 s2 tol a1 b1 a2 b2))
     <-> holds2 (planar_dot_rr s1 s2 a1 b1 a2 b2) (fun dd rr => (1 - Rabs tol) * rr < dd)) /\
  (is_true (rb (T_planar_is_antiparallel s1 s2 tol a1 b1 a2 b2))
     <-> holds2 (planar_dot_rr s1 s2 a1 b1 a2 b2) (fun dd rr => dd < (Rabs tol - 1) * rr)) /\
  (is_true (rb (T_planar_is_perpendicular s1 s2 tol a1 b1 a2 b2))
     <-> holds2 (planar_dot_rr s1 s2 a1 b1 a2 b2) (fun dd rr => Rabs dd < Rabs tol * rr)).
Proof.
  intros. exact (conj (planar_parallel_spec s1 s2 tol a1 b1 a2 b2)
    (conj (planar_antiparallel_spec s1 s2 tol a1 b1 a2 b2) (planar_perpendicular_spec s1 s2 tol a1 b1 a2 b2))).
Qed.
Theorem C13_parallel_predicates_spatial : forall s1 l1 s2 l2 tol a1 b1 c1 a2 b2 c2,
  (is_true (rb (T_spatial_is_parallel s1 l1 s2 l2 tol a1 b1 c1 a2 b2 c2))
     <-> holds2 (spatial_dot_mm s1 l1 s2 l2 a1 b1 c1 a2 b2 c2) (fun dd rr => (1 - Rabs tol) * rr < dd)) /\
  (is_true (rb (T_spatial_is_antiparallel s1 l1 s2 l2 tol a1 b1 c1 a2 b2 c2))
     <-> holds2 (spatial_dot_mm s1 l1 s2 l2 a1 b1 c1 a2 b2 c2) (fun dd rr => dd < (Rabs tol - 1) * rr)) /\
  (is_true (rb (T_spatial_is_perpendicular s1 l1 s2 l2 tol a1 b1 c1 a2 b2 c2))
     <-> holds2 (spatial_dot_mm s1 l1 s2 l2 a1 b1 c1 a2 b2 c2) (fun dd rr => Rabs dd < Rabs tol * rr)).
Proof.
  intros. exact (conj (spatial_parallel_spec s1 l1 s2 l2 tol a1 b1 c1 a2 b2 c2)
    (conj (spatial_antiparallel_spec s1 l1 s2 l2 tol a1 b1 c1 a2 b2 c2) (spatial_perpendicular_spec s1 l1 s2 l2 tol a1 b1 c1 a2 b2 c2))).
Qed.
(* ... which for non-zero vectors is: the cosine dd/rr is within tol of +1, -1, 0 *)
Theorem C13_cosine_form : forall dd rr tol, 0 < rr ->
  ((1 - Rabs tol) * rr < dd <-> 1 - Rabs tol < dd / rr) /\
  (dd < (Rabs tol - 1) * rr <-> dd / rr < -1 + Rabs tol) /\
  (Rabs dd < Rabs tol * rr <-> Rabs (dd / rr) < Rabs tol).
Proof. exact cosine_form. Qed.

(* non-vacuity *)

(* the same laws hold in numba-compiled code: for these operations every program point of the numba-supported API has the
   same outcome (class, coordinate system, field expressions over the generated compute definitions) through the
   Numba overload layer as through the interpreter (T5 table, gen/NbApi*.v; exceptions: the C07 known findings) *)
Theorem C13_compiled_ranged_are_the_interpreted_ones :
  VP.NbChecks.agree_on [N_phi; N_theta; N_eta; N_rho; N_rho2; N_mag; N_mag2; N_costheta; N_cottheta; N_t; N_t2; N_tau; N_tau2; N_beta; N_gamma; N_rapidity; N_deltaphi; N_deltaangle; N_deltaeta; N_deltaR; N_deltaR2; N_deltaRapidityPhi; N_deltaRapidityPhi2; N_is_timelike; N_is_spacelike; N_is_lightlike; N_is_timelike_tol; N_is_spacelike_tol; N_is_parallel; N_is_antiparallel; N_is_perpendicular; N_is_parallel_tol]%list = true /\
  Nat.ltb 100 (VP.NbChecks.count_on [N_phi; N_theta; N_eta; N_rho; N_rho2; N_mag; N_mag2; N_costheta; N_cottheta; N_t; N_t2; N_tau; N_tau2; N_beta; N_gamma; N_rapidity; N_deltaphi; N_deltaangle; N_deltaeta; N_deltaR; N_deltaR2; N_deltaRapidityPhi; N_deltaRapidityPhi2; N_is_timelike; N_is_spacelike; N_is_lightlike; N_is_timelike_tol; N_is_spacelike_tol; N_is_parallel; N_is_antiparallel; N_is_perpendicular; N_is_parallel_tol]%list) = true.
Proof. vm_cast_no_check (conj (eq_refl true) (eq_refl true)). Qed.

Example C13_nonvacuous :
  off_axis XY 1 2 /\ lg_ok LTheta 1 /\ (0 < 5 /\ 1 * 1 + 2 * 2 + 3 * 3 < 5 * 5) /\
  holds (rn (T_lorentz_dot XY LZ TT XY LZ TT 1 2 3 5 1 2 3 5)) (fun dd => dd = 11).
Proof.
  repeat split; cbn [off_axis lg_ok]; try Lra.lra.
  - pose proof PI_ineq 0%nat. pose proof PI_RGT_0. pose proof (PI2_3_2). Lra.lra.
  - cbv [T_lorentz_dot lorentz_dot__xy_z_t_xy_z_t rn holds]. Unfold.vunfold. runfold. Lra.lra.
Qed.
