(* C20 — operations leave no trace in global state and are thread-deterministic.  Statements only.
   Model (model/Effects.v): the effect skeleton of every compute `dispatch` (gen/EffectSkel.v, regenerated from the Python
   ast by T2 on every run), a big-step semantics in which ANY statement may raise, and the interleaving semantics of
   threads whose floating-point error state is thread-local.  The runtime facts the model assumes — numpy.errstate
   restores on every exit, the error state is per thread, the compute functions below dispatch are pure (T1 audit) — are
   checked against the real interpreter by the correspondence (tools/props/C20.py). *)
From Coq Require Import List String Bool Arith.
From VP Require Import Effects EffectSkel.
Import ListNotations.
Open Scope string_scope.

(* every one of the dispatch functions is balanced: nothing but local assignments, returns, raises, branches and
   `with numpy.errstate(all="ignore")` blocks *)
Theorem C20_every_dispatch_is_balanced : forallb (fun d => balanced (snd d)) dispatch_skeletons = true.
Proof. vm_compute. reflexivity. Qed.

(* hence: whether it returns or raises — wherever it raises — a dispatch leaves all four pieces of process-wide state
   exactly as they were, under any prior setting g *)
Theorem C20_dispatch_leaves_no_trace : forall name p, In (name, p) dispatch_skeletons ->
  forall g g' o, ex p g g' o -> g' = g.
Proof.
  intros name p Hin g g' o H. apply (balanced_leaves_no_trace p g g' o); [|exact H].
  pose proof C20_every_dispatch_is_balanced as A. rewrite forallb_forall in A. exact (A (name, p) Hin).
Qed.

(* the only run-time writers of process-wide state anywhere in src/vector are register_awkward / register_numba;
   every other writer is a table builder that runs once at import *)
Definition writer_allowed (w : string * string * string * string * bool) : bool :=
  let '(file, fn, kind, text, import_time) := w in
  import_time || ((String.eqb file "__init__.py") && (String.eqb fn "register_awkward" || String.eqb fn "register_numba")).
Theorem C20_only_register_functions_write_globals : forallb writer_allowed global_writers = true.
Proof. vm_compute. reflexivity. Qed.

(* the only context managers entered anywhere in src/vector are the error-state override and contextlib.suppress *)
Definition cm_allowed (c : string * nat) : bool :=
  String.eqb (fst c) "numpy.errstate(all='ignore')" || String.eqb (fst c) "suppress(ValueError)".
Theorem C20_context_managers : forallb cm_allowed context_managers = true.
Proof. vm_compute. reflexivity. Qed.

(* registration is idempotent: dict.update with the same entries twice = once (model: a registry as an association
   function) *)
Definition update {K V : Type} (eqb : K -> K -> bool) (new : list (K * V)) (reg : K -> option V) : K -> option V :=
  fun k => match find (fun e => eqb k (fst e)) new with Some e => Some (snd e) | None => reg k end.
Theorem C20_registration_idempotent : forall (K V : Type) (eqb : K -> K -> bool) (new : list (K * V)) reg k,
  update eqb new (update eqb new reg) k = update eqb new reg k.
Proof. intros. unfold update. destruct (find _ new); reflexivity. Qed.

(* threads: under every interleaving of whole dispatches, every thread's results are exactly those of running its own
   calls one after another, and its error setting is untouched *)
Theorem C20_threads_deterministic : forall (Op Res : Type) (run : Op -> Res) (sch : list micro) (w : world) (t : thread) (ops : list Op),
  mine t sch = flat_map (dispatch_of t) ops ->
  fold_left (wstep run) sch w t = {| cur := cur (w t); saved := saved (w t); out := out (w t) ++ map run ops |}.
Proof. intros. apply threads_deterministic. assumption. Qed.

Theorem C20_schedules_agree : forall (Op Res : Type) (run : Op -> Res) (s1 s2 : list micro) (w : world),
  (forall t, mine t s1 = mine t s2) -> forall t, fold_left (wstep run) s1 w t = fold_left (wstep run) s2 w t.
Proof. intros. apply schedules_agree. assumption. Qed.

(* non-vacuity: an actual interleaving of two threads' dispatches *)
Example C20_interleaving_example :
  let sch := [Enter 1; Enter 2; Compute 2 5; Compute 1 3; Leave 1; Enter 1; Leave 2; Compute 1 4; Leave 1] in
  let w := fun _ : nat => {| cur := 7; saved := []; out := [] |} in
  fold_left (wstep (fun x : nat => x * x)) sch w 1 = {| cur := 7; saved := []; out := [9; 16] |} /\
  fold_left (wstep (fun x : nat => x * x)) sch w 2 = {| cur := 7; saved := []; out := [25] |}.
Proof. vm_compute. split; reflexivity. Qed.
(* and of the exception semantics: a dispatch that raises inside the override still restores the setting *)
Example C20_raise_inside_override : ex [SLocal; SWith true [SLocal; SReturn]] {| errstate := 7; warnings_filters := 1; printoptions := 2; ak_behavior := 3 |}
                                       {| errstate := 7; warnings_filters := 1; printoptions := 2; ak_behavior := 3 |} Raised.
Proof.
  apply ex_local.
  change (ex [SWith true [SLocal; SReturn]] {| errstate := 7; warnings_filters := 1; printoptions := 2; ak_behavior := 3 |}
             (leave {| errstate := 7; warnings_filters := 1; printoptions := 2; ak_behavior := 3 |} (enter {| errstate := 7; warnings_filters := 1; printoptions := 2; ak_behavior := 3 |})) Raised).
  apply ex_with_exit; [discriminate|]. apply ex_local. apply ex_abort.
Qed.
