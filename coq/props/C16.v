(* C16 — operations never modify their operands.  Statements only.
   Model: a heap of vector values identified by ids; a non-mutating operation reads operands and ALLOCATES its result.
   Frame theorem: every entry that existed before an operation is unchanged after it, for histories of any length.
   Array buffers are runtime objects the model cannot exhibit: the real backends are tied to the model by bit-level
   snapshots of every operand before / after each catalogued call (see evidence; partial, as stated in DESIGN). *)
From Coq Require Import List Arith Lia Bool.
From VP Require Purity.
Import ListNotations.

Section Frame.
Context {V : Type}.
Definition heap := list V.                         (* id = position *)
(* a functional operation: reads the operands at the given ids and appends its result *)
Record fop := { reads : list nat; compute : list (option V) -> V }.
Definition step (h : heap) (o : fop) : heap := h ++ [compute o (map (nth_error h) (reads o))].

Lemma step_frame h o i : i < length h -> nth_error (step h o) i = nth_error h i.
Proof. intros H. unfold step. apply nth_error_app1. exact H. Qed.
Lemma step_length h o : length (step h o) = S (length h).
Proof. unfold step. rewrite app_length. cbn. lia. Qed.

(* after ANY sequence of functional operations every pre-existing operand is exactly what it was *)
Theorem C16_operands_unchanged : forall (ops : list fop) (h : heap) (i : nat),
  i < length h -> nth_error (fold_left step ops h) i = nth_error h i.
Proof.
  induction ops as [|o ops IH]; intros h i Hi; cbn [fold_left]; [reflexivity|].
  rewrite IH by (rewrite step_length; lia). apply step_frame. exact Hi.
Qed.
Theorem C16_results_are_fresh : forall (ops : list fop) (h : heap), length (fold_left step ops h) = length h + length ops.
Proof.
  induction ops as [|o ops IH]; intros h; cbn [fold_left length]; [lia|]. rewrite IH, step_length. lia.
Qed.
End Frame.

Example C16_nonvacuous : nth_error (fold_left step [{| reads := [0; 1]; compute := fun l => 7 |}] [3; 4]) 1 = Some 4.
Proof. reflexivity. Qed.

(* The compute layer cannot write through an operand: every statement of every one of the 2433 compute functions (hand-written
   variants and the closures made by the factories; python ast of the current source, gen/Purity.v) binds plain local names to a
   new value or returns — no augmented assignment (x op= ...), no assignment to a subscript or attribute, no call with out=.
   (NumPy / Awkward columns reach these functions by reference: an in-place operator there would overwrite the caller's array.) *)
Definition pure_kind (k : VP.Purity.skind) : bool := match k with VP.Purity.SAssign | VP.Purity.SReturn => true | _ => false end.
Theorem C16_compute_functions_bind_and_return_only :
  forallb (fun e => forallb pure_kind (snd e)) VP.Purity.purity_tab = true /\ Nat.ltb 2000 (length VP.Purity.purity_tab) = true.
Proof. vm_compute. split; reflexivity. Qed.
