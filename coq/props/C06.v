(* C06 — constructors accept the documented coordinate sets.  Statements only.
   [documented] (model/Ctor.v) is the specification classifier written from the documentation; these theorems, each an
   exhaustive kernel computation over ALL 2^19 name sets, say that it is the classification the property describes.
   The constructors of the real code are tied to it by an exhaustive correspondence (see evidence). *)
From Coq Require Import NArith List Bool.
From VP Require Import Ctor.
Import ListNotations.
Open Scope N_scope.

(* an accepted set has exactly as many names as the dimension: nothing missing, nothing extra *)
Theorem C06_accepted_sets_are_exact : allb 19 (fun s => (documented s =? 0) || (popcount s =? dim_of (documented s))) 0 = true.
Proof. vm_compute. reflexivity. Qed.

(* two spellings of one coordinate, a missing partner, two longitudinal / temporal coordinates, or a temporal
   coordinate without a longitudinal one are all rejected *)
Theorem C06_rejections : allb 19 (fun s =>
  let c g := cnt s g in
  implb (existsb (fun g => 1 <? c g) all_groups) (documented s =? 0) &&
  implb (negb ((c g_x =? c g_y) && (c g_rho =? c g_phi))) (documented s =? 0) &&
  implb ((0 <? c g_x) && (0 <? c g_rho)) (documented s =? 0) &&
  implb (1 <? c g_z + c g_theta + c g_eta) (documented s =? 0) &&
  implb (1 <? c g_t + c g_tau) (documented s =? 0) &&
  implb ((0 <? c g_t + c g_tau) && (c g_z + c g_theta + c g_eta =? 0)) (documented s =? 0) &&
  implb (s =? 0) (documented s =? 0)) 0 = true.
Proof. vm_compute. reflexivity. Qed.

(* momentum flavor exactly when some momentum spelling is used; the spelling never changes dimension or systems *)
Theorem C06_flavor_and_spelling_invariance :
  forallb (fun s =>
    let code := documented s in
    Bool.eqb (10000 <=? code) (0 <? cnt s momentum_names) &&
    forallb (fun i => negb (has s i) ||
       forallb (fun j => shape_of_code (documented (swap_spelling s i j)) =? shape_of_code code) (group_of i))
      [0;1;2;3;4;5;6;7;8;9;10;11;12;13;14;15;16;17;18])
    (collect 19 (fun s => negb (documented s =? 0)) 0 nil) = true.
Proof. vm_compute. reflexivity. Qed.

(* 222 accepted sets: 6 azimuthal spellings x (1 + 4 longitudinal spellings x (1 + 8 temporal spellings)) *)
Theorem C06_number_of_documented_sets : length (collect 19 (fun s => negb (documented s =? 0)) 0 nil) = 222%nat.
Proof. vm_compute. reflexivity. Qed.

(* what an array constructor may accept: a complete documented subset of the given names, never an incomplete set *)
Theorem C06_array_interpretations_are_complete_subsets : forall s u code,
  valid_interpretation s u code = true -> N.land u s = u /\ documented u = code /\ code <> 0.
Proof.
  intros s u code H. unfold valid_interpretation in H.
  apply andb_prop in H. destruct H as [H Hn]. apply andb_prop in H. destruct H as [Hs Hd].
  apply N.eqb_eq in Hs. apply N.eqb_eq in Hd. repeat split; try assumption.
  intro E. rewrite E in Hn. discriminate.
Qed.
