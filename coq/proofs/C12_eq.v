(* C12, part 1: equality laws for ANY carrier obeying BoolLaws (reals, NaN-free floats...) *)
From Coq Require Import Bool.
From VP Require Import Lib BoolLaws Compute Tables Unfold.

Ltac bl := cbn [trres option_map]; repeat rewrite ?band_spec, ?bor_spec, ?lne_spec, ?leq_refl; try reflexivity.
Ltac comm_eq := repeat (f_equal; try apply leq_comm).

Section C12.
Context {L : Lib} {BL : BoolLaws L}.

(* ---- planar ---- *)
Lemma planar_equal_refl s a b : trres (T_planar_equal s s a b a b) = Some true.
Proof. destruct s; vunfold; bl. Qed.
Lemma planar_equal_sym s1 s2 a1 b1 a2 b2 :
  trres (T_planar_equal s1 s2 a1 b1 a2 b2) = trres (T_planar_equal s2 s1 a2 b2 a1 b1).
Proof. destruct s1, s2; vunfold; bl; comm_eq. Qed.
Lemma planar_equal_same s a1 b1 a2 b2 :
  trres (T_planar_equal s s a1 b1 a2 b2) = Some (tr (leq a1 a2) && tr (leq b1 b2)).
Proof. destruct s; vunfold; bl. Qed.

(* ---- spatial ---- *)
Lemma spatial_equal_refl s l a b c : trres (T_spatial_equal s l s l a b c a b c) = Some true.
Proof. destruct s, l; vunfold; bl. Qed.
Lemma spatial_equal_sym s1 l1 s2 l2 a1 b1 c1 a2 b2 c2 :
  trres (T_spatial_equal s1 l1 s2 l2 a1 b1 c1 a2 b2 c2) = trres (T_spatial_equal s2 l2 s1 l1 a2 b2 c2 a1 b1 c1).
Proof. destruct s1, l1, s2, l2; vunfold; bl; comm_eq. Qed.
Lemma spatial_equal_same s l a1 b1 c1 a2 b2 c2 :
  trres (T_spatial_equal s l s l a1 b1 c1 a2 b2 c2) = Some (tr (leq a1 a2) && tr (leq b1 b2) && tr (leq c1 c2)).
Proof. destruct s, l; vunfold; bl. Qed.

(* ---- lorentz ---- *)
Lemma lorentz_equal_refl s l t a b c d : trres (T_lorentz_equal s l t s l t a b c d a b c d) = Some true.
Proof. destruct s, l, t; vunfold; bl. Qed.
Lemma lorentz_equal_sym s1 l1 t1 s2 l2 t2 a1 b1 c1 d1 a2 b2 c2 d2 :
  trres (T_lorentz_equal s1 l1 t1 s2 l2 t2 a1 b1 c1 d1 a2 b2 c2 d2)
  = trres (T_lorentz_equal s2 l2 t2 s1 l1 t1 a2 b2 c2 d2 a1 b1 c1 d1).
Proof. destruct s1, l1, t1, s2, l2, t2; vunfold; bl; comm_eq. Qed.
Lemma lorentz_equal_same s l t a1 b1 c1 d1 a2 b2 c2 d2 :
  trres (T_lorentz_equal s l t s l t a1 b1 c1 d1 a2 b2 c2 d2)
  = Some (tr (leq a1 a2) && tr (leq b1 b2) && tr (leq c1 c2) && tr (leq d1 d2)).
Proof.
  destruct s, l, t; vunfold; bl;
  repeat rewrite <- andb_assoc; rewrite andb_comm; repeat rewrite <- andb_assoc; reflexivity.
Qed.
End C12.
