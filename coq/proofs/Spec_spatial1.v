(* Spatial accessors in all six coordinate systems compute the documented quantities. *)
From Coq Require Import Reals Lra Psatz.
From VP Require Import Lib RLib Trig Conv Spec Compute Tables Unfold Spec_planar.
Open Scope R_scope.

Ltac sp3 := vunfold; runfold; cbn [numr den2 den3 sx sy srho sz smag2 canon_az canon_lg pos_az] in *.

Lemma srho_sq s a b : canon_az s a b -> srho s a b * srho s a b = sx s a b * sx s a b + sy s a b * sy s a b.
Proof. intros H; destruct s; cbn [srho sx sy]; [apply sqrt_sqrt; nra | rewrite sq_cs; reflexivity]. Qed.
Lemma srho_nonneg s a b : canon_az s a b -> 0 <= srho s a b.
Proof. intros H; destruct s; cbn [srho]; [apply sqrt_pos | exact H]. Qed.
Lemma srho_pos s a b : pos_az s a b -> 0 < srho s a b.
Proof. intros H; destruct s; cbn [srho pos_az] in *; [apply sqrt_lt_R0; exact H | exact H]. Qed.
Lemma pos_canon s a b : pos_az s a b -> canon_az s a b.
Proof. destruct s; cbn; intros; [exact I | lra]. Qed.

Lemma z_spec s l a b c : numr (T_spatial_z s l a b c) = Some (sz s l a b c).
Proof. destruct s, l; sp3; try reflexivity; rewrite div_tan; reflexivity. Qed.

Lemma smag2_alt s l a b c : canon_az s a b ->
  smag2 s l a b c = srho s a b * srho s a b + sz s l a b c * sz s l a b c.
Proof. intros H. unfold smag2. rewrite srho_sq by exact H. reflexivity. Qed.

Lemma cot_sq_sum r c : sin c <> 0 ->
  r * r + r * (cos c / sin c) * (r * (cos c / sin c)) = (r / sin c) * (r / sin c).
Proof.
  intros Hs. pose proof (sin2_cos2 c) as H2. unfold Rsqr in H2.
  replace (r * r + r * (cos c / sin c) * (r * (cos c / sin c)))
    with (r * r * (sin c * sin c + cos c * cos c) / (sin c * sin c)) by (field; exact Hs).
  rewrite H2. field. exact Hs.
Qed.
Lemma cosh_sq_sum r e : r * r + r * sinh e * (r * sinh e) = (r * cosh e) * (r * cosh e).
Proof. pose proof (cosh2_sinh2 e). nra. Qed.

Lemma mag2_spec s l a b c : canon_az s a b -> canon_lg l c ->
  numr (T_spatial_mag2 s l a b c) = Some (smag2 s l a b c).
Proof.
  intros Ha Hl. rewrite smag2_alt by exact Ha.
  destruct s, l; sp3; f_equal; try reflexivity.
  - rewrite sqrt_sqrt by nra. reflexivity.
  - pose proof (sin_gt_0 c (proj1 Hl) (proj2 Hl)) as Hs. rewrite cot_sq_sum by lra.
    set (r := sqrt (a * a + b * b)). replace (r / sin c * (r / sin c)) with (r * r / (sin c * sin c)) by (field; lra).
    unfold r. rewrite sqrt_sqrt by nra. reflexivity.
  - rewrite cosh_expneg, cosh_sq_sum. set (r := sqrt (a * a + b * b)).
    replace (r * cosh c * (r * cosh c)) with (r * r * (cosh c * cosh c)) by ring. unfold r. rewrite sqrt_sqrt by nra. reflexivity.
  - pose proof (sin_gt_0 c (proj1 Hl) (proj2 Hl)) as Hs. rewrite cot_sq_sum by lra. field. lra.
  - rewrite cosh_expneg, cosh_sq_sum. ring.
Qed.

Lemma mag_spec s l a b c : canon_az s a b -> canon_lg l c ->
  numr (T_spatial_mag s l a b c) = Some (sqrt (smag2 s l a b c)).
Proof.
  intros Ha Hl. rewrite smag2_alt by exact Ha.
  destruct s, l; sp3; f_equal; try reflexivity.
  - rewrite sqrt_sqrt by nra. reflexivity.
  - pose proof (sin_gt_0 c (proj1 Hl) (proj2 Hl)) as Hs. pose proof (sin2_cos2 c) as H2. unfold Rsqr in H2.
    rewrite Rabs_right by lra. set (r := sqrt (a * a + b * b)). assert (0 <= r) by apply sqrt_pos.
    rewrite cot_sq_sum by lra.
    rewrite sqrt_square; [reflexivity|]. apply Rmult_le_pos; [assumption | left; apply Rinv_0_lt_compat; exact Hs].
  - rewrite cosh_expneg. set (r := sqrt (a * a + b * b)). assert (0 <= r) by apply sqrt_pos.
    rewrite cosh_sq_sum.
    rewrite sqrt_square; [reflexivity|]. pose proof (cosh_pos c). nra.
  - pose proof (sin_gt_0 c (proj1 Hl) (proj2 Hl)) as Hs. pose proof (sin2_cos2 c) as H2. unfold Rsqr in H2.
    rewrite Rabs_right by lra.
    rewrite cot_sq_sum by lra.
    rewrite sqrt_square; [reflexivity|]. apply Rmult_le_pos; [assumption | left; apply Rinv_0_lt_compat; exact Hs].
  - rewrite cosh_expneg.
    rewrite cosh_sq_sum.
    rewrite sqrt_square; [reflexivity|]. pose proof (cosh_pos c). nra.
Qed.

(* theta: the polar angle of (z, rho): mag cos theta = z, mag sin theta = rho, 0 <= theta <= PI *)
Definition is_theta (rho z th : R) : Prop :=
  0 <= th <= PI /\ sqrt (rho * rho + z * z) * cos th = z /\ sqrt (rho * rho + z * z) * sin th = rho.

Lemma theta_spec s l a b c : pos_az s a b -> canon_lg l c ->
  exists th, numr (T_spatial_theta s l a b c) = Some th /\ is_theta (srho s a b) (sz s l a b c) th.
Proof.
  intros Hp Hl. pose proof (srho_pos s a b Hp) as Hr.
  destruct s, l; sp3; eexists; (split; [reflexivity|]); unfold is_theta.
  - set (r := sqrt (a * a + b * b)) in *. split; [apply acos_bound|].
    replace (a * a + b * b + c * c) with (r * r + c * c) by (unfold r; rewrite sqrt_sqrt by nra; ring).
    apply acos_polar; nra.
  - set (r := sqrt (a * a + b * b)) in *.
    pose proof (sin_gt_0 c (proj1 Hl) (proj2 Hl)) as Hs. pose proof (sin2_cos2 c) as H2. unfold Rsqr in H2.
    split; [lra|].
    rewrite cot_sq_sum by lra.
    rewrite sqrt_square by (apply Rmult_le_pos; [lra | left; apply Rinv_0_lt_compat; exact Hs]).
    split; field; lra.
  - set (r := sqrt (a * a + b * b)) in *. replace (2 / 1) with 2 by field.
    pose proof (theta_of_eta_range c). split; [lra|].
    rewrite cosh_sq_sum.
    pose proof (cosh_pos c). rewrite sqrt_square by nra.
    rewrite cos_theta_of_eta, sin_theta_of_eta. split; field; lra.
  - split; [apply acos_bound|]. apply acos_polar; nra.
  - pose proof (sin_gt_0 c (proj1 Hl) (proj2 Hl)) as Hs. pose proof (sin2_cos2 c) as H2. unfold Rsqr in H2.
    split; [lra|].
    rewrite cot_sq_sum by lra.
    rewrite sqrt_square by (apply Rmult_le_pos; [lra | left; apply Rinv_0_lt_compat; exact Hs]).
    split; field; lra.
  - replace (2 / 1) with 2 by field.
    pose proof (theta_of_eta_range c). split; [lra|].
    rewrite cosh_sq_sum.
    pose proof (cosh_pos c). rewrite sqrt_square by nra.
    rewrite cos_theta_of_eta, sin_theta_of_eta. split; field; lra.
Qed.

(* eta: rho sinh eta = z *)
Lemma eta_spec s l a b c : pos_az s a b -> canon_lg l c ->
  exists e, numr (T_spatial_eta s l a b c) = Some e /\ srho s a b * sinh e = sz s l a b c.
Proof.
  intros Hp Hl. pose proof (srho_pos s a b Hp) as Hr.
  destruct s, l; sp3; eexists; (split; [reflexivity|]).
  - rewrite sinh_arcsinh. field. lra.
  - rewrite sinh_eta_of_theta by exact Hl. reflexivity.
  - reflexivity.
  - rewrite sinh_arcsinh. field. lra.
  - rewrite sinh_eta_of_theta by exact Hl. reflexivity.
  - reflexivity.
Qed.

(* costheta = z / mag, cottheta = z / rho *)
Lemma costheta_spec s l a b c : pos_az s a b -> canon_lg l c ->
  exists v, numr (T_spatial_costheta s l a b c) = Some v /\ sqrt (smag2 s l a b c) * v = sz s l a b c.
Proof.
  intros Hp Hl. pose proof (srho_pos s a b Hp) as Hr. pose proof (pos_canon s a b Hp) as Hc.
  rewrite smag2_alt by exact Hc.
  destruct (theta_spec s l a b c Hp Hl) as [th [Eth [_ [Hcos _]]]].
  revert Eth Hcos. destruct s, l; sp3; intros Eth Hcos; eexists; (split; [reflexivity|]).
  - rewrite sqrt_sqrt by nra. field. apply Rgt_not_eq. apply sqrt_lt_R0. nra.
  - injection Eth as <-. exact Hcos.
  - injection Eth as <-. exact Hcos.
  - field. apply Rgt_not_eq. apply sqrt_lt_R0. nra.
  - injection Eth as <-. exact Hcos.
  - injection Eth as <-. exact Hcos.
Qed.

Lemma d11 x : 1 / 1 / x = / x.
Proof. unfold Rdiv. rewrite Rinv_1. ring. Qed.

Lemma cottheta_spec s l a b c : pos_az s a b -> canon_lg l c ->
  exists v, numr (T_spatial_cottheta s l a b c) = Some v /\ srho s a b * v = sz s l a b c.
Proof.
  intros Hp Hl. pose proof (srho_pos s a b Hp) as Hr.
  destruct s, l; sp3; eexists; (split; [reflexivity|]); rewrite ?d11, ?inv_tan.
  - field. lra.
  - reflexivity.
  - replace (2 / 1) with 2 by field. rewrite cot_theta_of_eta. reflexivity.
  - field. lra.
  - reflexivity.
  - replace (2 / 1) with 2 by field. rewrite cot_theta_of_eta. reflexivity.
Qed.
