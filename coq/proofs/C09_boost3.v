(* C09, part 3: boost_p4 in all 144 signatures (booster in any storage) and the axis boosts of tau-stored vectors reduce to the Cartesian variants. *)
From Coq Require Import Reals Lra Psatz.
From VP Require Import Lib RLib Trig Conv Spec Compute Tables Unfold Spec_planar Spec_spatial1 Spec_spatial2 Spec_lorentz C09_boost.
Open Scope R_scope.

(* boost_p4: any storage of the BOOSTER (the boosted vector Cartesian): the variants evaluate |p|^2 of the booster with
   spatial.mag2 of its own system; mag2_spec turns that into x^2 + y^2 + z^2 of the denoted point *)
Lemma boost_p4_booster_square t t2 x y z d s2 l2 a2 b2 c2 d2 : canon_az s2 a2 b2 -> canon_lg l2 c2 ->
  den4 (T_lorentz_boost_p4 XY LZ t s2 l2 t2 x y z d a2 b2 c2 d2)
  = den4 (T_lorentz_boost_p4 XY LZ t XY LZ t2 x y z d (sx s2 a2 b2) (sy s2 a2 b2) (sz s2 l2 a2 b2 c2) d2).
Proof.
  intros Ha Hl. pose proof (mag2_spec s2 l2 a2 b2 c2 Ha Hl) as Hm. unfold smag2 in Hm.
  destruct s2, l2, t, t2; revert Hm; vunfold; runfold; cbn [numr sx sy sz srho]; intros Hm; apply (f_equal (fun o => match o with Some v => v | None => 0 end)) in Hm; cbv beta iota in Hm;
    cbn [den4 sx sy sz srho st]; rewrite ?Hm; try reflexivity; rewrite ?div_tan; try reflexivity.
Qed.

(* boost_p4 in all 144 signatures: both the boosted vector and the booster reduce to their Cartesian denotation *)
Lemma boost_p4_square s l t s2 l2 t2 a b c d a2 b2 c2 d2 : canon_az s2 a2 b2 -> canon_lg l2 c2 ->
  den4 (T_lorentz_boost_p4 s l t s2 l2 t2 a b c d a2 b2 c2 d2)
  = den4 (T_lorentz_boost_p4 XY LZ t XY LZ t2 (sx s a b) (sy s a b) (sz s l a b c) d (sx s2 a2 b2) (sy s2 a2 b2) (sz s2 l2 a2 b2 c2) d2).
Proof.
  intros Ha Hl. rewrite <- (boost_p4_booster_square t t2 _ _ _ d s2 l2 a2 b2 c2 d2 Ha Hl).
  destruct s, l, t, s2, l2, t2; square4.
Qed.

(* axis boosts of tau-stored vectors: same reduction (the time of the vector is recomputed from tau and mag2 of ITS system) *)
Ltac tau_square s l a b c Ha Hl :=
  let Hm := fresh "Hm" in
  pose proof (mag2_spec s l a b c Ha Hl) as Hm; unfold smag2 in Hm;
  destruct s, l; revert Hm; vunfold; runfold; cbn [numr sx sy sz srho]; intros Hm;
  apply (f_equal (fun o => match o with Some v => v | None => 0 end)) in Hm; cbv beta iota in Hm;
  cbn [den4 sx sy sz srho st]; rewrite ?Hm; try reflexivity; rewrite ?div_tan; try reflexivity; norm; first [reflexivity | (apply some4; ring)].

Lemma boostX_beta_tau_square s l beta a b c d : canon_az s a b -> canon_lg l c ->
  den4 (T_lorentz_boostX_beta s l TTau beta a b c d) = den4 (T_lorentz_boostX_beta XY LZ TTau beta (sx s a b) (sy s a b) (sz s l a b c) d).
Proof. intros Ha Hl. tau_square s l a b c Ha Hl. Qed.
Lemma boostY_beta_tau_square s l beta a b c d : canon_az s a b -> canon_lg l c ->
  den4 (T_lorentz_boostY_beta s l TTau beta a b c d) = den4 (T_lorentz_boostY_beta XY LZ TTau beta (sx s a b) (sy s a b) (sz s l a b c) d).
Proof. intros Ha Hl. tau_square s l a b c Ha Hl. Qed.
Lemma boostZ_beta_tau_square s l beta a b c d : canon_az s a b -> canon_lg l c ->
  den4 (T_lorentz_boostZ_beta s l TTau beta a b c d) = den4 (T_lorentz_boostZ_beta XY LZ TTau beta (sx s a b) (sy s a b) (sz s l a b c) d).
Proof. intros Ha Hl. tau_square s l a b c Ha Hl. Qed.
Lemma boostX_gamma_tau_square s l g a b c d : canon_az s a b -> canon_lg l c ->
  den4 (T_lorentz_boostX_gamma s l TTau g a b c d) = den4 (T_lorentz_boostX_gamma XY LZ TTau g (sx s a b) (sy s a b) (sz s l a b c) d).
Proof. intros Ha Hl. tau_square s l a b c Ha Hl. Qed.
Lemma boostY_gamma_tau_square s l g a b c d : canon_az s a b -> canon_lg l c ->
  den4 (T_lorentz_boostY_gamma s l TTau g a b c d) = den4 (T_lorentz_boostY_gamma XY LZ TTau g (sx s a b) (sy s a b) (sz s l a b c) d).
Proof. intros Ha Hl. tau_square s l a b c Ha Hl. Qed.
Lemma boostZ_gamma_tau_square s l g a b c d : canon_az s a b -> canon_lg l c ->
  den4 (T_lorentz_boostZ_gamma s l TTau g a b c d) = den4 (T_lorentz_boostZ_gamma XY LZ TTau g (sx s a b) (sy s a b) (sz s l a b c) d).
Proof. intros Ha Hl. tau_square s l a b c Ha Hl. Qed.
