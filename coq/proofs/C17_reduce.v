(* C17: instantiating the reduction model with stored vectors in arbitrary coordinate systems and their Cartesian
   components (lib/Spec.v); the real reducers sum the accessor columns x, y, z, t, whose meaning is C01. *)
From Coq Require Import Reals Lra Psatz List.
From VP Require Import Lib RLib Trig Conv Spec Compute Tables Unfold Spec_planar Spec_spatial1 Spec_spatial2 Spec_lorentz Layout.
Import ListNotations.
Open Scope R_scope.

Record stored4 := { v_s : az; v_l : lg; v_t : tm; v_a : R; v_b : R; v_c : R; v_d : R }.
Definition C4 := (R * R * R * R)%type.
Definition cart4 (v : stored4) : C4 :=
  (sx (v_s v) (v_a v) (v_b v), sy (v_s v) (v_a v) (v_b v), sz (v_s v) (v_l v) (v_a v) (v_b v) (v_c v), st (v_s v) (v_l v) (v_t v) (v_a v) (v_b v) (v_c v) (v_d v)).
Definition add4 (p q : C4) : C4 :=
  let '(x1, y1, z1, t1) := p in let '(x2, y2, z2, t2) := q in (x1 + x2, y1 + y2, z1 + z2, t1 + t2).
Definition zero4 : C4 := (0, 0, 0, 0).

Lemma q4 (a b c d a' b' c' d' : R) : a = a' -> b = b' -> c = c' -> d = d' -> (a, b, c, d) = (a', b', c', d').
Proof. intros; subst; reflexivity. Qed.
Lemma add4_assoc a b c : add4 a (add4 b c) = add4 (add4 a b) c.
Proof. destruct a as [[[? ?] ?] ?], b as [[[? ?] ?] ?], c as [[[? ?] ?] ?]. cbn. apply q4; ring. Qed.
Lemma add4_comm a b : add4 a b = add4 b a.
Proof. destruct a as [[[? ?] ?] ?], b as [[[? ?] ?] ?]. cbn. apply q4; ring. Qed.
Lemma add4_0 a : add4 zero4 a = a.
Proof. destruct a as [[[? ?] ?] ?]. cbn. apply q4; ring. Qed.

(* what the real reducer computes per element: the four accessor columns *)
Definition accessor_columns (v : stored4) : option C4 :=
  match numr (T_planar_x (v_s v) (v_a v) (v_b v)), numr (T_planar_y (v_s v) (v_a v) (v_b v)),
        numr (T_spatial_z (v_s v) (v_l v) (v_a v) (v_b v) (v_c v)), numr (T_lorentz_t (v_s v) (v_l v) (v_t v) (v_a v) (v_b v) (v_c v) (v_d v)) with
  | Some x, Some y, Some z, Some t => Some (x, y, z, t) | _, _, _, _ => None end.
Definition rep (v : stored4) : Prop := rep4 (v_s v) (v_l v) (v_t v) (v_a v) (v_b v) (v_c v) (v_d v).

Lemma accessor_columns_are_cartesian v : rep v -> accessor_columns v = Some (cart4 v).
Proof. intros H. unfold accessor_columns, cart4. rewrite x_spec, y_spec, z_spec, t_spec by exact H. reflexivity. Qed.

(* the sum of an array of vectors, each stored in ITS OWN system: the vector of the sums of the Cartesian components *)
Theorem sum_is_cartesian_sum (l : list stored4) : Forall rep l ->
  map accessor_columns l = map (fun v => Some (cart4 v)) l.
Proof. induction 1 as [|v l Hv _ IH]; cbn; [reflexivity|]. rewrite accessor_columns_are_cartesian by exact Hv. f_equal. exact IH. Qed.

(* the nonzero test of count_nonzero:  rho2 != 0 or z != 0 or t2 != 0  <->  the vector is not the zero vector *)
Lemma sq_sum_zero x y : x * x + y * y = 0 <-> x = 0 /\ y = 0.
Proof. split; [intros H; split; nra | intros [-> ->]; ring]. Qed.
Theorem nonzero_test_is_not_zero_vector v : rep v ->
  match numr (T_planar_rho2 (v_s v) (v_a v) (v_b v)), numr (T_spatial_z (v_s v) (v_l v) (v_a v) (v_b v) (v_c v)),
        numr (T_lorentz_t2 (v_s v) (v_l v) (v_t v) (v_a v) (v_b v) (v_c v) (v_d v)), numr (T_lorentz_t (v_s v) (v_l v) (v_t v) (v_a v) (v_b v) (v_c v) (v_d v)) with
  | Some r2, Some z, Some _, Some t => (r2 <> 0 \/ z <> 0 \/ t * t <> 0) <-> cart4 v <> zero4
  | _, _, _, _ => False end.
Proof.
  intros H. rewrite rho2_spec, z_spec, t_spec by exact H.
  assert (E : exists u, numr (T_lorentz_t2 (v_s v) (v_l v) (v_t v) (v_a v) (v_b v) (v_c v) (v_d v)) = Some u).
  { destruct (v_s v), (v_l v), (v_t v); vunfold; cbn [numr]; eexists; reflexivity. }
  destruct E as [u ->]. unfold cart4, zero4.
  generalize (sx (v_s v) (v_a v) (v_b v)) as x, (sy (v_s v) (v_a v) (v_b v)) as y, (sz (v_s v) (v_l v) (v_a v) (v_b v) (v_c v)) as z,
    (st (v_s v) (v_l v) (v_t v) (v_a v) (v_b v) (v_c v) (v_d v)) as t. intros x y z t.
  split.
  - intros [Hr|[Hz|Ht]] E; injection E as Ex Ey Ez Et.
    + apply Hr. rewrite Ex, Ey. ring.
    + apply Hz. exact Ez.
    + apply Ht. rewrite Et. ring.
  - intros Hn. destruct (Req_dec (x * x + y * y) 0) as [E1|E1]; [|left; exact E1].
    destruct (Req_dec z 0) as [E2|E2]; [|right; left; exact E2].
    destruct (Req_dec t 0) as [E3|E3]; [|right; right; nra].
    exfalso. apply Hn. apply sq_sum_zero in E1. destruct E1 as [-> ->]. rewrite E2, E3. reflexivity.
Qed.
