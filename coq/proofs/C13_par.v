(* C13, part 3: classification predicates, over the reals, for every signature. *)
From Coq Require Import Reals Lra Psatz Bool.
From VP Require Import Lib RLib Trig Compute Tables Unfold C13_range.
Open Scope R_scope.

(* [holds o P]: the dispatch produced a number v and P v *)


(* ---- parallel / antiparallel / perpendicular ---- *)
Ltac par := vunfold; runfold; unfold is_true; cbn [rb rn]; split; intros H;
  [ injection H as H; apply Rltb_iff in H | f_equal; apply Rltb_iff ];
  try (replace (1 / 1) with 1 in * by field); try lra.

Definition planar_dot_rr s1 s2 a1 b1 a2 b2 :=
  match rn (T_planar_dot s1 s2 a1 b1 a2 b2), rn (T_planar_rho s1 a1 b1), rn (T_planar_rho s2 a2 b2) with
  | Some dd, Some r1, Some r2 => Some (dd, r1 * r2) | _, _, _ => None end.
Definition holds2 (o : option (R * R)) (P : R -> R -> Prop) := match o with Some (u, v) => P u v | None => False end.

Lemma planar_parallel_spec s1 s2 tol a1 b1 a2 b2 :
  is_true (rb (T_planar_is_parallel s1 s2 tol a1 b1 a2 b2))
  <-> holds2 (planar_dot_rr s1 s2 a1 b1 a2 b2) (fun dd rr => (1 - Rabs tol) * rr < dd).
Proof. destruct s1, s2; unfold planar_dot_rr, holds2; par. Qed.
Lemma planar_antiparallel_spec s1 s2 tol a1 b1 a2 b2 :
  is_true (rb (T_planar_is_antiparallel s1 s2 tol a1 b1 a2 b2))
  <-> holds2 (planar_dot_rr s1 s2 a1 b1 a2 b2) (fun dd rr => dd < (Rabs tol - 1) * rr).
Proof. destruct s1, s2; unfold planar_dot_rr, holds2; par. Qed.
Lemma planar_perpendicular_spec s1 s2 tol a1 b1 a2 b2 :
  is_true (rb (T_planar_is_perpendicular s1 s2 tol a1 b1 a2 b2))
  <-> holds2 (planar_dot_rr s1 s2 a1 b1 a2 b2) (fun dd rr => Rabs dd < Rabs tol * rr).
Proof. destruct s1, s2; unfold planar_dot_rr, holds2; par. Qed.

Definition spatial_dot_mm s1 l1 s2 l2 a1 b1 c1 a2 b2 c2 :=
  match rn (T_spatial_dot s1 l1 s2 l2 a1 b1 c1 a2 b2 c2), rn (T_spatial_mag s1 l1 a1 b1 c1), rn (T_spatial_mag s2 l2 a2 b2 c2) with
  | Some dd, Some r1, Some r2 => Some (dd, r1 * r2) | _, _, _ => None end.

Lemma spatial_parallel_spec s1 l1 s2 l2 tol a1 b1 c1 a2 b2 c2 :
  is_true (rb (T_spatial_is_parallel s1 l1 s2 l2 tol a1 b1 c1 a2 b2 c2))
  <-> holds2 (spatial_dot_mm s1 l1 s2 l2 a1 b1 c1 a2 b2 c2) (fun dd rr => (1 - Rabs tol) * rr < dd).
Proof. destruct s1, l1, s2, l2; unfold spatial_dot_mm, holds2; par. Qed.
Lemma spatial_antiparallel_spec s1 l1 s2 l2 tol a1 b1 c1 a2 b2 c2 :
  is_true (rb (T_spatial_is_antiparallel s1 l1 s2 l2 tol a1 b1 c1 a2 b2 c2))
  <-> holds2 (spatial_dot_mm s1 l1 s2 l2 a1 b1 c1 a2 b2 c2) (fun dd rr => dd < (Rabs tol - 1) * rr).
Proof. destruct s1, l1, s2, l2; unfold spatial_dot_mm, holds2; par. Qed.
Lemma spatial_perpendicular_spec s1 l1 s2 l2 tol a1 b1 c1 a2 b2 c2 :
  is_true (rb (T_spatial_is_perpendicular s1 l1 s2 l2 tol a1 b1 c1 a2 b2 c2))
  <-> holds2 (spatial_dot_mm s1 l1 s2 l2 a1 b1 c1 a2 b2 c2) (fun dd rr => Rabs dd < Rabs tol * rr).
Proof. destruct s1, l1, s2, l2; unfold spatial_dot_mm, holds2; par. Qed.

(* for non-zero vectors (rr > 0) the bounds above say: cos = dd/rr is within tol of +1 / -1 / 0 *)
Lemma cosine_form dd rr tol : 0 < rr ->
  ((1 - Rabs tol) * rr < dd <-> 1 - Rabs tol < dd / rr) /\
  (dd < (Rabs tol - 1) * rr <-> dd / rr < -1 + Rabs tol) /\
  (Rabs dd < Rabs tol * rr <-> Rabs (dd / rr) < Rabs tol).
Proof.
  intros Hr. assert (Hi : 0 < / rr) by (apply Rinv_0_lt_compat; exact Hr).
  assert (E : dd = dd / rr * rr) by (field; lra).
  repeat split; intros H.
  - apply (Rmult_lt_reg_r rr); [exact Hr|]. rewrite <- E. exact H.
  - rewrite E. apply Rmult_lt_compat_r; assumption.
  - apply (Rmult_lt_reg_r rr); [exact Hr|]. rewrite <- E. lra.
  - rewrite E at 1. replace ((Rabs tol - 1) * rr) with ((-1 + Rabs tol) * rr) by ring. apply Rmult_lt_compat_r; assumption.
  - unfold Rdiv. rewrite Rabs_mult, (Rabs_right (/ rr)) by lra.
    apply (Rmult_lt_reg_r rr); [exact Hr|]. rewrite Rmult_assoc, Rinv_l by lra. lra.
  - unfold Rdiv in H. rewrite Rabs_mult, (Rabs_right (/ rr)) in H by lra.
    apply (Rmult_lt_compat_r rr) in H; [|exact Hr]. rewrite Rmult_assoc, Rinv_l in H by lra. lra.
Qed.
