(* C09: boosts are Lorentz transformations (Cartesian variants, over R). *)
From Coq Require Import Reals Lra Psatz Nsatz.
From VP Require Import Lib RLib Trig Conv Spec Compute Tables Unfold Spec_planar Spec_spatial1 Spec_spatial2 Spec_lorentz.
Open Scope R_scope.

Definition V4 := (R * R * R * R)%type.
Definition mink (u v : V4) : R :=
  let '(x1, y1, z1, t1) := u in let '(x2, y2, z2, t2) := v in t1 * t2 - x1 * x2 - y1 * y2 - z1 * z2.

(* the textbook active boost by velocity beta, written with g = gamma and k = gamma^2/(1+gamma) = (gamma-1)/beta^2 *)
Definition Lam (g k bx by_ bz : R) (v : V4) : V4 :=
  let '(x, y, z, t) := v in
  ((1 + k * bx * bx) * x + k * bx * by_ * y + k * bx * bz * z + g * bx * t,
   k * bx * by_ * x + (1 + k * by_ * by_) * y + k * by_ * bz * z + g * by_ * t,
   k * bx * bz * x + k * by_ * bz * y + (1 + k * bz * bz) * z + g * bz * t,
   g * bx * x + g * by_ * y + g * bz * z + g * t).
Definition gam (b2 : R) : R := 1 / sqrt (1 - b2).
Definition kk (b2 : R) : R := gam b2 * gam b2 / (1 + gam b2).
Definition boost3 (bx by_ bz : R) (v : V4) : V4 :=
  let b2 := bx * bx + by_ * by_ + bz * bz in Lam (gam b2) (kk b2) bx by_ bz v.

Lemma some4 (a b c d a' b' c' d' : R) : a = a' -> b = b' -> c = c' -> d = d' -> Some (a, b, c, d) = Some (a', b', c', d').
Proof. intros; subst; reflexivity. Qed.
Lemma t4 (a b c d a' b' c' d' : R) : a = a' -> b = b' -> c = c' -> d = d' -> (a, b, c, d) = (a', b', c', d').
Proof. intros; subst; reflexivity. Qed.

(* the generated Cartesian variant is this matrix *)
Lemma boost_beta3_is_boost3 (x y z t bx by_ bz : R) :
  den4 (T_lorentz_boost_beta3 XY LZ TT XY LZ x y z t bx by_ bz) = Some (boost3 bx by_ bz (x, y, z, t)).
Proof.
  vunfold; runfold; cbn [den4 sx sy sz st boost3 Lam]; unfold kk, gam.
  unfold Rdiv; rewrite ?Rinv_1, ?Rmult_1_r, ?Rmult_1_l. apply some4; ring.
Qed.

(* gamma facts, as polynomial relations *)
Lemma gam_rel b2 : b2 < 1 ->
  let g := gam b2 in let k := kk b2 in 0 < g /\ g * g * (1 - b2) = 1 /\ k * (1 + g) = g * g.
Proof.
  intros H. cbv zeta. unfold kk, gam.
  assert (Hs : 0 < sqrt (1 - b2)) by (apply sqrt_lt_R0; lra).
  assert (Hq : sqrt (1 - b2) * sqrt (1 - b2) = 1 - b2) by (apply sqrt_sqrt; lra).
  assert (Hg : 0 < 1 / sqrt (1 - b2)) by (unfold Rdiv; rewrite Rmult_1_l; apply Rinv_0_lt_compat; exact Hs).
  set (s := sqrt (1 - b2)) in *.
  repeat split.
  - exact Hg.
  - rewrite <- Hq. field. lra.
  - field. split; lra.
Qed.

(* (i) the Minkowski product of two boosted vectors is preserved *)
Lemma Lam_invariant g k bx by_ bz u v :
  g * g * (1 - (bx * bx + by_ * by_ + bz * bz)) = 1 -> k * (1 + g) = g * g ->
  mink (Lam g k bx by_ bz u) (Lam g k bx by_ bz v) = mink u v.
Proof.
  intros Hg Hk. destruct u as [[[x1 y1] z1] t1], v as [[[x2 y2] z2] t2]. cbn [Lam mink]. nsatz.
Qed.
Lemma boost3_invariant bx by_ bz u v : bx * bx + by_ * by_ + bz * bz < 1 ->
  mink (boost3 bx by_ bz u) (boost3 bx by_ bz v) = mink u v.
Proof.
  intros H. unfold boost3. destruct (gam_rel _ H) as [_ [Hg Hk]]. cbv zeta in Hg, Hk. apply Lam_invariant; assumption.
Qed.

(* (ii) undone by the opposite boost *)
Lemma boost3_inverse bx by_ bz v : bx * bx + by_ * by_ + bz * bz < 1 ->
  boost3 (- bx) (- by_) (- bz) (boost3 bx by_ bz v) = v.
Proof.
  intros H. unfold boost3.
  replace (- bx * - bx + - by_ * - by_ + - bz * - bz) with (bx * bx + by_ * by_ + bz * bz) by ring.
  destruct (gam_rel _ H) as [Hp [Hg Hk]]. cbv zeta in Hp, Hg, Hk.
  set (g := gam _) in *. set (k := kk _) in *. destruct v as [[[x y] z] t]. cbn [Lam].
  apply t4; nsatz.
Qed.

(* (iii) boostX/Y/Z(beta): the textbook axis boost, equal to boost_beta3 along that axis *)
Definition Bx (b : R) (v : V4) : V4 := let '(x, y, z, t) := v in let g := gam (b * b) in (g * x + b * g * t, y, z, b * g * x + g * t).
Definition By (b : R) (v : V4) : V4 := let '(x, y, z, t) := v in let g := gam (b * b) in (x, g * y + b * g * t, z, b * g * y + g * t).
Definition Bz (b : R) (v : V4) : V4 := let '(x, y, z, t) := v in let g := gam (b * b) in (x, y, g * z + b * g * t, b * g * z + g * t).

Lemma powc_gam u : Rpowc u (-1) 2 = 1 / sqrt u.
Proof. unfold Rpowc, Rdiv. rewrite Rmult_1_l. reflexivity. Qed.

Lemma boostX_beta_is_Bx (b x y z t : R) : den4 (T_lorentz_boostX_beta XY LZ TT b x y z t) = Some (Bx b (x, y, z, t)).
Proof. vunfold; runfold; cbn [den4 sx sy sz st Bx]; cbv zeta; unfold gam; rewrite powc_gam; unfold Rdiv; rewrite ?Rinv_1, ?Rmult_1_r, ?Rmult_1_l; apply some4; ring. Qed.
Lemma boostY_beta_is_By (b x y z t : R) : den4 (T_lorentz_boostY_beta XY LZ TT b x y z t) = Some (By b (x, y, z, t)).
Proof. vunfold; runfold; cbn [den4 sx sy sz st By]; cbv zeta; unfold gam; rewrite powc_gam; unfold Rdiv; rewrite ?Rinv_1, ?Rmult_1_r, ?Rmult_1_l; apply some4; ring. Qed.
Lemma boostZ_beta_is_Bz (b x y z t : R) : den4 (T_lorentz_boostZ_beta XY LZ TT b x y z t) = Some (Bz b (x, y, z, t)).
Proof. vunfold; runfold; cbn [den4 sx sy sz st Bz]; cbv zeta; unfold gam; rewrite powc_gam; unfold Rdiv; rewrite ?Rinv_1, ?Rmult_1_r, ?Rmult_1_l; apply some4; ring. Qed.

Lemma Bx_is_boost3 b v : b * b < 1 -> Bx b v = boost3 b 0 0 v.
Proof.
  intros H. unfold boost3. replace (b * b + 0 * 0 + 0 * 0) with (b * b) by ring.
  destruct (gam_rel _ H) as [Hp [Hg Hk]]. cbv zeta in Hp, Hg, Hk.
  destruct v as [[[x y] z] t]. cbn [Bx Lam]. cbv zeta. set (g := gam _) in *. set (k := kk _) in *.
  apply t4; nsatz.
Qed.
Lemma By_is_boost3 b v : b * b < 1 -> By b v = boost3 0 b 0 v.
Proof.
  intros H. unfold boost3. replace (0 * 0 + b * b + 0 * 0) with (b * b) by ring.
  destruct (gam_rel _ H) as [Hp [Hg Hk]]. cbv zeta in Hp, Hg, Hk.
  destruct v as [[[x y] z] t]. cbn [By Lam]. cbv zeta. set (g := gam _) in *. set (k := kk _) in *.
  apply t4; nsatz.
Qed.
Lemma Bz_is_boost3 b v : b * b < 1 -> Bz b v = boost3 0 0 b v.
Proof.
  intros H. unfold boost3. replace (0 * 0 + 0 * 0 + b * b) with (b * b) by ring.
  destruct (gam_rel _ H) as [Hp [Hg Hk]]. cbv zeta in Hp, Hg, Hk.
  destruct v as [[[x y] z] t]. cbn [Bz Lam]. cbv zeta. set (g := gam _) in *. set (k := kk _) in *.
  apply t4; nsatz.
Qed.

(* (iv) collinear boosts compose by relativistic velocity addition *)
Lemma gam_add b1 b2 : b1 * b1 < 1 -> b2 * b2 < 1 ->
  let w := (b1 + b2) / (1 + b1 * b2) in w * w < 1 /\ gam (w * w) = gam (b1 * b1) * gam (b2 * b2) * (1 + b1 * b2).
Proof.
  intros H1 H2. cbv zeta.
  assert (Hb1 : -1 < b1 < 1) by nra. assert (Hb2 : -1 < b2 < 1) by nra.
  assert (Hd : 0 < 1 + b1 * b2) by nra.
  set (w := (b1 + b2) / (1 + b1 * b2)).
  assert (Hw : 1 - w * w = (1 - b1 * b1) * (1 - b2 * b2) / ((1 + b1 * b2) * (1 + b1 * b2))) by (unfold w; field; lra).
  assert (Hpos : 0 < (1 - b1 * b1) * (1 - b2 * b2) / ((1 + b1 * b2) * (1 + b1 * b2))).
  { apply Rmult_lt_0_compat; [nra | apply Rinv_0_lt_compat; nra]. }
  split; [lra|].
  unfold gam. rewrite Hw.
  replace ((1 - b1 * b1) * (1 - b2 * b2) / ((1 + b1 * b2) * (1 + b1 * b2)))
    with ((1 - b1 * b1) * ((1 - b2 * b2) * (/ (1 + b1 * b2) * / (1 + b1 * b2)))) by (field; lra).
  assert (Hi : 0 < / (1 + b1 * b2)) by (apply Rinv_0_lt_compat; exact Hd).
  rewrite sqrt_mult_alt by lra. rewrite sqrt_mult_alt by lra. rewrite sqrt_square by lra.
  assert (0 < sqrt (1 - b1 * b1)) by (apply sqrt_lt_R0; lra). assert (0 < sqrt (1 - b2 * b2)) by (apply sqrt_lt_R0; lra).
  field. repeat split; lra.
Qed.

Lemma Bx_compose b1 b2 v : b1 * b1 < 1 -> b2 * b2 < 1 -> Bx b1 (Bx b2 v) = Bx ((b1 + b2) / (1 + b1 * b2)) v.
Proof.
  intros H1 H2. destruct (gam_add b1 b2 H1 H2) as [_ Hg]. cbv zeta in Hg.
  destruct v as [[[x y] z] t]. cbn [Bx]. cbv zeta. rewrite Hg.
  assert (Hd : 1 + b1 * b2 <> 0) by nra.
  apply t4; field; exact Hd.
Qed.

(* (v) boostX(gamma): same as boostX(beta) for beta = sign(gamma) sqrt(1 - 1/gamma^2), i.e. gamma = +-1/sqrt(1-beta^2) *)
Lemma boostX_gamma_matches_beta (b x y z t : R) : b * b < 1 ->
  let g := (if Rlt_dec b 0 then - gam (b * b) else gam (b * b)) in
  den4 (T_lorentz_boostX_gamma XY LZ TT g x y z t) = den4 (T_lorentz_boostX_beta XY LZ TT b x y z t).
Proof.
  intros H. cbv zeta. rewrite boostX_beta_is_Bx.
  destruct (gam_rel _ H) as [Hp [Hg _]]. cbv zeta in Hp, Hg.
  vunfold; runfold; cbn [den4 sx sy sz st Bx]; cbv zeta. set (g := gam (b * b)) in *.
  assert (Hb : g * g - 1 = (b * g) * (b * g)) by nra.
  unfold Rcopysign.
  destruct (Rlt_dec b 0) as [Hn|Hn].
  - rewrite Rabs_left1 by lra. replace (- - g) with g by ring.
    destruct (Rlt_dec (- g) 0); [|lra].
    replace (g * g - 1 / 1) with ((- (b * g)) * (- (b * g))) by (unfold Rdiv; rewrite Rinv_1; nra).
    rewrite sqrt_square by nra. rewrite Rabs_right by nra. apply some4; ring.
  - rewrite Rabs_right by lra. destruct (Rlt_dec g 0); [lra|].
    replace (g * g - 1 / 1) with ((b * g) * (b * g)) by (unfold Rdiv; rewrite Rinv_1; nra).
    rewrite sqrt_square by nra. rewrite Rabs_right by nra. apply some4; ring.
Qed.

(* (vi) boost_p4(p) = boost_beta3(p.to_beta3()) for a forward time-like p *)
Lemma to_beta3_cartesian (x y z t : R) : den3 (T_lorentz_to_beta3 XY LZ TT x y z t) = Some (x / t, y / t, z / t).
Proof. vunfold; runfold; cbn [den3 sx sy sz]. reflexivity. Qed.

Lemma beta_gamma_of_p4 x y z t : 0 < t -> x * x + y * y + z * z < t * t ->
  let b2 := x / t * (x / t) + y / t * (y / t) + z / t * (z / t) in
  b2 < 1 /\ gam b2 = t / sqrt (t * t - (x * x + y * y + z * z)).
Proof.
  intros Ht Htl. cbv zeta.
  assert (E : x / t * (x / t) + y / t * (y / t) + z / t * (z / t) = (x * x + y * y + z * z) / (t * t)) by (field; lra).
  rewrite E. assert (Hi : 0 < / (t * t)) by (apply Rinv_0_lt_compat; nra).
  split.
  - apply (Rmult_lt_reg_r (t * t)); [nra|]. unfold Rdiv. rewrite Rmult_assoc, Rinv_l by nra. lra.
  - unfold gam. replace (1 - (x * x + y * y + z * z) / (t * t)) with ((t * t - (x * x + y * y + z * z)) * (/ t * / t)) by (field; lra).
    assert (0 < / t) by (apply Rinv_0_lt_compat; exact Ht).
    rewrite sqrt_mult_alt by lra. rewrite sqrt_square by lra.
    assert (0 < sqrt (t * t - (x * x + y * y + z * z))) by (apply sqrt_lt_R0; lra).
    field. split; lra.
Qed.

Lemma boost_p4_is_boost_beta3 (x1 y1 z1 t1 x y z t : R) : 0 < t -> x * x + y * y + z * z < t * t ->
  den4 (T_lorentz_boost_p4 XY LZ TT XY LZ TT x1 y1 z1 t1 x y z t)
  = den4 (T_lorentz_boost_beta3 XY LZ TT XY LZ x1 y1 z1 t1 (x / t) (y / t) (z / t)).
Proof.
  intros Ht Htl. rewrite boost_beta3_is_boost3. unfold boost3.
  destruct (beta_gamma_of_p4 x y z t Ht Htl) as [Hb Hg]. cbv zeta in Hb, Hg.
  destruct (gam_rel _ Hb) as [Hp [Hgg Hk]]. cbv zeta in Hp, Hgg, Hk.
  set (b2 := x / t * (x / t) + y / t * (y / t) + z / t * (z / t)) in *.
  vunfold; runfold; cbn [den4 sx sy sz st Lam].
  set (m2 := t * t - (x * x + y * y + z * z)) in *.
  assert (Hm : 0 < m2) by (unfold m2; lra).
  assert (Hs : 0 < sqrt m2) by (apply sqrt_lt_R0; exact Hm).
  assert (Hq : sqrt m2 * sqrt m2 = m2) by (apply sqrt_sqrt; lra).
  set (g := gam b2) in *. set (k := kk b2) in *. set (s := sqrt m2) in *.
  assert (Hgs : g * s = t) by (rewrite Hg; field; lra).
  assert (H1g : 1 + g <> 0) by lra.
  assert (Hk' : k = g * g / (1 + g)) by (apply (Rmult_eq_reg_r (1 + g)); [rewrite Hk; field; lra | lra]).
  assert (Hts : t + s <> 0) by lra.
  unfold Rdiv; rewrite ?Rinv_1, ?Rmult_1_r, ?Rmult_1_l.
  rewrite Hk', Hg, <- Hq. clear - Hs Ht Hts.
  apply some4; field; repeat split; lra.
Qed.

(* ---- every signature reduces to the Cartesian variant with the same temporal storage ---- *)
Ltac square4 := vunfold; runfold; cbn [den4 sx sy sz srho st]; norm; first [reflexivity | (apply some4; ring)].

Lemma boost_beta3_square s l t s2 l2 a b c d a2 b2 c2 :
  den4 (T_lorentz_boost_beta3 s l t s2 l2 a b c d a2 b2 c2)
  = den4 (T_lorentz_boost_beta3 XY LZ t XY LZ (sx s a b) (sy s a b) (sz s l a b c) d (sx s2 a2 b2) (sy s2 a2 b2) (sz s2 l2 a2 b2 c2)).
Proof. destruct s, l, t, s2, l2; square4. Qed.

(* boost_p4: any storage of the boosted vector; booster stored (x, y, z, t|tau).  The variants for a booster stored in a
   polar system evaluate |p|^2 in that system (spatial.mag2): they are covered by the search, see DESIGN. *)
Lemma boost_p4_square_partial s l t t2 a b c d x2 y2 z2 d2 :
  den4 (T_lorentz_boost_p4 s l t XY LZ t2 a b c d x2 y2 z2 d2)
  = den4 (T_lorentz_boost_p4 XY LZ t XY LZ t2 (sx s a b) (sy s a b) (sz s l a b c) d x2 y2 z2 d2).
Proof. destruct s, l, t, t2; square4. Qed.

Lemma boostX_beta_square s l beta a b c d :
  den4 (T_lorentz_boostX_beta s l TT beta a b c d) = den4 (T_lorentz_boostX_beta XY LZ TT beta (sx s a b) (sy s a b) (sz s l a b c) d).
Proof. destruct s, l; square4. Qed.
Lemma boostY_beta_square s l beta a b c d :
  den4 (T_lorentz_boostY_beta s l TT beta a b c d) = den4 (T_lorentz_boostY_beta XY LZ TT beta (sx s a b) (sy s a b) (sz s l a b c) d).
Proof. destruct s, l; square4. Qed.
Lemma boostZ_beta_square s l beta a b c d :
  den4 (T_lorentz_boostZ_beta s l TT beta a b c d) = den4 (T_lorentz_boostZ_beta XY LZ TT beta (sx s a b) (sy s a b) (sz s l a b c) d).
Proof. destruct s, l; square4. Qed.
Lemma boostX_gamma_square s l g a b c d :
  den4 (T_lorentz_boostX_gamma s l TT g a b c d) = den4 (T_lorentz_boostX_gamma XY LZ TT g (sx s a b) (sy s a b) (sz s l a b c) d).
Proof. destruct s, l; square4. Qed.
Lemma boostY_gamma_square s l g a b c d :
  den4 (T_lorentz_boostY_gamma s l TT g a b c d) = den4 (T_lorentz_boostY_gamma XY LZ TT g (sx s a b) (sy s a b) (sz s l a b c) d).
Proof. destruct s, l; square4. Qed.
Lemma boostZ_gamma_square s l g a b c d :
  den4 (T_lorentz_boostZ_gamma s l TT g a b c d) = den4 (T_lorentz_boostZ_gamma XY LZ TT g (sx s a b) (sy s a b) (sz s l a b c) d).
Proof. destruct s, l; square4. Qed.
