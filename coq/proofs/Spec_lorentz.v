(* Lorentz accessors and operations in every signature. *)
From Coq Require Import Reals Lra Psatz.
From VP Require Import Lib RLib Trig Conv Spec Compute Tables Unfold Spec_planar Spec_spatial1 Spec_spatial2.
Open Scope R_scope.

Definition rep4 (s : az) (l : lg) (t : tm) (a b c d : R) : Prop := rep3 s l a b c /\ canon_tm t d.

Lemma smag2_nonneg s l a b c : 0 <= smag2 s l a b c.
Proof. unfold smag2. nra. Qed.

(* t: stored, or sqrt(tau^2 + |p|^2) for a stored tau >= 0 *)
Lemma t_struct s l a b c d :
  numr (T_lorentz_t s l TTau a b c d)
  = lift1 (fun m2 => sqrt (Rmax (Rcopysign (d * d) d + m2) (0 / 1))) (numr (T_spatial_mag2 s l a b c)).
Proof. destruct s, l; vunfold; runfold; reflexivity. Qed.

Lemma copysign_sq_nonneg d : 0 <= d -> Rcopysign (d * d) d = d * d.
Proof. intros H. unfold Rcopysign. destruct (Rlt_dec d 0); [lra|]. apply Rabs_right. nra. Qed.

Lemma t_spec s l t a b c d : rep4 s l t a b c d ->
  numr (T_lorentz_t s l t a b c d) = Some (st s l t a b c d).
Proof.
  intros [[Ha [Hl Hp]] Ht]. destruct t.
  - destruct s, l; vunfold; runfold; reflexivity.
  - rewrite t_struct, mag2_spec by assumption. cbn [lift1 st canon_tm] in *.
    rewrite copysign_sq_nonneg by exact Ht. pose proof (smag2_nonneg s l a b c).
    rewrite Rmax_left by nra. reflexivity.
Qed.

Lemma tau2_spec s l t a b c d : rep4 s l t a b c d ->
  numr (T_lorentz_tau2 s l t a b c d) = Some (st s l t a b c d * st s l t a b c d - smag2 s l a b c).
Proof.
  intros [[Ha [Hl Hp]] Ht]. destruct t.
  - transitivity (lift1 (fun m2 => d * d - m2) (numr (T_spatial_mag2 s l a b c)));
      [destruct s, l; vunfold; runfold; reflexivity|].
    rewrite mag2_spec by assumption. reflexivity.
  - transitivity (Some (Rcopysign (d * d) d)); [destruct s, l; vunfold; runfold; reflexivity|].
    cbn [st canon_tm] in *. rewrite copysign_sq_nonneg by exact Ht. pose proof (smag2_nonneg s l a b c).
    rewrite sqrt_sqrt by nra. f_equal. ring.
Qed.

(* Minkowski product, metric (-,-,-,+), for all 144 pairings *)
Lemma dot_struct s1 l1 t1 s2 l2 t2 a1 b1 c1 d1 a2 b2 c2 d2 :
  numr (T_lorentz_dot s1 l1 t1 s2 l2 t2 a1 b1 c1 d1 a2 b2 c2 d2)
  = match numr (T_lorentz_t s1 l1 t1 a1 b1 c1 d1), numr (T_lorentz_t s2 l2 t2 a2 b2 c2 d2),
          numr (T_spatial_dot s1 l1 s2 l2 a1 b1 c1 a2 b2 c2) with
    | Some u, Some v, Some w => Some (u * v - w) | _, _, _ => None end.
Proof. destruct s1, l1, t1, s2, l2, t2; vunfold; runfold; reflexivity. Qed.

Lemma dot_spec4 s1 l1 t1 s2 l2 t2 a1 b1 c1 d1 a2 b2 c2 d2 :
  rep4 s1 l1 t1 a1 b1 c1 d1 -> rep4 s2 l2 t2 a2 b2 c2 d2 ->
  numr (T_lorentz_dot s1 l1 t1 s2 l2 t2 a1 b1 c1 d1 a2 b2 c2 d2)
  = Some (st s1 l1 t1 a1 b1 c1 d1 * st s2 l2 t2 a2 b2 c2 d2
          - (sx s1 a1 b1 * sx s2 a2 b2 + sy s1 a1 b1 * sy s2 a2 b2 + sz s1 l1 a1 b1 c1 * sz s2 l2 a2 b2 c2)).
Proof. intros H1 H2. rewrite dot_struct, !t_spec, dot_spec3 by assumption. reflexivity. Qed.

(* add / subtract: spatial part as in 3D, time components add; the result is declared (.., .., t) *)
Definition with_t (r : @res RLib) (t : option R) : option (R * R * R * R) :=
  match den3 r, t with Some (x, y, z), Some u => Some (x, y, z, u) | _, _ => None end.

Lemma add_struct s1 l1 t1 s2 l2 t2 a1 b1 c1 d1 a2 b2 c2 d2 : (t1 = TT \/ t2 = TT) ->
  den4 (T_lorentz_add s1 l1 t1 s2 l2 t2 a1 b1 c1 d1 a2 b2 c2 d2)
  = with_t (T_spatial_add s1 l1 s2 l2 a1 b1 c1 a2 b2 c2)
           (lift2 Rplus (numr (T_lorentz_t s1 l1 t1 a1 b1 c1 d1)) (numr (T_lorentz_t s2 l2 t2 a2 b2 c2 d2))).
Proof. intros [H|H]; subst; destruct s1, l1, s2, l2; (destruct t1 || destruct t2); vunfold; runfold; reflexivity. Qed.
Lemma subtract_struct s1 l1 t1 s2 l2 t2 a1 b1 c1 d1 a2 b2 c2 d2 : (t1 = TT \/ t2 = TT) ->
  den4 (T_lorentz_subtract s1 l1 t1 s2 l2 t2 a1 b1 c1 d1 a2 b2 c2 d2)
  = with_t (T_spatial_subtract s1 l1 s2 l2 a1 b1 c1 a2 b2 c2)
           (lift2 Rminus (numr (T_lorentz_t s1 l1 t1 a1 b1 c1 d1)) (numr (T_lorentz_t s2 l2 t2 a2 b2 c2 d2))).
Proof. intros [H|H]; subst; destruct s1, l1, s2, l2; (destruct t1 || destruct t2); vunfold; runfold; reflexivity. Qed.

Lemma add_spec4 s1 l1 t1 s2 l2 t2 a1 b1 c1 d1 a2 b2 c2 d2 : (t1 = TT \/ t2 = TT) ->
  rep4 s1 l1 t1 a1 b1 c1 d1 -> rep4 s2 l2 t2 a2 b2 c2 d2 ->
  res_regular (T_spatial_add s1 l1 s2 l2 a1 b1 c1 a2 b2 c2) ->
  den4 (T_lorentz_add s1 l1 t1 s2 l2 t2 a1 b1 c1 d1 a2 b2 c2 d2)
  = Some (sx s1 a1 b1 + sx s2 a2 b2, sy s1 a1 b1 + sy s2 a2 b2, sz s1 l1 a1 b1 c1 + sz s2 l2 a2 b2 c2,
          st s1 l1 t1 a1 b1 c1 d1 + st s2 l2 t2 a2 b2 c2 d2).
Proof.
  intros Ht H1 H2 Hr. rewrite add_struct, !t_spec by assumption. unfold with_t. rewrite add_spec3 by exact Hr. reflexivity.
Qed.
Lemma subtract_spec4 s1 l1 t1 s2 l2 t2 a1 b1 c1 d1 a2 b2 c2 d2 : (t1 = TT \/ t2 = TT) ->
  rep4 s1 l1 t1 a1 b1 c1 d1 -> rep4 s2 l2 t2 a2 b2 c2 d2 ->
  res_regular (T_spatial_subtract s1 l1 s2 l2 a1 b1 c1 a2 b2 c2) ->
  den4 (T_lorentz_subtract s1 l1 t1 s2 l2 t2 a1 b1 c1 d1 a2 b2 c2 d2)
  = Some (sx s1 a1 b1 - sx s2 a2 b2, sy s1 a1 b1 - sy s2 a2 b2, sz s1 l1 a1 b1 c1 - sz s2 l2 a2 b2 c2,
          st s1 l1 t1 a1 b1 c1 d1 - st s2 l2 t2 a2 b2 c2 d2).
Proof.
  intros Ht H1 H2 Hr. rewrite subtract_struct, !t_spec by assumption. unfold with_t. rewrite subtract_spec3 by exact Hr. reflexivity.
Qed.
