(* Every planar operation, in every coordinate-system signature, computes its documented
   definition on the Cartesian denotation of its operands (this gives both C01 and C02). *)
From Coq Require Import Reals Lra Psatz.
From VP Require Import Lib RLib Trig Spec Compute Tables Unfold.
Open Scope R_scope.

Ltac sp := vunfold; runfold; cbn [numr den2 sx sy srho].

Lemma x_spec s a b : numr (T_planar_x s a b) = Some (sx s a b).
Proof. destruct s; sp; reflexivity. Qed.
Lemma y_spec s a b : numr (T_planar_y s a b) = Some (sy s a b).
Proof. destruct s; sp; reflexivity. Qed.

Lemma sq_cs r p : r * cos p * (r * cos p) + r * sin p * (r * sin p) = r * r.
Proof. pose proof (sin2_cos2 p) as H. unfold Rsqr in H. nra. Qed.

Lemma rho2_spec s a b : numr (T_planar_rho2 s a b) = Some (sx s a b * sx s a b + sy s a b * sy s a b).
Proof. destruct s; sp; [reflexivity | rewrite sq_cs; reflexivity]. Qed.
Lemma rho_spec s a b : canon_az s a b ->
  numr (T_planar_rho s a b) = Some (sqrt (sx s a b * sx s a b + sy s a b * sy s a b)).
Proof. intros H; destruct s; sp; [reflexivity | rewrite sq_cs, sqrt_square by exact H; reflexivity]. Qed.

Lemma phi_spec s a b : canon_az s a b ->
  exists p, numr (T_planar_phi s a b) = Some p /\ polar_angle (sx s a b) (sy s a b) p.
Proof.
  intros H; destruct s; sp; eexists; (split; [reflexivity|]); unfold polar_angle.
  - apply atan2_polar.
  - rewrite sq_cs, sqrt_square by exact H. split; reflexivity.
Qed.

Lemma dot_spec s1 s2 a1 b1 a2 b2 :
  numr (T_planar_dot s1 s2 a1 b1 a2 b2) = Some (sx s1 a1 b1 * sx s2 a2 b2 + sy s1 a1 b1 * sy s2 a2 b2).
Proof. destruct s1, s2; sp; try reflexivity. rewrite cos_minus. f_equal. ring. Qed.

(* add / subtract: the result, read in its DECLARED system, is the Cartesian sum / difference *)
Lemma rectify21 p : pymod (p + PI) (2 / 1 * PI) - PI = rectify p.
Proof. unfold rectify. replace (2 / 1 * PI) with (2 * PI) by field. reflexivity. Qed.

Lemma polar_add_correct rho1 phi1 rho2 phi2 :
  let diff := phi2 - phi1 in
  let u := rho2 * cos diff in
  let v := rho2 * sin diff in
  let r := sqrt ((rho1 + u)*(rho1+u) + v*v) in
  let p := rectify (phi1 + atan2 v (rho1 + u)) in
  r * cos p = rho1 * cos phi1 + rho2 * cos phi2 /\
  r * sin p = rho1 * sin phi1 + rho2 * sin phi2.
Proof.
  cbv zeta.
  set (a := rho1 + rho2 * cos (phi2 - phi1)). set (b := rho2 * sin (phi2 - phi1)).
  destruct (rectify_trig (phi1 + atan2 b a)) as [Hrc Hrs]. rewrite Hrc, Hrs.
  rewrite cos_plus, sin_plus.
  destruct (atan2_polar b a) as [Hc Hs].
  set (r := sqrt (a*a+b*b)) in *.
  replace (r * (cos phi1 * cos (atan2 b a) - sin phi1 * sin (atan2 b a)))
    with (cos phi1 * (r * cos (atan2 b a)) - sin phi1 * (r * sin (atan2 b a))) by ring.
  replace (r * (sin phi1 * cos (atan2 b a) + cos phi1 * sin (atan2 b a)))
    with (sin phi1 * (r * cos (atan2 b a)) + cos phi1 * (r * sin (atan2 b a))) by ring.
  rewrite Hc, Hs. unfold a, b.
  assert (Ec : cos phi2 = cos (phi1 + (phi2 - phi1))) by (f_equal; ring).
  assert (Es : sin phi2 = sin (phi1 + (phi2 - phi1))) by (f_equal; ring).
  rewrite Ec, Es, cos_plus, sin_plus. split; ring.
Qed.

Lemma add_spec s1 s2 a1 b1 a2 b2 :
  den2 (T_planar_add s1 s2 a1 b1 a2 b2) = Some (sx s1 a1 b1 + sx s2 a2 b2, sy s1 a1 b1 + sy s2 a2 b2).
Proof.
  destruct s1, s2; sp; try reflexivity.
  rewrite rectify21. destruct (polar_add_correct a1 b1 a2 b2) as [Hc Hs]. cbv zeta in Hc, Hs.
  rewrite Hc, Hs. reflexivity.
Qed.

Lemma subtract_spec s1 s2 a1 b1 a2 b2 :
  den2 (T_planar_subtract s1 s2 a1 b1 a2 b2) = Some (sx s1 a1 b1 - sx s2 a2 b2, sy s1 a1 b1 - sy s2 a2 b2).
Proof.
  destruct s1, s2; sp; try reflexivity.
  rewrite rectify21.
  destruct (polar_add_correct a1 b1 a2 (b2 + PI)) as [Hc Hs]. cbv zeta in Hc, Hs.
  replace (b2 + PI - b1) with (b2 - b1 + PI) in Hc, Hs by ring.
  rewrite Hc, Hs. rewrite cos_plus, sin_plus, cos_PI, sin_PI. f_equal. f_equal; ring.
Qed.

Lemma rotateZ_spec s ang a b :
  den2 (T_planar_rotateZ s ang a b)
  = Some (cos ang * sx s a b - sin ang * sy s a b, sin ang * sx s a b + cos ang * sy s a b).
Proof.
  destruct s; sp; try reflexivity.
  rewrite rectify21. destruct (rectify_trig (b + ang)) as [Hc Hs]. rewrite Hc, Hs, cos_plus, sin_plus.
  f_equal. f_equal; ring.
Qed.

Lemma scale_angle f : (-1 / 2 * (Rsign f - 1 / 1) * PI = 0 /\ 0 <= f) \/ (-1 / 2 * (Rsign f - 1 / 1) * PI = PI /\ f < 0)
  \/ (f = 0).
Proof.
  unfold Rsign. destruct (Rlt_dec 0 f); [left; split; [field | lra]|].
  destruct (Rlt_dec f 0); [right; left; split; [field | lra] | right; right; lra].
Qed.

Lemma scale_spec s f a b :
  den2 (T_planar_scale s f a b) = Some (sx s a b * f, sy s a b * f).
Proof.
  destruct s; sp; try reflexivity.
  rewrite rectify21. destruct (rectify_trig (b + -1 / 2 * (Rsign f - 1 / 1) * PI)) as [Hc Hs]. rewrite Hc, Hs.
  destruct (scale_angle f) as [[E Hf]|[[E Hf]|E]].
  - rewrite E, Rplus_0_r, Rabs_right by lra. f_equal. f_equal; ring.
  - rewrite E, cos_plus, sin_plus, cos_PI, sin_PI, Rabs_left by lra. f_equal. f_equal; ring.
  - subst f. rewrite Rabs_R0. f_equal. f_equal; ring.
Qed.

Lemma unit_spec s a b : pos_az s a b ->
  let n := sqrt (sx s a b * sx s a b + sy s a b * sy s a b) in
  den2 (T_planar_unit s a b) = Some (sx s a b / n, sy s a b / n).
Proof.
  intros H; destruct s; sp; cbv zeta; try reflexivity.
  cbn [pos_az] in H. rewrite sq_cs, sqrt_square by lra. f_equal. f_equal; field; lra.
Qed.

Lemma transform2D_spec s xx xy yx yy a b :
  den2 (T_planar_transform2D s xx xy yx yy a b)
  = Some (xx * sx s a b + xy * sy s a b, yx * sx s a b + yy * sy s a b).
Proof. destruct s; sp; reflexivity. Qed.

(* deltaphi: an angle in [-pi, pi) congruent to phi1 - phi2 *)
Lemma deltaphi_spec s1 s2 a1 b1 a2 b2 : canon_az s1 a1 b1 -> canon_az s2 a2 b2 ->
  exists d p1 p2, numr (T_planar_deltaphi s1 s2 a1 b1 a2 b2) = Some d /\
    polar_angle (sx s1 a1 b1) (sy s1 a1 b1) p1 /\ polar_angle (sx s2 a2 b2) (sy s2 a2 b2) p2 /\
    cos d = cos (p1 - p2) /\ sin d = sin (p1 - p2) /\ - PI <= d < PI.
Proof.
  intros H1 H2.
  destruct (phi_spec s1 a1 b1 H1) as [p1 [E1 P1]]. destruct (phi_spec s2 a2 b2 H2) as [p2 [E2 P2]].
  exists (rectify (p1 - p2)), p1, p2.
  destruct (rectify_trig (p1 - p2)) as [Hc Hs].
  repeat split; try assumption; try apply P1; try apply P2; try apply rectify_range.
  revert E1 E2. destruct s1, s2; sp; intros E1 E2; injection E1 as <-; injection E2 as <-;
  rewrite rectify21; reflexivity.
Qed.
