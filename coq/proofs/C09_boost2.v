(* C09, part 2: centre-of-mass boost; tau-stored vectors keep tau and denote the same boosted vector. *)
From Coq Require Import Reals Lra Psatz Nsatz.
From VP Require Import Lib RLib Trig Conv Spec Compute Tables Unfold Spec_planar Spec_spatial1 Spec_spatial2 Spec_lorentz C09_boost.
Open Scope R_scope.

(* boosting a forward time-like p by -p/E brings it to rest: (0, 0, 0, tau) *)
Lemma boost_to_rest x y z t : 0 < t -> x * x + y * y + z * z < t * t ->
  boost3 (- (x / t)) (- (y / t)) (- (z / t)) (x, y, z, t) = (0, 0, 0, sqrt (t * t - (x * x + y * y + z * z))).
Proof.
  intros Ht Htl. unfold boost3.
  replace (- (x / t) * - (x / t) + - (y / t) * - (y / t) + - (z / t) * - (z / t))
    with (x / t * (x / t) + y / t * (y / t) + z / t * (z / t)) by ring.
  destruct (beta_gamma_of_p4 x y z t Ht Htl) as [Hb Hg]. cbv zeta in Hb, Hg.
  destruct (gam_rel _ Hb) as [Hp [Hgg Hk]]. cbv zeta in Hp, Hgg, Hk.
  set (b2 := x / t * (x / t) + y / t * (y / t) + z / t * (z / t)) in *.
  set (m2 := t * t - (x * x + y * y + z * z)) in *.
  assert (Hm : 0 < m2) by (unfold m2; lra).
  assert (Hs : 0 < sqrt m2) by (apply sqrt_lt_R0; exact Hm).
  assert (Hq : sqrt m2 * sqrt m2 = m2) by (apply sqrt_sqrt; lra).
  set (g := gam b2) in *. set (k := kk b2) in *. set (s := sqrt m2) in *.
  assert (H1g : 1 + g <> 0) by lra.
  assert (Hk' : k = g * g / (1 + g)) by (apply (Rmult_eq_reg_r (1 + g)); [rewrite Hk; field; lra | lra]).
  assert (Hts : t + s <> 0) by lra.
  assert (Hm2 : x * x + y * y + z * z = t * t - s * s) by (rewrite Hq; unfold m2; ring).
  cbn [Lam]. rewrite Hk', Hg.
  apply t4.
  - transitivity (x * (s * s - (t * t - (x * x + y * y + z * z))) / (s * (t + s))); [field; repeat split; lra | rewrite Hm2; field; repeat split; lra].
  - transitivity (y * (s * s - (t * t - (x * x + y * y + z * z))) / (s * (t + s))); [field; repeat split; lra | rewrite Hm2; field; repeat split; lra].
  - transitivity (z * (s * s - (t * t - (x * x + y * y + z * z))) / (s * (t + s))); [field; repeat split; lra | rewrite Hm2; field; repeat split; lra].
  - transitivity ((t * t - (x * x + y * y + z * z)) / s); [field; repeat split; lra | rewrite Hm2; field; lra].
Qed.

(* a vector stored with tau >= 0: the boost keeps tau and recomputes only the spatial part; read back, it is
   the same boosted vector as for t storage (this IS the invariance of proper time) *)
Lemma boost_beta3_tau_storage (x y z tau bx by_ bz : R) : 0 <= tau -> bx * bx + by_ * by_ + bz * bz < 1 ->
  den4 (T_lorentz_boost_beta3 XY LZ TTau XY LZ x y z tau bx by_ bz)
  = den4 (T_lorentz_boost_beta3 XY LZ TT XY LZ x y z (sqrt (tau * tau + (x * x + y * y + z * z))) bx by_ bz).
Proof.
  intros Htau Hb. rewrite boost_beta3_is_boost3.
  set (t := sqrt (tau * tau + (x * x + y * y + z * z))).
  assert (Ht2 : t * t = tau * tau + (x * x + y * y + z * z)) by (apply sqrt_sqrt; nra).
  assert (Ht0 : 0 <= t) by apply sqrt_pos.
  pose proof (boost3_invariant bx by_ bz (x, y, z, t) (x, y, z, t) Hb) as Hinv.
  unfold boost3 in *. destruct (gam_rel _ Hb) as [Hp [Hgg Hk]]. cbv zeta in Hp, Hgg, Hk.
  set (b2 := bx * bx + by_ * by_ + bz * bz) in *. set (g := gam b2) in *. set (k := kk b2) in *.
  cbn [Lam mink] in Hinv.
  (* the generated tau variant *)
  assert (E : den4 (T_lorentz_boost_beta3 XY LZ TTau XY LZ x y z tau bx by_ bz)
              = let '(x', y', z', _) := Lam g k bx by_ bz (x, y, z, t) in
                Some (x', y', z', sqrt (tau * tau + (x' * x' + y' * y' + z' * z')))).
  { vunfold; runfold; cbn [den4 sx sy sz st Lam]; unfold smag2; cbn [sx sy sz]. unfold k, g, kk, gam, b2, t.
    rewrite copysign_sq_nonneg by exact Htau. rewrite Rmax_left by (unfold Rdiv; rewrite Rmult_0_l; nra).
    unfold Rdiv; rewrite ?Rinv_1, ?Rmult_1_r, ?Rmult_1_l. apply some4; ring. }
  rewrite E. cbn [Lam].
  set (x' := (1 + k * bx * bx) * x + k * bx * by_ * y + k * bx * bz * z + g * bx * t) in *.
  set (y' := k * bx * by_ * x + (1 + k * by_ * by_) * y + k * by_ * bz * z + g * by_ * t) in *.
  set (z' := k * bx * bz * x + k * by_ * bz * y + (1 + k * bz * bz) * z + g * bz * t) in *.
  set (t' := g * bx * x + g * by_ * y + g * bz * z + g * t) in *.
  assert (Hsq : tau * tau + (x' * x' + y' * y' + z' * z') = t' * t') by nra.
  (* t' >= 0: |beta.r| <= |beta||r| <= t *)
  assert (Hcs : (bx * x + by_ * y + bz * z) * (bx * x + by_ * y + bz * z) <= b2 * (x * x + y * y + z * z)).
  { unfold b2.
    assert (Hid : (bx * bx + by_ * by_ + bz * bz) * (x * x + y * y + z * z) - (bx * x + by_ * y + bz * z) * (bx * x + by_ * y + bz * z)
                  = (bx * y - by_ * x) * (bx * y - by_ * x) + (bx * z - bz * x) * (bx * z - bz * x) + (by_ * z - bz * y) * (by_ * z - bz * y)) by ring.
    pose proof (Rle_0_sqr (bx * y - by_ * x)) as Q1. pose proof (Rle_0_sqr (bx * z - bz * x)) as Q2. pose proof (Rle_0_sqr (by_ * z - bz * y)) as Q3.
    unfold Rsqr in *. lra. }
  assert (Hr : x * x + y * y + z * z <= t * t) by nra.
  assert (Hbr : - t <= bx * x + by_ * y + bz * z).
  { destruct (Rle_dec (- t) (bx * x + by_ * y + bz * z)); [assumption|]. exfalso.
    assert ((bx * x + by_ * y + bz * z) * (bx * x + by_ * y + bz * z) > t * t) by nra. nra. }
  assert (Ht' : 0 <= t') by (unfold t'; nra).
  rewrite Hsq, sqrt_square by exact Ht'. reflexivity.
Qed.
