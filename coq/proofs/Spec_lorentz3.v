(* Spatial and Lorentz unit vectors, Et2, deltaRapidityPhi, transform4D in every signature (continuation of Spec_lorentz2.v). *)
From Coq Require Import Reals Lra Psatz.
From VP Require Import Lib RLib Trig Conv Spec Compute Tables Unfold Spec_planar Spec_spatial1 Spec_spatial2 Spec_lorentz Spec_lorentz2.
Open Scope R_scope.

(* ---- spatial unit: p / |p| ---- *)
Lemma unit3_struct s l a b c :
  den3 (T_spatial_unit s l a b c)
  = lift1' (fun u => match s, l with
                     | XY, LZ => (a / u, b / u, c / u)
                     | XY, _ => (a / u, b / u, sz XY l (a / u) (b / u) c)
                     | RhoPhi, LZ => (sx RhoPhi (a / u) b, sy RhoPhi (a / u) b, c / u)
                     | RhoPhi, _ => (sx RhoPhi (a / u) b, sy RhoPhi (a / u) b, sz RhoPhi l (a / u) b c) end)
           (numr (T_spatial_mag s l a b c)).
Proof. destruct s, l; vunfold; runfold; reflexivity. Qed.

Lemma unit_spec3 s l a b c : rep3 s l a b c -> 0 < smag2 s l a b c ->
  den3 (T_spatial_unit s l a b c)
  = Some (sx s a b / sqrt (smag2 s l a b c), sy s a b / sqrt (smag2 s l a b c), sz s l a b c / sqrt (smag2 s l a b c)).
Proof.
  intros H Hm. pose proof H as [Ha [Hl Hp]]. rewrite unit3_struct, mag_spec by assumption. cbn [lift1'].
  assert (Hu : 0 < sqrt (smag2 s l a b c)) by (apply sqrt_lt_R0; exact Hm). set (u := sqrt (smag2 s l a b c)) in *.
  destruct s, l; cbn [sx sy sz srho]; apply some3; rewrite ?sqrt_div_sq by exact Hu; try (field; lra).
  all: cbn [canon_lg] in Hl; pose proof (sin_gt_0 c (proj1 Hl) (proj2 Hl)); field; lra.
Qed.

(* |unit v| = 1 *)
Lemma unit_norm3 s l a b c : rep3 s l a b c -> 0 < smag2 s l a b c ->
  match den3 (T_spatial_unit s l a b c) with Some (x, y, z) => x * x + y * y + z * z = 1 | None => False end.
Proof.
  intros H Hm. rewrite unit_spec3 by assumption.
  assert (Hu : 0 < sqrt (smag2 s l a b c)) by (apply sqrt_lt_R0; exact Hm).
  pose proof (sqrt_sqrt (smag2 s l a b c) (Rlt_le _ _ Hm)) as Hq. set (u := sqrt (smag2 s l a b c)) in *.
  unfold smag2 in Hq. replace (sx s a b / u * (sx s a b / u) + sy s a b / u * (sy s a b / u) + sz s l a b c / u * (sz s l a b c / u))
    with ((sx s a b * sx s a b + sy s a b * sy s a b + sz s l a b c * sz s l a b c) / (u * u)) by (field; lra).
  rewrite <- Hq. field. lra.
Qed.

(* ---- Et2 = Et^2 ---- *)
Lemma Et2_struct s l t a b c d :
  numr (T_lorentz_Et2 s l t a b c d)
  = lift1 (fun u => match l with
                    | LZ => match s with XY => u * u * (a * a + b * b) / (a * a + b * b + c * c) | RhoPhi => u * u * (a * a) / (a * a + c * c) end
                    | LTheta => (u * sin c) * (u * sin c)
                    | LEta => (u * (2 / 1 / (exp (- c) + 1 / 1 / exp (- c)))) * (u * (2 / 1 / (exp (- c) + 1 / 1 / exp (- c)))) end)
          (numr (T_lorentz_t s l t a b c d)).
Proof. destruct s, l, t; vunfold; runfold; reflexivity. Qed.

Lemma Rcopysign_sq_eq x y : Rcopysign x y * Rcopysign x y = x * x.
Proof. unfold Rcopysign. destruct (Rlt_dec y 0); unfold Rabs; destruct (Rcase_abs x); ring. Qed.

Lemma Et2_spec s l t a b c d : rep4 s l t a b c d -> pos_az s a b ->
  numr (T_lorentz_Et2 s l t a b c d)
  = Some ((st s l t a b c d * srho s a b / sqrt (smag2 s l a b c)) * (st s l t a b c d * srho s a b / sqrt (smag2 s l a b c))).
Proof.
  intros H Hpos. pose proof H as [[Ha [Hl Hp]] Ht]. rewrite Et2_struct, t_spec by exact H. cbn [lift1]. f_equal.
  set (u := st s l t a b c d). rewrite <- (Et_of_spec s l a b c u Hpos Hl).
  destruct l, s; cbn [Et_of]; try reflexivity.
  - rewrite Rcopysign_sq_eq. cbn [pos_az] in Hpos. rewrite sqrt_sqrt; [reflexivity|].
    apply Rmult_le_pos; [nra | left; apply Rinv_0_lt_compat; nra].
  - cbn [pos_az] in Hpos. assert (Hq : 0 < a * a + c * c) by nra. pose proof (sqrt_lt_R0 _ Hq) as Hs.
    pose proof (sqrt_sqrt (a * a + c * c) (Rlt_le _ _ Hq)) as Hqq.
    replace (u * a / sqrt (a * a + c * c) * (u * a / sqrt (a * a + c * c))) with (u * u * (a * a) / (sqrt (a * a + c * c) * sqrt (a * a + c * c))) by (field; lra).
    rewrite Hqq. reflexivity.
Qed.

(* ---- lorentz unit: v / tau for a time-like vector ---- *)
Definition spdiv (s : az) (l : lg) (a b c u : R) : R * R * R :=
  match s, l with
  | XY, LZ => (a / u, b / u, c / u)
  | XY, _ => (a / u, b / u, sz XY l (a / u) (b / u) c)
  | RhoPhi, LZ => (sx RhoPhi (a / u) b, sy RhoPhi (a / u) b, c / u)
  | RhoPhi, _ => (sx RhoPhi (a / u) b, sy RhoPhi (a / u) b, sz RhoPhi l (a / u) b c) end.
Lemma spdiv_spec s l a b c u : rep3 s l a b c -> 0 < u ->
  spdiv s l a b c u = (sx s a b / u, sy s a b / u, sz s l a b c / u).
Proof.
  intros [Ha [Hl Hp]] Hu. assert (E3 : forall (p q r p' q' r' : R), p = p' -> q = q' -> r = r' -> (p, q, r) = (p', q', r')) by (intros; subst; reflexivity).
  destruct s, l; cbn [spdiv sx sy sz srho]; apply E3; rewrite ?sqrt_div_sq by exact Hu; try (field; lra).
  all: cbn [canon_lg] in Hl; pose proof (sin_gt_0 c (proj1 Hl) (proj2 Hl)); field; lra.
Qed.

Lemma unit4_struct s l t a b c d :
  den4 (T_lorentz_unit s l t a b c d)
  = lift1' (fun u => let '(x, y, z) := spdiv s l a b c u in
                     (x, y, z, match t with TT => d / u | TTau => sqrt (Rcopysign (1 / 1) d * Rcopysign (1 / 1) d + (x * x + y * y + z * z)) end))
           (match t with TT => lift1 (fun t2 => sqrt (Rabs t2)) (numr (T_lorentz_tau2 s l TT a b c d)) | TTau => Some (Rabs d) end).
Proof. destruct s, l, t; vunfold; runfold; reflexivity. Qed.

Lemma unit_spec4 s l t a b c d : rep4 s l t a b c d ->
  let T := st s l t a b c d in let P2 := smag2 s l a b c in
  P2 < T * T -> (t = TTau -> 0 < d) ->
  den4 (T_lorentz_unit s l t a b c d)
  = Some (sx s a b / sqrt (T * T - P2), sy s a b / sqrt (T * T - P2), sz s l a b c / sqrt (T * T - P2), T / sqrt (T * T - P2)).
Proof.
  intros H T P2 Htl Hd. pose proof H as [H3 Ht]. rewrite unit4_struct. destruct t.
  - rewrite tau2_spec by exact H. cbn [lift1 lift1']. fold T P2.
    rewrite (Rabs_right (T * T - P2)) by lra.
    assert (Hu : 0 < sqrt (T * T - P2)) by (apply sqrt_lt_R0; lra).
    rewrite spdiv_spec by assumption. reflexivity.
  - cbn [lift1']. specialize (Hd eq_refl). rewrite (Rabs_right d) by lra.
    assert (HT : T * T = d * d + P2) by (apply st_sq; [exact Ht | reflexivity]).
    assert (Hq : sqrt (T * T - P2) = d) by (rewrite HT; replace (d * d + P2 - P2) with (d * d) by ring; apply sqrt_square; lra).
    rewrite Hq. rewrite spdiv_spec by assumption. do 2 f_equal.
    unfold Rcopysign. destruct (Rlt_dec d 0); [lra|]. replace (1 / 1) with 1 by field. rewrite Rabs_R1.
    replace (1 * 1 + (sx s a b / d * (sx s a b / d) + sy s a b / d * (sy s a b / d) + sz s l a b c / d * (sz s l a b c / d)))
      with ((d * d + (sx s a b * sx s a b + sy s a b * sy s a b + sz s l a b c * sz s l a b c)) * (/ d * / d)) by (field; lra).
    fold (smag2 s l a b c). fold P2. rewrite <- HT.
    rewrite sqrt_mult_alt by nra. rewrite (sqrt_square (/ d)) by (apply Rlt_le, Rinv_0_lt_compat; lra).
    assert (HT0 : 0 <= T) by (unfold T; cbn [st]; apply sqrt_pos).
    rewrite sqrt_square by exact HT0. reflexivity.
Qed.

(* ---- deltaRapidityPhi: composed of deltaphi and the two rapidities, all 144 pairings ---- *)
Lemma deltaRapidityPhi2_def s1 l1 t1 s2 l2 t2 a1 b1 c1 d1 a2 b2 c2 d2 :
  numr (T_lorentz_deltaRapidityPhi2 s1 l1 t1 s2 l2 t2 a1 b1 c1 d1 a2 b2 c2 d2)
  = match numr (T_planar_deltaphi s1 s2 a1 b1 a2 b2), numr (T_lorentz_rapidity s1 l1 t1 a1 b1 c1 d1), numr (T_lorentz_rapidity s2 l2 t2 a2 b2 c2 d2) with
    | Some p, Some r1, Some r2 => Some (p * p + (r1 - r2) * (r1 - r2)) | _, _, _ => None end.
Proof. destruct s1, l1, t1, s2, l2, t2; vunfold; runfold; reflexivity. Qed.
Lemma deltaRapidityPhi_def s1 l1 t1 s2 l2 t2 a1 b1 c1 d1 a2 b2 c2 d2 :
  numr (T_lorentz_deltaRapidityPhi s1 l1 t1 s2 l2 t2 a1 b1 c1 d1 a2 b2 c2 d2)
  = lift1 sqrt (numr (T_lorentz_deltaRapidityPhi2 s1 l1 t1 s2 l2 t2 a1 b1 c1 d1 a2 b2 c2 d2)).
Proof. destruct s1, l1, t1, s2, l2, t2; vunfold; runfold; reflexivity. Qed.

(* ---- transform4D: commuting square with the Cartesian variant (t-stored vectors) ---- *)
Lemma transform4D_square s l a b c d xx xy xz xt yx yy yz yt zx zy zz zt tx ty tz tt :
  den4 (T_lorentz_transform4D s l TT xx xy xz xt yx yy yz yt zx zy zz zt tx ty tz tt a b c d)
  = den4 (T_lorentz_transform4D XY LZ TT xx xy xz xt yx yy yz yt zx zy zz zt tx ty tz tt (sx s a b) (sy s a b) (sz s l a b c) d).
Proof. destruct s, l; vunfold; runfold; cbn [den4 sx sy sz srho st]; norm; reflexivity. Qed.
