(* C13, part 4: sign conventions, over the reals. *)
From Coq Require Import Reals Lra Psatz Bool.
From VP Require Import Lib RLib Trig Compute Tables Unfold C13_range.
Open Scope R_scope.

Definition same_sign (a b : R) := (0 < a <-> 0 < b) /\ (a < 0 <-> b < 0).
Definition same_sign_o (a b : option R) := match a, b with Some u, Some v => same_sign u v | _, _ => False end.

Lemma same_sign_div_pos z m : 0 < m -> same_sign (z / m) z.
Proof.
  intros Hm. assert (0 < / m) by (apply Rinv_0_lt_compat; exact Hm). unfold Rdiv, same_sign.
  repeat split; intros; nra.
Qed.
Lemma same_sign_mul_pos z m : 0 < m -> same_sign (m * z) z.
Proof. intros Hm. unfold same_sign. repeat split; intros; nra. Qed.
Lemma same_sign_sym a b : same_sign a b -> same_sign b a.
Proof. unfold same_sign; tauto. Qed.
Lemma same_sign_trans a b c : same_sign a b -> same_sign b c -> same_sign a c.
Proof. unfold same_sign; tauto. Qed.

Lemma sqrt_sum_pos_z a z : z <> 0 -> 0 < sqrt (a + z * z) \/ a < 0.
Proof. intros Hz. destruct (Rlt_dec a 0); [right; assumption | left; apply sqrt_lt_R0; nra]. Qed.

(* 1/tan has the sign of cos on (0, PI) — also at PI/2 where both vanish (Rinv 0 = 0) *)
Lemma cot_sign theta : 0 < theta < PI -> same_sign (1 / tan theta) (cos theta).
Proof.
  intros Ht. pose proof (sin_gt_0 theta (proj1 Ht) (proj2 Ht)) as Hs.
  destruct (Req_dec (cos theta) 0) as [E|E].
  - unfold tan. rewrite E. unfold Rdiv. rewrite Rinv_0, Rmult_0_r, Rinv_0. unfold same_sign. lra.
  - replace (1 / tan theta) with (cos theta / sin theta) by (unfold tan; field; lra).
    apply same_sign_div_pos; exact Hs.
Qed.

(* cos (2 atan u) = (1 - u^2) / (1 + u^2) *)
Lemma cos_2atan u : cos (2 * atan u) = (1 - u * u) / (1 + u * u).
Proof.
  rewrite cos_2a_cos, cos_atan. unfold Rsqr.
  assert (H : 0 < 1 + u * u) by nra.
  assert (Hs : sqrt (1 + u * u) * sqrt (1 + u * u) = 1 + u * u) by (apply sqrt_sqrt; lra).
  assert (Hp : 0 < sqrt (1 + u * u)) by (apply sqrt_lt_R0; exact H).
  replace (2 * (1 / sqrt (1 + u * u)) * (1 / sqrt (1 + u * u)) - 1)
    with (2 / (sqrt (1 + u * u) * sqrt (1 + u * u)) - 1) by (field; lra).
  rewrite Hs. field. lra.
Qed.

Lemma exp_neg_lt_1 e : 0 < e -> exp (- e) < 1.
Proof. intros. rewrite <- exp_0. apply exp_increasing. lra. Qed.
Lemma exp_neg_gt_1 e : e < 0 -> 1 < exp (- e).
Proof. intros. rewrite <- exp_0. apply exp_increasing. lra. Qed.

Lemma cos_theta_of_eta_sign e : same_sign (cos (2 * atan (exp (- e)))) e.
Proof.
  rewrite cos_2atan. set (u := exp (- e)). assert (Hu : 0 < u) by apply exp_pos.
  apply same_sign_trans with (1 - u * u).
  - apply same_sign_div_pos. nra.
  - unfold same_sign. destruct (Rtotal_order e 0) as [H|[H|H]].
    + pose proof (exp_neg_gt_1 e H). fold u in H0. split; split; intros; nra.
    + subst e. unfold u. rewrite Ropp_0, exp_0. lra.
    + pose proof (exp_neg_lt_1 e H). fold u in H0. split; split; intros; nra.
Qed.

Lemma sinh_sign e : same_sign (sinh e) e.
Proof.
  unfold same_sign. pose proof sinh_0 as S0.
  repeat split; intros H.
  - destruct (Rtotal_order e 0) as [H1|[H1|H1]]; [apply sinh_lt in H1; lra | subst; lra | exact H1].
  - apply sinh_lt in H. lra.
  - destruct (Rtotal_order e 0) as [H1|[H1|H1]]; [exact H1 | subst; lra | apply sinh_lt in H1; lra].
  - apply sinh_lt in H. lra.
Qed.

(* representable: the vector is off the z axis (rho > 0); stored theta strictly inside (0, PI) *)
Definition off_axis (s : az) (a b : R) := match s with XY => 0 < a * a + b * b | RhoPhi => 0 < a end.
Definition lg_ok (l : lg) (c : R) := match l with LTheta => 0 < c < PI | _ => True end.

Lemma costheta_sign_of_z s l a b c : off_axis s a b -> lg_ok l c ->
  same_sign_o (rn (T_spatial_costheta s l a b c)) (rn (T_spatial_z s l a b c)).
Proof.
  intros Ho Hl; destruct s, l; cbn [off_axis lg_ok] in *; vunfold; runfold; cbn [rn same_sign_o].
  - apply same_sign_div_pos. apply sqrt_lt_R0. nra.
  - apply same_sign_sym. replace (sqrt (a * a + b * b) / tan c) with (sqrt (a * a + b * b) * (1 / tan c)) by (unfold Rdiv; ring).
    eapply same_sign_trans; [apply same_sign_mul_pos; apply sqrt_lt_R0; exact Ho | apply cot_sign; exact Hl].
  - replace (2 / 1) with 2 by field. eapply same_sign_trans; [apply cos_theta_of_eta_sign|].
    apply same_sign_sym. eapply same_sign_trans; [apply same_sign_mul_pos; apply sqrt_lt_R0; exact Ho | apply sinh_sign].
  - apply same_sign_div_pos. apply sqrt_lt_R0. nra.
  - apply same_sign_sym. replace (a / tan c) with (a * (1 / tan c)) by (unfold Rdiv; ring).
    eapply same_sign_trans; [apply same_sign_mul_pos; exact Ho | apply cot_sign; exact Hl].
  - replace (2 / 1) with 2 by field. eapply same_sign_trans; [apply cos_theta_of_eta_sign|].
    apply same_sign_sym. eapply same_sign_trans; [apply same_sign_mul_pos; exact Ho | apply sinh_sign].
Qed.

Lemma one_one_div x : 1 / 1 / x = 1 / x.
Proof. unfold Rdiv. rewrite Rinv_1. ring. Qed.

Lemma cottheta_sign_of_z s l a b c : off_axis s a b -> lg_ok l c ->
  same_sign_o (rn (T_spatial_cottheta s l a b c)) (rn (T_spatial_z s l a b c)).
Proof.
  intros Ho Hl; destruct s, l; cbn [off_axis lg_ok] in *; vunfold; runfold; cbn [rn same_sign_o];
  rewrite ?one_one_div.
  - apply same_sign_div_pos. apply sqrt_lt_R0. exact Ho.
  - apply same_sign_sym. replace (sqrt (a * a + b * b) / tan c) with (sqrt (a * a + b * b) * (1 / tan c)) by (unfold Rdiv; ring).
    apply same_sign_mul_pos; apply sqrt_lt_R0; exact Ho.
  - replace (2 / 1) with 2 by field.
    eapply same_sign_trans; [apply cot_sign; apply theta_of_eta_range|].
    eapply same_sign_trans; [apply cos_theta_of_eta_sign|].
    apply same_sign_sym. eapply same_sign_trans; [apply same_sign_mul_pos; apply sqrt_lt_R0; exact Ho | apply sinh_sign].
  - apply same_sign_div_pos. exact Ho.
  - apply same_sign_sym. replace (a / tan c) with (a * (1 / tan c)) by (unfold Rdiv; ring).
    apply same_sign_mul_pos; exact Ho.
  - replace (2 / 1) with 2 by field.
    eapply same_sign_trans; [apply cot_sign; apply theta_of_eta_range|].
    eapply same_sign_trans; [apply cos_theta_of_eta_sign|].
    apply same_sign_sym. eapply same_sign_trans; [apply same_sign_mul_pos; exact Ho | apply sinh_sign].
Qed.

(* tau derived from t is negative exactly when tau2 = t^2 - mag2 is negative (spacelike) *)
Lemma copysign_sqrt_sign x : same_sign (Rcopysign (sqrt (Rabs x)) x) x.
Proof.
  unfold Rcopysign, same_sign. destruct (Rlt_dec x 0) as [H|H].
  - assert (0 < sqrt (Rabs x)) by (apply sqrt_lt_R0; apply Rabs_pos_lt; lra).
    rewrite (Rabs_right (sqrt _)) by lra. lra.
  - destruct (Req_dec x 0) as [E|E].
    + subst. rewrite Rabs_R0, sqrt_0, Rabs_R0. lra.
    + assert (0 < sqrt (Rabs x)) by (apply sqrt_lt_R0; apply Rabs_pos_lt; lra).
      rewrite (Rabs_right (sqrt _)) by lra. lra.
Qed.

Lemma tau_sign_of_tau2 s l a b c d :
  same_sign_o (rn (T_lorentz_tau s l TT a b c d)) (rn (T_lorentz_tau2 s l TT a b c d)).
Proof. destruct s, l; vunfold; runfold; cbn [rn same_sign_o]; apply copysign_sqrt_sign. Qed.

Lemma tau2_is_t2_minus_mag2 s l a b c d :
  match rn (T_lorentz_tau2 s l TT a b c d), rn (T_spatial_mag2 s l a b c) with
  | Some u, Some m => u = d * d - m | _, _ => False end.
Proof. destruct s, l; vunfold; runfold; cbn [rn]; reflexivity. Qed.

(* beta and gamma of a forward timelike Cartesian vector; beta of a lightlike one *)
Lemma beta_gamma_timelike x y z t : 0 < t -> x * x + y * y + z * z < t * t ->
  holds (rn (T_lorentz_beta XY LZ TT x y z t)) (fun b => 0 <= b < 1) /\
  holds (rn (T_lorentz_gamma XY LZ TT x y z t)) (fun g => 1 <= g).
Proof.
  intros Ht Htl. vunfold; runfold; cbn [rn holds].
  set (m2 := x * x + y * y + z * z) in *.
  assert (Hm : 0 <= m2) by (unfold m2; nra).
  assert (Hs : sqrt m2 < t).
  { assert (Hlt : sqrt m2 < sqrt (t * t)) by (apply sqrt_lt_1_alt; lra). rewrite sqrt_square in Hlt by lra. exact Hlt. }
  pose proof (sqrt_pos m2) as Hp. assert (Hi : 0 < / t) by (apply Rinv_0_lt_compat; exact Ht).
  split.
  - split; [apply Rmult_le_pos; lra|]. apply (Rmult_lt_reg_r t); [exact Ht|]. unfold Rdiv. rewrite Rmult_assoc, Rinv_l by lra. lra.
  - assert (Hd : 0 < t * t - m2) by lra.
    unfold Rcopysign. destruct (Rlt_dec (t * t - m2) 0); [lra|].
    rewrite (Rabs_right (t * t - m2)) by lra.
    assert (Hq : 0 < sqrt (t * t - m2)) by (apply sqrt_lt_R0; exact Hd).
    rewrite (Rabs_right (sqrt _)) by lra.
    assert (Hle : sqrt (t * t - m2) <= sqrt (t * t)) by (apply sqrt_le_1_alt; lra).
    rewrite sqrt_square in Hle by lra.
    apply (Rmult_le_reg_r (sqrt (t * t - m2))); [exact Hq|]. unfold Rdiv. rewrite Rmult_assoc, Rinv_l by lra. lra.
Qed.

Lemma beta_lightlike x y z t : 0 < t -> x * x + y * y + z * z = t * t ->
  holds (rn (T_lorentz_beta XY LZ TT x y z t)) (fun b => b = 1).
Proof.
  intros Ht E. vunfold; runfold; cbn [rn holds]. rewrite E, sqrt_square by lra. field. lra.
Qed.
