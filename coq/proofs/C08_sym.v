(* C08: the expression the SymPy backend builds for an operation is the ELib tree of the generated definition read with
   eval_sym; on the regular domain it evaluates to the numeric value (generic theorem in lib/ELib.v).  Here: the link
   between the ELib tree and the RLib function (by computation), and the regular domain of concrete operations. *)
From Coq Require Import Reals Lra Psatz.
From VP Require Import Lib RLib ELib Trig Conv Spec Compute Tables Unfold Spec_planar Spec_spatial1 Spec_spatial2 Spec_lorentz.
Open Scope R_scope.

Definition enum (r : @res ELib) : option expr := match r with RNum v => Some v | _ => None end.
Definition V0 := EVar 0. Definition V1 := EVar 1. Definition V2 := EVar 2. Definition V3 := EVar 3.
Definition V4 := EVar 4. Definition V5 := EVar 5. Definition V6 := EVar 6. Definition V7 := EVar 7.

(* link: reading the tree numerically IS the RLib function (all signatures; by conversion) *)
Lemma link_planar s rho :
  option_map (evalR rho) (enum (T_planar_rho (L:=ELib) s V0 V1)) = numr (T_planar_rho (L:=RLib) s (rho 0%nat) (rho 1%nat)) /\
  option_map (evalR rho) (enum (T_planar_phi (L:=ELib) s V0 V1)) = numr (T_planar_phi (L:=RLib) s (rho 0%nat) (rho 1%nat)) /\
  option_map (evalR rho) (enum (T_planar_x (L:=ELib) s V0 V1)) = numr (T_planar_x (L:=RLib) s (rho 0%nat) (rho 1%nat)).
Proof. destruct s; repeat split; reflexivity. Qed.
Lemma link_spatial s l rho :
  option_map (evalR rho) (enum (T_spatial_z (L:=ELib) s l V0 V1 V2)) = numr (T_spatial_z (L:=RLib) s l (rho 0%nat) (rho 1%nat) (rho 2%nat)) /\
  option_map (evalR rho) (enum (T_spatial_theta (L:=ELib) s l V0 V1 V2)) = numr (T_spatial_theta (L:=RLib) s l (rho 0%nat) (rho 1%nat) (rho 2%nat)) /\
  option_map (evalR rho) (enum (T_spatial_eta (L:=ELib) s l V0 V1 V2)) = numr (T_spatial_eta (L:=RLib) s l (rho 0%nat) (rho 1%nat) (rho 2%nat)) /\
  option_map (evalR rho) (enum (T_spatial_mag (L:=ELib) s l V0 V1 V2)) = numr (T_spatial_mag (L:=RLib) s l (rho 0%nat) (rho 1%nat) (rho 2%nat)).
Proof. destruct s, l; repeat split; reflexivity. Qed.
Lemma link_lorentz s l t rho :
  option_map (evalR rho) (enum (T_lorentz_t (L:=ELib) s l t V0 V1 V2 V3)) = numr (T_lorentz_t (L:=RLib) s l t (rho 0%nat) (rho 1%nat) (rho 2%nat) (rho 3%nat)) /\
  option_map (evalR rho) (enum (T_lorentz_tau (L:=ELib) s l t V0 V1 V2 V3)) = numr (T_lorentz_tau (L:=RLib) s l t (rho 0%nat) (rho 1%nat) (rho 2%nat) (rho 3%nat)) /\
  option_map (evalR rho) (enum (T_lorentz_gamma (L:=ELib) s l t V0 V1 V2 V3)) = numr (T_lorentz_gamma (L:=RLib) s l t (rho 0%nat) (rho 1%nat) (rho 2%nat) (rho 3%nat)).
Proof. destruct s, l, t; repeat split; reflexivity. Qed.
Lemma link_dot4 s1 l1 t1 s2 l2 t2 rho :
  option_map (evalR rho) (enum (T_lorentz_dot (L:=ELib) s1 l1 t1 s2 l2 t2 V0 V1 V2 V3 V4 V5 V6 V7))
  = numr (T_lorentz_dot (L:=RLib) s1 l1 t1 s2 l2 t2 (rho 0%nat) (rho 1%nat) (rho 2%nat) (rho 3%nat) (rho 4%nat) (rho 5%nat) (rho 6%nat) (rho 7%nat)).
Proof. destruct s1, l1, t1, s2, l2, t2; reflexivity. Qed.

Definition holds_e (o : option expr) (P : expr -> Prop) : Prop := match o with Some e => P e | None => False end.

(* t of a tau-stored vector: regular exactly when the stored tau is non-negative (forward, time-like or light-like):
   then the symbolic expression evaluates to the numeric t, i.e. to sqrt(tau^2 + |p|^2) *)
Lemma mul_self_nonneg x : 0 <= x * x. Proof. nra. Qed.
Lemma mag2_code_nonneg s l (a b c : R) : match numr (T_spatial_mag2 (L:=RLib) s l a b c) with Some m => 0 <= m | None => False end.
Proof.
  destruct s, l; vunfold; runfold; cbn [numr];
  first [ nra
        | (apply Rmult_le_pos; [nra | apply mul_self_nonneg])
        | (destruct (Req_dec (sin c) 0) as [E|E];
           [ rewrite E; unfold Rdiv; rewrite Rmult_0_l, Rinv_0; lra
           | apply Rmult_le_pos; [nra | left; apply Rinv_0_lt_compat; nra] ]) ].
Qed.

Theorem t_of_tau_is_regular s l rho : 0 <= rho 3%nat ->
  holds_e (enum (T_lorentz_t (L:=ELib) s l TTau V0 V1 V2 V3)) (fun e => regular rho e /\ eval_sym rho e = evalR rho e).
Proof.
  intros Htau.
  assert (R : holds_e (enum (T_lorentz_t (L:=ELib) s l TTau V0 V1 V2 V3)) (regular rho)).
  { pose proof (mag2_code_nonneg s l (rho 0%nat) (rho 1%nat) (rho 2%nat)) as Hm.
    destruct s, l; vunfold_in Hm; runfold_in Hm; cbn [numr] in Hm; vunfold; eunfold; cbn [enum holds_e regular is_literal evalR un_sem bin_sem];
    unfold V0, V1, V2, V3; cbn [evalR un_sem bin_sem];
    cbn [regular]; rewrite ?copysign_sq_nonneg by exact Htau; unfold Rdiv in *; rewrite ?Rmult_0_l, ?Rinv_1, ?Rmult_1_r in *;
    pose proof (mul_self_nonneg (rho 3%nat)) as Hq; repeat split; trivial; lra. }
  destruct (enum (T_lorentz_t (L:=ELib) s l TTau V0 V1 V2 V3)) as [e|]; cbn [holds_e] in *; [|exact R].
  split; [exact R | apply sym_agrees_on_regular_domain; exact R].
Qed.
