(* tau + tau addition for every pairing, including the five whose sum stays in the operands' polar system. *)
From Coq Require Import Reals Lra Psatz.
From VP Require Import Lib RLib Trig Conv Spec Compute Tables Unfold Spec_planar Spec_spatial1 Spec_spatial2 Spec_lorentz Spec_lorentz2 Spec_lorentz3 Spec_lorentz4.
Open Scope R_scope.

Lemma acos_polar_range rho z : 0 < rho -> 0 < acos (z / sqrt (rho * rho + z * z)) < PI.
Proof.
  intros Hr. destruct (acos_polar rho z) as [_ Hs]; [lra | nra |]. cbv zeta in Hs.
  set (m := sqrt (rho * rho + z * z)) in *. set (th := acos (z / m)) in *.
  assert (Hm : 0 < m) by (apply sqrt_lt_R0; nra).
  pose proof (acos_bound (z / m)) as [Hl Hu]. fold th in Hl, Hu.
  assert (Hsin : 0 < sin th) by nra.
  split.
  - destruct (Req_dec th 0) as [E|E]; [rewrite E, sin_0 in Hsin; lra | lra].
  - destruct (Req_dec th PI) as [E|E]; [rewrite E, sin_PI in Hsin; lra | lra].
Qed.

Lemma res3_some_add s1 l1 s2 l2 a1 b1 c1 a2 b2 c2 :
  exists s' l' a' b' c', res3 (T_spatial_add s1 l1 s2 l2 a1 b1 c1 a2 b2 c2) = Some (s', l', a', b', c').
Proof. destruct s1, l1, s2, l2; vunfold; runfold; cbn [res3]; do 5 eexists; reflexivity. Qed.

Lemma res3_regular r s l a b c : res3 r = Some (s, l, a, b, c) -> res_regular r -> l = LZ \/ pos_az s a b.
Proof. destruct r; cbn; intros H; try discriminate; injection H as -> -> -> -> ->; exact (fun x => x). Qed.

(* the sum comes back in canonical storage *)
Lemma add_result_rep3 s1 l1 s2 l2 a1 b1 c1 a2 b2 c2 s' l' a' b' c' :
  res3 (T_spatial_add s1 l1 s2 l2 a1 b1 c1 a2 b2 c2) = Some (s', l', a', b', c') ->
  (l' = LZ \/ pos_az s' a' b') -> rep3 s' l' a' b' c'.
Proof.
  destruct s1, l1, s2, l2; vunfold; runfold; cbn [res3]; intros H; injection H as <- <- <- <- <-; intros Hreg;
  (split; [cbn [canon_az]; try exact I; apply sqrt_pos | split; [cbn [canon_lg]; try exact I | intros Hl; destruct Hreg as [Hreg|Hreg]; [exfalso; apply Hl; exact Hreg | exact Hreg]]]).
  all: destruct Hreg as [Hreg|Hreg]; [discriminate|]; cbn [pos_az] in Hreg.
  all: try (apply acos_polar_range; exact Hreg).
  all: match type of Hreg with 0 < ?e => rewrite <- (sqrt_sqrt e) by lra end; apply acos_polar_range; apply sqrt_lt_R0; exact Hreg.
Qed.

Lemma add_spec4_tau_tau_all s1 l1 s2 l2 a1 b1 c1 d1 a2 b2 c2 d2 :
  rep4 s1 l1 TTau a1 b1 c1 d1 -> rep4 s2 l2 TTau a2 b2 c2 d2 ->
  res_regular (T_spatial_add s1 l1 s2 l2 a1 b1 c1 a2 b2 c2) ->
  den4 (T_lorentz_add s1 l1 TTau s2 l2 TTau a1 b1 c1 d1 a2 b2 c2 d2)
  = Some (sx s1 a1 b1 + sx s2 a2 b2, sy s1 a1 b1 + sy s2 a2 b2, sz s1 l1 a1 b1 c1 + sz s2 l2 a2 b2 c2,
          st s1 l1 TTau a1 b1 c1 d1 + st s2 l2 TTau a2 b2 c2 d2).
Proof.
  intros H1 H2 Hreg. destruct (res3_some_add s1 l1 s2 l2 a1 b1 c1 a2 b2 c2) as [s' [l' [a' [b' [c' Hr]]]]].
  rewrite add_tt_struct, Hr, !t_spec by assumption.
  pose proof (res3_den3 _ _ _ _ _ _ Hr) as Hd3. rewrite add_spec3 in Hd3 by exact Hreg.
  injection Hd3 as Ex Ey Ez.
  pose proof (add_result_rep3 _ _ _ _ _ _ _ _ _ _ _ _ _ _ _ Hr (res3_regular _ _ _ _ _ _ Hr Hreg)) as R3.
  destruct H1 as [_ Ht1], H2 as [_ Ht2]. cbn [canon_tm] in Ht1, Ht2.
  destruct (st_tau_causal s1 l1 a1 b1 c1 d1 Ht1) as [U1 C1]. destruct (st_tau_causal s2 l2 a2 b2 c2 d2 Ht2) as [U2 C2].
  set (u1 := st s1 l1 TTau a1 b1 c1 d1) in *. set (u2 := st s2 l2 TTau a2 b2 c2 d2) in *.
  unfold smag2 in C1, C2.
  pose proof (causal_sum _ _ _ u1 _ _ _ u2 U1 U2 C1 C2) as HC. rewrite Ex, Ey, Ez in HC.
  assert (R4 : rep4 s' l' TT a' b' c' (u1 + u2)) by (split; [exact R3 | exact I]).
  rewrite (tau_spec s' l' TT a' b' c' (u1 + u2) R4) by (cbn [st]; unfold smag2; lra).
  cbn [st]. unfold smag2.
  rewrite sqrt_sqrt by lra.
  match goal with |- context [sqrt ?e] => replace e with ((u1 + u2) * (u1 + u2)) by ring end.
  rewrite sqrt_square by lra. rewrite <- Ex, <- Ey, <- Ez. reflexivity.
Qed.

(* tau - tau: the difference of two forward time-like vectors need not be one; inside the representable domain
   (the difference is forward and causal) the result denotes the Cartesian difference *)
Lemma sub_tt_struct s1 l1 s2 l2 a1 b1 c1 d1 a2 b2 c2 d2 :
  den4 (T_lorentz_subtract s1 l1 TTau s2 l2 TTau a1 b1 c1 d1 a2 b2 c2 d2)
  = match res3 (T_spatial_subtract s1 l1 s2 l2 a1 b1 c1 a2 b2 c2), numr (T_lorentz_t s1 l1 TTau a1 b1 c1 d1), numr (T_lorentz_t s2 l2 TTau a2 b2 c2 d2) with
    | Some (s', l', a', b', c'), Some u1, Some u2 =>
        match numr (T_lorentz_tau s' l' TT a' b' c' (u1 - u2)) with
        | Some tau' => Some (sx s' a' b', sy s' a' b', sz s' l' a' b' c', st s' l' TTau a' b' c' tau')
        | None => None end
    | _, _, _ => None end.
Proof. destruct s1, l1, s2, l2; vunfold; runfold; reflexivity. Qed.

Lemma res3_some_sub s1 l1 s2 l2 a1 b1 c1 a2 b2 c2 :
  exists s' l' a' b' c', res3 (T_spatial_subtract s1 l1 s2 l2 a1 b1 c1 a2 b2 c2) = Some (s', l', a', b', c').
Proof. destruct s1, l1, s2, l2; vunfold; runfold; cbn [res3]; do 5 eexists; reflexivity. Qed.

Lemma sub_result_rep3 s1 l1 s2 l2 a1 b1 c1 a2 b2 c2 s' l' a' b' c' :
  res3 (T_spatial_subtract s1 l1 s2 l2 a1 b1 c1 a2 b2 c2) = Some (s', l', a', b', c') ->
  (l' = LZ \/ pos_az s' a' b') -> rep3 s' l' a' b' c'.
Proof.
  destruct s1, l1, s2, l2; vunfold; runfold; cbn [res3]; intros H; injection H as <- <- <- <- <-; intros Hreg;
  (split; [cbn [canon_az]; try exact I; apply sqrt_pos | split; [cbn [canon_lg]; try exact I | intros Hl; destruct Hreg as [Hreg|Hreg]; [exfalso; apply Hl; exact Hreg | exact Hreg]]]).
  all: destruct Hreg as [Hreg|Hreg]; [discriminate|]; cbn [pos_az] in Hreg.
  all: try (apply acos_polar_range; exact Hreg).
  all: match type of Hreg with 0 < ?e => rewrite <- (sqrt_sqrt e) by lra end; apply acos_polar_range; apply sqrt_lt_R0; exact Hreg.
Qed.

Lemma subtract_spec4_tau_tau_all s1 l1 s2 l2 a1 b1 c1 d1 a2 b2 c2 d2 :
  let x := sx s1 a1 b1 - sx s2 a2 b2 in let y := sy s1 a1 b1 - sy s2 a2 b2 in let z := sz s1 l1 a1 b1 c1 - sz s2 l2 a2 b2 c2 in
  let u := st s1 l1 TTau a1 b1 c1 d1 - st s2 l2 TTau a2 b2 c2 d2 in
  rep4 s1 l1 TTau a1 b1 c1 d1 -> rep4 s2 l2 TTau a2 b2 c2 d2 ->
  res_regular (T_spatial_subtract s1 l1 s2 l2 a1 b1 c1 a2 b2 c2) ->
  0 <= u -> x * x + y * y + z * z <= u * u ->
  den4 (T_lorentz_subtract s1 l1 TTau s2 l2 TTau a1 b1 c1 d1 a2 b2 c2 d2) = Some (x, y, z, u).
Proof.
  cbv zeta. intros H1 H2 Hreg Hu HC. destruct (res3_some_sub s1 l1 s2 l2 a1 b1 c1 a2 b2 c2) as [s' [l' [a' [b' [c' Hr]]]]].
  rewrite sub_tt_struct, Hr, !t_spec by assumption.
  pose proof (res3_den3 _ _ _ _ _ _ Hr) as Hd3. rewrite subtract_spec3 in Hd3 by exact Hreg.
  injection Hd3 as Ex Ey Ez.
  pose proof (sub_result_rep3 _ _ _ _ _ _ _ _ _ _ _ _ _ _ _ Hr (res3_regular _ _ _ _ _ _ Hr Hreg)) as R3.
  set (u1 := st s1 l1 TTau a1 b1 c1 d1) in *. set (u2 := st s2 l2 TTau a2 b2 c2 d2) in *.
  rewrite Ex, Ey, Ez in HC.
  assert (R4 : rep4 s' l' TT a' b' c' (u1 - u2)) by (split; [exact R3 | exact I]).
  rewrite (tau_spec s' l' TT a' b' c' (u1 - u2) R4) by (cbn [st]; unfold smag2; lra).
  cbn [st]. unfold smag2.
  rewrite sqrt_sqrt by lra.
  match goal with |- context [sqrt ?e] => replace e with ((u1 - u2) * (u1 - u2)) by ring end.
  rewrite sqrt_square by lra. rewrite <- Ex, <- Ey, <- Ez. reflexivity.
Qed.

(* transform4D of a tau-stored vector: the time is computed first, then the matrix is applied as for t storage *)
Lemma transform4D_tau_struct s l a b c d xx xy xz xt yx yy yz yt zx zy zz zt tx ty tz tt :
  den4 (T_lorentz_transform4D s l TTau xx xy xz xt yx yy yz yt zx zy zz zt tx ty tz tt a b c d)
  = match numr (T_lorentz_t s l TTau a b c d) with
    | Some u => den4 (T_lorentz_transform4D s l TT xx xy xz xt yx yy yz yt zx zy zz zt tx ty tz tt a b c u)
    | None => None end.
Proof. destruct s, l; vunfold; runfold; reflexivity. Qed.

Lemma transform4D_square_all s l t a b c d xx xy xz xt yx yy yz yt zx zy zz zt tx ty tz tt : rep4 s l t a b c d ->
  den4 (T_lorentz_transform4D s l t xx xy xz xt yx yy yz yt zx zy zz zt tx ty tz tt a b c d)
  = den4 (T_lorentz_transform4D XY LZ TT xx xy xz xt yx yy yz yt zx zy zz zt tx ty tz tt (sx s a b) (sy s a b) (sz s l a b c) (st s l t a b c d)).
Proof.
  intros H. destruct t.
  - apply transform4D_square.
  - rewrite transform4D_tau_struct, t_spec by exact H. apply transform4D_square.
Qed.
