(* Lorentz kinematic quantities, scale and to_beta3 in every signature (continuation of Spec_lorentz.v). *)
From Coq Require Import Reals Lra Psatz.
From VP Require Import Lib RLib Trig Conv Spec Compute Tables Unfold Spec_planar Spec_spatial1 Spec_spatial2 Spec_lorentz.
Open Scope R_scope.

Lemma beta_struct s l t a b c d :
  numr (T_lorentz_beta s l t a b c d)
  = lift2 Rdiv (numr (T_spatial_mag s l a b c)) (numr (T_lorentz_t s l t a b c d)).
Proof. destruct s, l, t; vunfold; runfold; reflexivity. Qed.

Lemma rapidity_struct s l t a b c d :
  numr (T_lorentz_rapidity s l t a b c d)
  = lift2 (fun z u => 1 / 2 * ln ((u + z) / (u - z))) (numr (T_spatial_z s l a b c)) (numr (T_lorentz_t s l t a b c d)).
Proof. destruct s, l, t; vunfold; runfold; reflexivity. Qed.

Lemma Mt2_struct_t s l a b c d :
  numr (T_lorentz_Mt2 s l TT a b c d) = lift1 (fun z => d * d - z * z) (numr (T_spatial_z s l a b c)).
Proof. destruct s, l; vunfold; runfold; reflexivity. Qed.
Lemma Mt2_struct_tau s l a b c d :
  numr (T_lorentz_Mt2 s l TTau a b c d) = lift1 (fun r2 => Rmax (Rcopysign (d * d) d + r2) (0 / 1)) (numr (T_planar_rho2 s a b)).
Proof. destruct s, l; vunfold; runfold; cbn [lift1 numr]; try reflexivity; do 2 f_equal; ring. Qed.
Lemma Mt_struct s l t a b c d :
  numr (T_lorentz_Mt s l t a b c d) = lift1 sqrt (numr (T_lorentz_Mt2 s l t a b c d)).
Proof. destruct s, l, t; vunfold; runfold; reflexivity. Qed.
Lemma tau_struct s l a b c d :
  numr (T_lorentz_tau s l TT a b c d) = lift1 (fun t2 => Rcopysign (sqrt (Rabs t2)) t2) (numr (T_lorentz_tau2 s l TT a b c d)).
Proof. destruct s, l; vunfold; runfold; reflexivity. Qed.
Lemma tau_stored s l a b c d : numr (T_lorentz_tau s l TTau a b c d) = Some d.
Proof. destruct s, l; vunfold; runfold; reflexivity. Qed.
Lemma gamma_struct s l t a b c d :
  numr (T_lorentz_gamma s l t a b c d) = lift2 Rdiv (numr (T_lorentz_t s l t a b c d)) (numr (T_lorentz_tau s l t a b c d)).
Proof. destruct s, l, t; vunfold; runfold; reflexivity. Qed.

(* ---- specifications in terms of the Cartesian denotation ---- *)
Lemma st_sq s l t a b c d : canon_tm t d -> t = TTau -> st s l t a b c d * st s l t a b c d = d * d + smag2 s l a b c.
Proof. intros _ ->. cbn [st]. pose proof (smag2_nonneg s l a b c). rewrite sqrt_sqrt by nra. reflexivity. Qed.

Lemma copysign_sqrt_abs_nonneg v : 0 <= v -> Rcopysign (sqrt (Rabs v)) v = sqrt v.
Proof.
  intros H. unfold Rcopysign. destruct (Rlt_dec v 0); [lra|].
  rewrite (Rabs_right v) by lra. apply Rabs_right. apply Rle_ge, sqrt_pos.
Qed.

(* proper time of a time-like or light-like vector *)
Lemma tau_spec s l t a b c d : rep4 s l t a b c d ->
  smag2 s l a b c <= st s l t a b c d * st s l t a b c d ->
  numr (T_lorentz_tau s l t a b c d) = Some (sqrt (st s l t a b c d * st s l t a b c d - smag2 s l a b c)).
Proof.
  intros H Htl. destruct t.
  - rewrite tau_struct, tau2_spec by exact H. cbn [lift1]. rewrite copysign_sqrt_abs_nonneg by lra. reflexivity.
  - rewrite tau_stored. destruct H as [_ Ht]. cbn [canon_tm] in Ht.
    rewrite (st_sq s l TTau a b c d Ht eq_refl). f_equal.
    replace (d * d + smag2 s l a b c - smag2 s l a b c) with (d * d) by ring. symmetry. apply sqrt_square. exact Ht.
Qed.

Lemma beta_spec s l t a b c d : rep4 s l t a b c d ->
  numr (T_lorentz_beta s l t a b c d) = Some (sqrt (smag2 s l a b c) / st s l t a b c d).
Proof.
  intros H. pose proof H as [[Ha [Hl Hp]] Ht]. rewrite beta_struct, mag_spec, t_spec by assumption. reflexivity.
Qed.

Lemma gamma_spec s l t a b c d : rep4 s l t a b c d ->
  smag2 s l a b c <= st s l t a b c d * st s l t a b c d ->
  numr (T_lorentz_gamma s l t a b c d)
  = Some (st s l t a b c d / sqrt (st s l t a b c d * st s l t a b c d - smag2 s l a b c)).
Proof. intros H Htl. rewrite gamma_struct, t_spec, tau_spec by assumption. reflexivity. Qed.

Lemma rapidity_spec s l t a b c d : rep4 s l t a b c d ->
  numr (T_lorentz_rapidity s l t a b c d)
  = Some (1 / 2 * ln ((st s l t a b c d + sz s l a b c) / (st s l t a b c d - sz s l a b c))).
Proof. intros H. rewrite rapidity_struct, z_spec, t_spec by assumption. reflexivity. Qed.

Lemma Mt2_spec s l t a b c d : rep4 s l t a b c d ->
  numr (T_lorentz_Mt2 s l t a b c d) = Some (st s l t a b c d * st s l t a b c d - sz s l a b c * sz s l a b c).
Proof.
  intros H. pose proof H as [[Ha [Hl Hp]] Ht]. destruct t.
  - rewrite Mt2_struct_t, z_spec. reflexivity.
  - rewrite Mt2_struct_tau, rho2_spec. cbn [lift1]. cbn [canon_tm] in Ht.
    rewrite copysign_sq_nonneg by exact Ht. rewrite (st_sq s l TTau a b c d Ht eq_refl). unfold smag2.
    rewrite Rmax_left by nra. f_equal. ring.
Qed.
Lemma Mt_spec s l t a b c d : rep4 s l t a b c d ->
  numr (T_lorentz_Mt s l t a b c d) = Some (sqrt (st s l t a b c d * st s l t a b c d - sz s l a b c * sz s l a b c)).
Proof. intros H. rewrite Mt_struct, Mt2_spec by exact H. reflexivity. Qed.

(* ---- transverse energy Et = t sin(theta) = t * rho / |p| ---- *)
Lemma sqrt_smag2 s l a b c : pos_az s a b -> canon_lg l c ->
  sqrt (smag2 s l a b c)
  = match l with LZ => sqrt (srho s a b * srho s a b + c * c) | LTheta => srho s a b / sin c | LEta => srho s a b * cosh c end.
Proof.
  intros Hp Hl. pose proof (srho_pos s a b Hp) as Hr. rewrite smag2_alt by (apply pos_canon; exact Hp).
  destruct l; cbn [sz].
  - reflexivity.
  - pose proof (sin_gt_0 c (proj1 Hl) (proj2 Hl)) as Hs. rewrite cot_sq_sum by lra.
    apply sqrt_square. apply Rlt_le. apply Rdiv_lt_0_compat; lra.
  - rewrite cosh_sq_sum. apply sqrt_square. pose proof (cosh_pos c). nra.
Qed.

Definition lift1' {A} (f : R -> A) (a : option R) : option A := match a with Some u => Some (f u) | None => None end.
Definition Et_of (s : az) (l : lg) (a b c u : R) : R :=
  match l with
  | LZ => match s with XY => Rcopysign (sqrt (u * u * (a * a + b * b) / (a * a + b * b + c * c))) u
                     | RhoPhi => u * a / sqrt (a * a + c * c) end
  | LTheta => u * sin c
  | LEta => u * (2 / 1 / (exp (- c) + 1 / 1 / exp (- c)))
  end.
Lemma Et_struct s l t a b c d :
  numr (T_lorentz_Et s l t a b c d) = lift1 (Et_of s l a b c) (numr (T_lorentz_t s l t a b c d)).
Proof. destruct s, l, t; vunfold; runfold; reflexivity. Qed.

Lemma inv_cosh_expneg c : 2 / 1 / (exp (- c) + 1 / 1 / exp (- c)) = / cosh c.
Proof.
  pose proof (exp_pos (- c)) as H. pose proof (exp_pos c) as H'. unfold cosh.
  replace (1 / 1 / exp (- c)) with (exp c).
  2:{ rewrite exp_Ropp. field. lra. }
  field. lra.
Qed.

Lemma copysign_abs_mul u k : 0 <= k -> Rcopysign (Rabs u * k) u = u * k.
Proof.
  intros Hk. unfold Rcopysign. pose proof (Rabs_pos u) as Hab. destruct (Rlt_dec u 0) as [H|H].
  - rewrite (Rabs_right (Rabs u * k)) by nra. rewrite (Rabs_left u) by lra. ring.
  - rewrite (Rabs_right (Rabs u * k)) by nra. rewrite (Rabs_right u) by lra. ring.
Qed.

Lemma Et_of_spec s l a b c u : pos_az s a b -> canon_lg l c ->
  Et_of s l a b c u = u * srho s a b / sqrt (smag2 s l a b c).
Proof.
  intros Hp Hl. pose proof (srho_pos s a b Hp) as Hr. rewrite sqrt_smag2 by assumption.
  destruct l; cbn [Et_of].
  - destruct s; cbn [srho pos_az] in *.
    + rewrite sqrt_sqrt by nra. set (r2 := a * a + b * b) in *.
      assert (Hm : 0 < r2 + c * c) by nra.
      replace (u * u * r2 / (r2 + c * c)) with ((Rabs u * (sqrt r2 / sqrt (r2 + c * c))) * (Rabs u * (sqrt r2 / sqrt (r2 + c * c)))).
      2:{ pose proof (sqrt_lt_R0 _ Hm). replace (Rabs u * (sqrt r2 / sqrt (r2 + c * c)) * (Rabs u * (sqrt r2 / sqrt (r2 + c * c))))
            with ((Rabs u * Rabs u) * (sqrt r2 * sqrt r2) / (sqrt (r2 + c * c) * sqrt (r2 + c * c))) by (field; lra).
          rewrite !sqrt_sqrt by lra. replace (Rabs u * Rabs u) with (u * u); [reflexivity|].
          unfold Rabs; destruct (Rcase_abs u); ring. }
      assert (Hk : 0 <= sqrt r2 / sqrt (r2 + c * c)).
      { apply Rlt_le, Rdiv_lt_0_compat; apply sqrt_lt_R0; lra. }
      rewrite sqrt_square by (pose proof (Rabs_pos u); nra).
      rewrite copysign_abs_mul by exact Hk. unfold Rdiv. ring.
    + reflexivity.
  - pose proof (sin_gt_0 c (proj1 Hl) (proj2 Hl)) as Hs. field. lra.
  - rewrite inv_cosh_expneg. pose proof (cosh_pos c). field. lra.
Qed.

Lemma Et_spec s l t a b c d : rep4 s l t a b c d -> pos_az s a b ->
  numr (T_lorentz_Et s l t a b c d) = Some (st s l t a b c d * srho s a b / sqrt (smag2 s l a b c)).
Proof.
  intros H Hpos. pose proof H as [[Ha [Hl Hp]] Ht]. rewrite Et_struct, t_spec by exact H. cbn [lift1].
  rewrite Et_of_spec by assumption. reflexivity.
Qed.

(* ---- scale: the spatial part as in 3D, the stored temporal coordinate times the factor ---- *)
Lemma scale4_struct s l t f a b c d :
  den4 (T_lorentz_scale s l t f a b c d)
  = match den3 (T_spatial_scale s l f a b c) with
    | Some (x, y, z) => Some (x, y, z, match t with TT => d * f | TTau => sqrt (d * f * (d * f) + (x * x + y * y + z * z)) end)
    | None => None end.
Proof. destruct s, l, t; vunfold; runfold; reflexivity. Qed.

Lemma scale_spec4 s l t f a b c d : canon_lg l c -> canon_tm t d -> (match t with TT => f <> 0 | TTau => 0 < f end) ->
  den4 (T_lorentz_scale s l t f a b c d)
  = Some (sx s a b * f, sy s a b * f, sz s l a b c * f, st s l t a b c d * f).
Proof.
  intros Hl Ht Hf. rewrite scale4_struct, scale_spec3; [|exact Hl|destruct t; lra].
  destruct t; [reflexivity|]. cbn [st canon_tm] in *. do 2 f_equal.
  unfold smag2. pose proof (smag2_nonneg s l a b c) as Hm. unfold smag2 in Hm.
  replace (d * f * (d * f) + (sx s a b * f * (sx s a b * f) + sy s a b * f * (sy s a b * f) + sz s l a b c * f * (sz s l a b c * f)))
    with ((d * d + (sx s a b * sx s a b + sy s a b * sy s a b + sz s l a b c * sz s l a b c)) * (f * f)) by ring.
  rewrite sqrt_mult by nra. rewrite (sqrt_square f) by lra. reflexivity.
Qed.

(* ---- to_beta3 = p / t for a positive time ---- *)
Lemma to_beta3_struct s l t a b c d :
  den3 (T_lorentz_to_beta3 s l t a b c d)
  = lift1' (fun u => match s, l with
                     | XY, LZ => (a / u, b / u, c / u)
                     | XY, _ => (a / u, b / u, sz XY l (a / u) (b / u) c)
                     | RhoPhi, LZ => (sx RhoPhi (a / u) b, sy RhoPhi (a / u) b, c / u)
                     | RhoPhi, _ => (sx RhoPhi (a / u) b, sy RhoPhi (a / u) b, sz RhoPhi l (a / u) b c) end)
           (numr (T_lorentz_t s l t a b c d)).
Proof. destruct s, l, t; vunfold; runfold; reflexivity. Qed.

Lemma sqrt_div_sq a b u : 0 < u -> sqrt (a / u * (a / u) + b / u * (b / u)) = sqrt (a * a + b * b) / u.
Proof.
  intros Hu. replace (a / u * (a / u) + b / u * (b / u)) with ((a * a + b * b) * (/ u * / u)) by (field; lra).
  rewrite sqrt_mult_alt by nra. rewrite sqrt_square by (apply Rlt_le, Rinv_0_lt_compat; exact Hu). reflexivity.
Qed.

Lemma to_beta3_spec s l t a b c d : rep4 s l t a b c d -> 0 < st s l t a b c d ->
  den3 (T_lorentz_to_beta3 s l t a b c d)
  = Some (sx s a b / st s l t a b c d, sy s a b / st s l t a b c d, sz s l a b c / st s l t a b c d).
Proof.
  intros H Hu. rewrite to_beta3_struct, t_spec by exact H. cbn [lift1']. set (u := st s l t a b c d) in *.
  destruct s, l; cbn [sx sy sz srho]; apply some3; rewrite ?sqrt_div_sq by exact Hu; try (field; lra).
  all: destruct H as [[_ [Hl _]] _]; cbn [canon_lg] in Hl; pose proof (sin_gt_0 c (proj1 Hl) (proj2 Hl)); field; lra.
Qed.
