(* C02, float clause (partial): rounding-error bounds for the generated definitions read in the rounding instance FLib. *)
From Coq Require Import Reals ZArith Lra Psatz.
From VP Require Import Lib RLib Spec Compute Tables Unfold FLib.
Open Scope R_scope.

(* error algebra *)
Lemma mulerr e1 e2 k1 k2 : Rabs e1 <= k1 -> Rabs e2 <= k2 -> Rabs ((1 + e1) * (1 + e2) - 1) <= k1 + k2 + k1 * k2.
Proof.
  intros H1 H2. replace ((1 + e1) * (1 + e2) - 1) with (e1 + e2 + e1 * e2) by ring.
  eapply Rle_trans; [apply Rabs_triang|]. eapply Rle_trans; [apply Rplus_le_compat_r, Rabs_triang|].
  rewrite Rabs_mult. pose proof (Rabs_pos e1). pose proof (Rabs_pos e2). nra.
Qed.
Lemma weaken e k k' : Rabs e <= k -> k <= k' -> Rabs e <= k'.
Proof. intros; lra. Qed.
Lemma weighted2 a b d1 d2 k : Rabs d1 <= k -> Rabs d2 <= k -> Rabs (a * d1 + b * d2) <= k * (Rabs a + Rabs b).
Proof.
  intros H1 H2. eapply Rle_trans; [apply Rabs_triang|]. rewrite !Rabs_mult.
  pose proof (Rabs_pos a). pose proof (Rabs_pos b). pose proof (Rabs_pos d1). pose proof (Rabs_pos d2). nra.
Qed.
Lemma weighted3 a b c d1 d2 d3 k : Rabs d1 <= k -> Rabs d2 <= k -> Rabs d3 <= k ->
  Rabs (a * d1 + b * d2 + c * d3) <= k * (Rabs a + Rabs b + Rabs c).
Proof.
  intros H1 H2 H3. eapply Rle_trans; [apply Rabs_triang|]. eapply Rle_trans; [apply Rplus_le_compat_r, Rabs_triang|]. rewrite !Rabs_mult.
  pose proof (Rabs_pos a). pose proof (Rabs_pos b). pose proof (Rabs_pos c). pose proof (Rabs_pos d1). pose proof (Rabs_pos d2). pose proof (Rabs_pos d3). nra.
Qed.
Lemma weighted4 a b c d d1 d2 d3 d4 k : Rabs d1 <= k -> Rabs d2 <= k -> Rabs d3 <= k -> Rabs d4 <= k ->
  Rabs (a * d1 + b * d2 + c * d3 + d * d4) <= k * (Rabs a + Rabs b + Rabs c + Rabs d).
Proof.
  intros H1 H2 H3 H4. eapply Rle_trans; [apply Rabs_triang|]. rewrite Rabs_mult.
  pose proof (weighted3 a b c d1 d2 d3 k H1 H2 H3). pose proof (Rabs_pos d). pose proof (Rabs_pos d4). nra.
Qed.

(* accumulated relative error after 2 and 3 roundings, and with a one-ulp square *)
Definition g2 := u53 + u53 + u53 * u53.
Definition g3 := g2 + u53 + g2 * u53.
Definition g4 := g3 + u53 + g3 * u53.
Definition h2 := 2 * u53 + u53 + 2 * u53 * u53.        (* square then one rounding *)
Definition h3 := h2 + u53 + h2 * u53.                  (* square then two roundings *)
Definition h4 := h3 + u53 + h3 * u53.
Lemma g_order : 0 < u53 /\ u53 <= g2 /\ g2 <= g3 /\ g3 <= g4 /\ 0 < h2 /\ h2 <= h3 /\ h3 <= h4 /\ g4 <= / 100 /\ h4 <= / 100.
Proof. pose proof u53_pos. pose proof u53_small. unfold g4, g3, g2, h4, h3, h2. repeat split; nra. Qed.

(* planar dot product, Cartesian x Cartesian: fl(fl(x1 x2) + fl(y1 y2)) *)
Lemma dot2_float_error sq x1 y1 x2 y2 :
  exists v e, numf (@T_planar_dot (FLib sq) XY XY x1 y1 x2 y2) = Some v /\ numr (@T_planar_dot RLib XY XY x1 y1 x2 y2) = Some e /\
    Rabs (v - e) <= g2 * (Rabs (x1 * x2) + Rabs (y1 * y2)).
Proof.
  do 2 eexists. split; [vunfold; funfold; reflexivity|]. split; [vunfold; runfold; reflexivity|].
  destruct (rnd_rel (x1 * x2)) as [e1 [B1 E1]]. destruct (rnd_rel (y1 * y2)) as [e2 [B2 E2]]. rewrite E1, E2.
  destruct (rnd_rel (x1 * x2 * (1 + e1) + y1 * y2 * (1 + e2))) as [e3 [B3 E3]]. rewrite E3.
  replace ((x1 * x2 * (1 + e1) + y1 * y2 * (1 + e2)) * (1 + e3) - (x1 * x2 + y1 * y2))
    with ((x1 * x2) * ((1 + e1) * (1 + e3) - 1) + (y1 * y2) * ((1 + e2) * (1 + e3) - 1)) by ring.
  apply weighted2; apply mulerr; assumption.
Qed.

(* spatial dot product: fl(fl(fl(x1 x2) + fl(y1 y2)) + fl(z1 z2)) *)
Lemma dot3_float_error sq x1 y1 z1 x2 y2 z2 :
  exists v e, numf (@T_spatial_dot (FLib sq) XY LZ XY LZ x1 y1 z1 x2 y2 z2) = Some v /\ numr (@T_spatial_dot RLib XY LZ XY LZ x1 y1 z1 x2 y2 z2) = Some e /\
    Rabs (v - e) <= g3 * (Rabs (x1 * x2) + Rabs (y1 * y2) + Rabs (z1 * z2)).
Proof.
  do 2 eexists. split; [vunfold; funfold; reflexivity|]. split; [vunfold; runfold; reflexivity|].
  destruct (rnd_rel (x1 * x2)) as [e1 [B1 E1]]. destruct (rnd_rel (y1 * y2)) as [e2 [B2 E2]]. destruct (rnd_rel (z1 * z2)) as [e3 [B3 E3]]. rewrite E1, E2, E3.
  destruct (rnd_rel (x1 * x2 * (1 + e1) + y1 * y2 * (1 + e2))) as [e4 [B4 E4]]. rewrite E4.
  destruct (rnd_rel ((x1 * x2 * (1 + e1) + y1 * y2 * (1 + e2)) * (1 + e4) + z1 * z2 * (1 + e3))) as [e5 [B5 E5]]. rewrite E5.
  replace (((x1 * x2 * (1 + e1) + y1 * y2 * (1 + e2)) * (1 + e4) + z1 * z2 * (1 + e3)) * (1 + e5) - (x1 * x2 + y1 * y2 + z1 * z2))
    with ((x1 * x2) * ((1 + ((1 + e1) * (1 + e4) - 1)) * (1 + e5) - 1) + (y1 * y2) * ((1 + ((1 + e2) * (1 + e4) - 1)) * (1 + e5) - 1)
          + (z1 * z2) * ((1 + e3) * (1 + e5) - 1)) by ring.
  pose proof g_order as [? [? [? ?]]].
  apply weighted3.
  - apply mulerr; [apply mulerr|]; assumption.
  - apply mulerr; [apply mulerr|]; assumption.
  - eapply weaken; [apply mulerr; eassumption | assumption].
Qed.

(* Minkowski product: fl(fl(t1 t2) - dot3) *)
Lemma dot4_float_error sq x1 y1 z1 t1 x2 y2 z2 t2 :
  exists v e, numf (@T_lorentz_dot (FLib sq) XY LZ TT XY LZ TT x1 y1 z1 t1 x2 y2 z2 t2) = Some v /\
              numr (@T_lorentz_dot RLib XY LZ TT XY LZ TT x1 y1 z1 t1 x2 y2 z2 t2) = Some e /\
    Rabs (v - e) <= g4 * (Rabs (t1 * t2) + Rabs (x1 * x2) + Rabs (y1 * y2) + Rabs (z1 * z2)).
Proof.
  do 2 eexists. split; [vunfold; funfold; reflexivity|]. split; [vunfold; runfold; reflexivity|].
  destruct (rnd_rel (x1 * x2)) as [e1 [B1 E1]]. destruct (rnd_rel (y1 * y2)) as [e2 [B2 E2]]. destruct (rnd_rel (z1 * z2)) as [e3 [B3 E3]]. rewrite E1, E2, E3.
  destruct (rnd_rel (x1 * x2 * (1 + e1) + y1 * y2 * (1 + e2))) as [e4 [B4 E4]]. rewrite E4.
  destruct (rnd_rel ((x1 * x2 * (1 + e1) + y1 * y2 * (1 + e2)) * (1 + e4) + z1 * z2 * (1 + e3))) as [e5 [B5 E5]]. rewrite E5.
  destruct (rnd_rel (t1 * t2)) as [e6 [B6 E6]]. rewrite E6.
  match goal with |- context [rnd ?a] => destruct (rnd_rel a) as [e7 [B7 E7]]; rewrite E7 end.
  match goal with |- Rabs ?d <= _ =>
    replace d with ((t1 * t2) * ((1 + e6) * (1 + e7) - 1)
                    + (x1 * x2) * (- ((1 + ((1 + ((1 + e1) * (1 + e4) - 1)) * (1 + e5) - 1)) * (1 + e7) - 1))
                    + (y1 * y2) * (- ((1 + ((1 + ((1 + e2) * (1 + e4) - 1)) * (1 + e5) - 1)) * (1 + e7) - 1))
                    + (z1 * z2) * (- ((1 + ((1 + e3) * (1 + e5) - 1)) * (1 + e7) - 1))) by ring end.
  pose proof g_order as [? [? [? [? _]]]].
  apply weighted4; rewrite ?Rabs_Ropp.
  - eapply weaken; [apply mulerr; eassumption | fold g2; lra].
  - apply mulerr; [apply mulerr; [apply mulerr|]|]; assumption.
  - apply mulerr; [apply mulerr; [apply mulerr|]|]; assumption.
  - eapply weaken; [apply mulerr; [apply mulerr|]; eassumption | fold g2; fold g3; lra].
Qed.

(* squares: rho2 = fl(sq x + sq y), mag2 = fl(fl(sq x + sq y) + sq z): all terms are non-negative, so the bound is a RELATIVE one *)
Lemma rho2_float_error sq x y : sq_ok sq ->
  exists v e, numf (@T_planar_rho2 (FLib sq) XY x y) = Some v /\ numr (@T_planar_rho2 RLib XY x y) = Some e /\
    e = x * x + y * y /\ Rabs (v - e) <= h2 * e.
Proof.
  intros Hsq. do 2 eexists. split; [vunfold; funfold; reflexivity|]. split; [vunfold; runfold; reflexivity|]. split; [reflexivity|].
  destruct (Hsq x) as [s1 [S1 Q1]]. destruct (Hsq y) as [s2 [S2 Q2]]. rewrite Q1, Q2.
  match goal with |- context [rnd ?a] => destruct (rnd_rel a) as [e3 [B3 E3]]; rewrite E3 end.
  match goal with |- Rabs ?d <= _ => replace d with ((x * x) * ((1 + s1) * (1 + e3) - 1) + (y * y) * ((1 + s2) * (1 + e3) - 1)) by ring end.
  replace (x * x + y * y) with (Rabs (x * x) + Rabs (y * y)) by (rewrite !Rabs_right by nra; reflexivity).
  apply weighted2; (eapply weaken; [apply mulerr; eassumption | unfold h2; lra]).
Qed.

Lemma mag2_float_error sq x y z : sq_ok sq ->
  exists v e, numf (@T_spatial_mag2 (FLib sq) XY LZ x y z) = Some v /\ numr (@T_spatial_mag2 RLib XY LZ x y z) = Some e /\
    e = x * x + y * y + z * z /\ Rabs (v - e) <= h3 * e.
Proof.
  intros Hsq. do 2 eexists. split; [vunfold; funfold; reflexivity|]. split; [vunfold; runfold; reflexivity|]. split; [reflexivity|].
  destruct (Hsq x) as [s1 [S1 Q1]]. destruct (Hsq y) as [s2 [S2 Q2]]. destruct (Hsq z) as [s3 [S3 Q3]]. rewrite Q1, Q2, Q3.
  destruct (rnd_rel (x * x * (1 + s1) + y * y * (1 + s2))) as [e4 [B4 E4]]. rewrite E4.
  match goal with |- context [rnd ?a] => destruct (rnd_rel a) as [e5 [B5 E5]]; rewrite E5 end.
  match goal with |- Rabs ?d <= _ =>
    replace d with ((x * x) * ((1 + ((1 + s1) * (1 + e4) - 1)) * (1 + e5) - 1) + (y * y) * ((1 + ((1 + s2) * (1 + e4) - 1)) * (1 + e5) - 1)
                    + (z * z) * ((1 + s3) * (1 + e5) - 1)) by ring end.
  replace (x * x + y * y + z * z) with (Rabs (x * x) + Rabs (y * y) + Rabs (z * z)) by (rewrite !Rabs_right by nra; reflexivity).
  pose proof g_order as [? [? [? [? [? [? ?]]]]]].
  apply weighted3.
  - eapply weaken; [apply mulerr; [apply mulerr|]; eassumption | unfold h3, h2; lra].
  - eapply weaken; [apply mulerr; [apply mulerr|]; eassumption | unfold h3, h2; lra].
  - eapply weaken; [apply mulerr; eassumption | unfold h3, h2 in *; nra].
Qed.

Lemma abs_le_inv x k : Rabs x <= k -> - k <= x <= k.
Proof. unfold Rabs. destruct (Rcase_abs x); lra. Qed.

(* a correctly rounded square root of a relatively accurate non-negative argument *)
Lemma sqrt_err v2 e2 k : 0 <= e2 -> 0 <= k < 1 -> Rabs (v2 - e2) <= k * e2 ->
  Rabs (rnd (sqrt v2) - sqrt e2) <= (k + u53 + k * u53) * sqrt e2.
Proof.
  intros He Hk Hv. destruct (rnd_rel (sqrt v2)) as [e [B E]]. rewrite E.
  destruct (Req_dec e2 0) as [Z|NZ].
  - subst e2. rewrite Rmult_0_r in Hv. assert (v2 = 0). { pose proof (Rabs_pos (v2 - 0)). assert (Rabs (v2 - 0) = 0) by lra.
      destruct (Req_dec (v2 - 0) 0) as [E0|N0]; [lra | apply Rabs_no_R0 in N0; lra]. }
    subst v2. rewrite sqrt_0. rewrite Rmult_0_l, Rminus_0_r, Rabs_R0. lra.
  - assert (Hp : 0 < e2) by lra.
    set (d := (v2 - e2) / e2). assert (Hd : Rabs d <= k).
    { unfold d, Rdiv. rewrite Rabs_mult, (Rabs_right (/ e2)) by (apply Rle_ge, Rlt_le, Rinv_0_lt_compat; exact Hp).
      apply (Rmult_le_reg_r e2); [exact Hp|]. rewrite Rmult_assoc, Rinv_l by exact NZ. lra. }
    assert (Hv2 : v2 = e2 * (1 + d)) by (unfold d; field; exact NZ).
    assert (H1d : 0 <= 1 + d). { pose proof (abs_le_inv _ _ Hd). lra. }
    rewrite Hv2, sqrt_mult by lra.
    set (s := sqrt (1 + d)). assert (Hs0 : 0 <= s) by apply sqrt_pos. assert (Hss : s * s = 1 + d) by (apply sqrt_sqrt; exact H1d).
    assert (Hs1 : Rabs (s - 1) <= k).
    { eapply Rle_trans; [|exact Hd]. pose proof (abs_le_inv _ _ Hd). unfold Rabs. destruct (Rcase_abs (s - 1)), (Rcase_abs d); nra. }
    replace (sqrt e2 * s * (1 + e) - sqrt e2) with (sqrt e2 * ((1 + (s - 1)) * (1 + e) - 1)) by ring.
    rewrite Rabs_mult, (Rabs_right (sqrt e2)) by (apply Rle_ge, sqrt_pos).
    pose proof (sqrt_pos e2). pose proof (mulerr (s - 1) e k u53 Hs1 B). nra.
Qed.

Lemma rho_float_error sq x y : sq_ok sq ->
  exists v, numf (@T_planar_rho (FLib sq) XY x y) = Some v /\ Rabs (v - sqrt (x * x + y * y)) <= h3 * sqrt (x * x + y * y).
Proof.
  intros Hsq. destruct (rho2_float_error sq x y Hsq) as [v2 [e2 [F [_ [Ee B]]]]]. subst e2.
  eexists. split; [vunfold; funfold; reflexivity|].
  revert F. vunfold; funfold. cbn [numf]. intros F. injection F as F. rewrite F.
  pose proof g_order as [? [? [? [? [? [? [? [? ?]]]]]]]].
  apply (sqrt_err v2 (x * x + y * y) h2); [nra | lra | exact B].
Qed.

Lemma mag_float_error sq x y z : sq_ok sq ->
  exists v, numf (@T_spatial_mag (FLib sq) XY LZ x y z) = Some v /\ Rabs (v - sqrt (x * x + y * y + z * z)) <= h4 * sqrt (x * x + y * y + z * z).
Proof.
  intros Hsq. destruct (mag2_float_error sq x y z Hsq) as [v2 [e2 [F [_ [Ee B]]]]]. subst e2.
  eexists. split; [vunfold; funfold; reflexivity|].
  revert F. vunfold; funfold. cbn [numf]. intros F. injection F as F. rewrite F.
  pose proof g_order as [? [? [? [? [? [? [? [? ?]]]]]]]].
  apply (sqrt_err v2 (x * x + y * y + z * z) h3); [nra | lra | exact B].
Qed.

Lemma g_numeric : g2 <= 3 * u53 /\ g3 <= 4 * u53 /\ g4 <= 5 * u53 /\ h2 <= 4 * u53 /\ h3 <= 5 * u53 /\ h4 <= 6 * u53.
Proof. pose proof u53_pos. pose proof u53_small. unfold g4, g3, g2, h4, h3, h2. repeat split; nra. Qed.

(* ---- componentwise operations: one rounding per component ---- *)
Definition den3f {sq} (r : @res (FLib sq)) : option (R * R * R) :=
  match r with RAzL XY LZ a b c | RAzLN XY LZ a b c => Some (a, b, c) | _ => None end.

Lemma rnd_err x : Rabs (rnd x - x) <= u53 * Rabs x.
Proof. destruct (rnd_rel x) as [e [B E]]. rewrite E. replace (x * (1 + e) - x) with (x * e) by ring. rewrite Rabs_mult. pose proof (Rabs_pos x). nra. Qed.

Lemma add3_float_error sq x1 y1 z1 x2 y2 z2 :
  exists a b c, den3f (@T_spatial_add (FLib sq) XY LZ XY LZ x1 y1 z1 x2 y2 z2) = Some (a, b, c) /\
    Rabs (a - (x1 + x2)) <= u53 * Rabs (x1 + x2) /\ Rabs (b - (y1 + y2)) <= u53 * Rabs (y1 + y2) /\ Rabs (c - (z1 + z2)) <= u53 * Rabs (z1 + z2).
Proof. do 3 eexists. split; [vunfold; funfold; reflexivity|]. repeat split; apply rnd_err. Qed.

Lemma subtract3_float_error sq x1 y1 z1 x2 y2 z2 :
  exists a b c, den3f (@T_spatial_subtract (FLib sq) XY LZ XY LZ x1 y1 z1 x2 y2 z2) = Some (a, b, c) /\
    Rabs (a - (x1 - x2)) <= u53 * Rabs (x1 - x2) /\ Rabs (b - (y1 - y2)) <= u53 * Rabs (y1 - y2) /\ Rabs (c - (z1 - z2)) <= u53 * Rabs (z1 - z2).
Proof. do 3 eexists. split; [vunfold; funfold; reflexivity|]. repeat split; apply rnd_err. Qed.

(* cross product: each component is fl(fl(p q) - fl(r s)) *)
Lemma diff2 p q r s : Rabs (rnd (rnd (p * q) - rnd (r * s)) - (p * q - r * s)) <= g2 * (Rabs (p * q) + Rabs (r * s)).
Proof.
  destruct (rnd_rel (p * q)) as [e1 [B1 E1]]. destruct (rnd_rel (r * s)) as [e2 [B2 E2]]. rewrite E1, E2.
  destruct (rnd_rel (p * q * (1 + e1) - r * s * (1 + e2))) as [e3 [B3 E3]]. rewrite E3.
  replace ((p * q * (1 + e1) - r * s * (1 + e2)) * (1 + e3) - (p * q - r * s))
    with ((p * q) * ((1 + e1) * (1 + e3) - 1) + (r * s) * (- ((1 + e2) * (1 + e3) - 1))) by ring.
  apply weighted2; rewrite ?Rabs_Ropp; apply mulerr; assumption.
Qed.
Lemma cross_float_error sq x1 y1 z1 x2 y2 z2 :
  exists a b c, den3f (@T_spatial_cross (FLib sq) XY LZ XY LZ x1 y1 z1 x2 y2 z2) = Some (a, b, c) /\
    Rabs (a - (y1 * z2 - z1 * y2)) <= g2 * (Rabs (y1 * z2) + Rabs (z1 * y2)) /\
    Rabs (b - (z1 * x2 - x1 * z2)) <= g2 * (Rabs (z1 * x2) + Rabs (x1 * z2)) /\
    Rabs (c - (x1 * y2 - y1 * x2)) <= g2 * (Rabs (x1 * y2) + Rabs (y1 * x2)).
Proof. do 3 eexists. split; [vunfold; funfold; reflexivity|]. repeat split; apply diff2. Qed.

(* tau2 = fl(sq t - mag2): relative to t^2 + |p|^2 (the cancellation t^2 ~ |p|^2 is the ill-conditioned case) *)
Lemma tau2_float_error sq x y z t : sq_ok sq ->
  exists v e, numf (@T_lorentz_tau2 (FLib sq) XY LZ TT x y z t) = Some v /\ numr (@T_lorentz_tau2 RLib XY LZ TT x y z t) = Some e /\
    e = t * t - (x * x + y * y + z * z) /\ Rabs (v - e) <= h4 * (t * t + x * x + y * y + z * z).
Proof.
  intros Hsq. do 2 eexists. split; [vunfold; funfold; reflexivity|]. split; [vunfold; runfold; reflexivity|]. split; [reflexivity|].
  destruct (Hsq x) as [s1 [S1 Q1]]. destruct (Hsq y) as [s2 [S2 Q2]]. destruct (Hsq z) as [s3 [S3 Q3]]. destruct (Hsq t) as [s4 [S4 Q4]]. rewrite Q1, Q2, Q3, Q4.
  destruct (rnd_rel (x * x * (1 + s1) + y * y * (1 + s2))) as [e4 [B4 E4]]. rewrite E4.
  destruct (rnd_rel ((x * x * (1 + s1) + y * y * (1 + s2)) * (1 + e4) + z * z * (1 + s3))) as [e5 [B5 E5]]. rewrite E5.
  match goal with |- context [rnd ?a] => destruct (rnd_rel a) as [e6 [B6 E6]]; rewrite E6 end.
  match goal with |- Rabs ?d <= _ =>
    replace d with ((t * t) * ((1 + s4) * (1 + e6) - 1)
                    + (x * x) * (- ((1 + ((1 + ((1 + s1) * (1 + e4) - 1)) * (1 + e5) - 1)) * (1 + e6) - 1))
                    + (y * y) * (- ((1 + ((1 + ((1 + s2) * (1 + e4) - 1)) * (1 + e5) - 1)) * (1 + e6) - 1))
                    + (z * z) * (- ((1 + ((1 + s3) * (1 + e5) - 1)) * (1 + e6) - 1))) by ring end.
  replace (t * t + x * x + y * y + z * z) with (Rabs (t * t) + Rabs (x * x) + Rabs (y * y) + Rabs (z * z)) by (rewrite !Rabs_right by nra; reflexivity).
  pose proof g_order as [? [? [? [? [? [? ?]]]]]].
  apply weighted4; rewrite ?Rabs_Ropp.
  - eapply weaken; [apply mulerr; eassumption | unfold h4, h3, h2 in *; nra].
  - eapply weaken; [apply mulerr; [apply mulerr; [apply mulerr|]|]; eassumption | unfold h4, h3, h2; lra].
  - eapply weaken; [apply mulerr; [apply mulerr; [apply mulerr|]|]; eassumption | unfold h4, h3, h2; lra].
  - eapply weaken; [apply mulerr; [apply mulerr|]; eassumption | unfold h4, h3, h2 in *; nra].
Qed.
