(* C02: remaining documented definitions on the Cartesian variants (the other signatures reduce to these by C01). *)
From Coq Require Import Reals Lra Psatz.
From VP Require Import Lib RLib Trig Conv Spec Compute Tables Unfold Spec_planar Spec_spatial1 Spec_spatial2 Spec_lorentz.
Open Scope R_scope.

Lemma rapidity_def (x y z t : R) : numr (T_lorentz_rapidity XY LZ TT x y z t) = Some (1 / 2 * ln ((t + z) / (t - z))).
Proof. vunfold; runfold; reflexivity. Qed.
Lemma Mt2_def (x y z t : R) : numr (T_lorentz_Mt2 XY LZ TT x y z t) = Some (t * t - z * z).
Proof. vunfold; runfold; reflexivity. Qed.
Lemma Mt_def (x y z t : R) : numr (T_lorentz_Mt XY LZ TT x y z t) = Some (sqrt (t * t - z * z)).
Proof. vunfold; runfold; reflexivity. Qed.
(* Et = t sin(theta):  Et^2 = t^2 rho^2 / (rho^2 + z^2) *)
Lemma Et2_def (x y z t : R) : numr (T_lorentz_Et2 XY LZ TT x y z t) = Some (t * t * (x * x + y * y) / (x * x + y * y + z * z)).
Proof. vunfold; runfold; reflexivity. Qed.
Lemma Et_is_t_sin_theta (x y z t : R) : 0 < x * x + y * y ->
  exists th, is_theta (sqrt (x * x + y * y)) z th /\ numr (T_lorentz_Et XY LZ TT x y z t) = Some (t * sin th).
Proof.
  (* for every sign of t: the Cartesian variant carries the sign of t (copysign), as t sin(theta) does *)
  intros Hr. destruct (theta_spec XY LZ x y z Hr I) as [th [_ Hth]]. cbn [srho sz] in Hth.
  exists th. split; [exact Hth|]. vunfold; runfold; cbn [numr]. f_equal.
  destruct Hth as [[H0 Hpi] [Hc Hs]]. set (r := sqrt (x * x + y * y)) in *.
  assert (Hr0 : 0 < r) by (apply sqrt_lt_R0; exact Hr). assert (Hrr : r * r = x * x + y * y) by (apply sqrt_sqrt; lra).
  set (m := sqrt (r * r + z * z)) in *. assert (Hm : 0 < m) by (apply sqrt_lt_R0; nra).
  assert (Hmm : m * m = r * r + z * z) by (apply sqrt_sqrt; nra).
  assert (Hsin : sin th = r / m) by (rewrite <- Hs; field; lra).
  rewrite Hsin. replace (x * x + y * y + z * z) with (m * m) by lra. rewrite <- Hrr.
  assert (Hk : 0 <= r / m) by (apply Rlt_le, Rdiv_lt_0_compat; lra).
  replace (t * t * (r * r) / (m * m)) with ((Rabs t * (r / m)) * (Rabs t * (r / m))).
  2:{ replace (Rabs t * (r / m) * (Rabs t * (r / m))) with ((Rabs t * Rabs t) * (r * r) / (m * m)) by (field; lra).
      replace (Rabs t * Rabs t) with (t * t); [reflexivity|]. unfold Rabs; destruct (Rcase_abs t); ring. }
  rewrite sqrt_square by (pose proof (Rabs_pos t); nra).
  unfold Rcopysign. pose proof (Rabs_pos t) as Hab. destruct (Rlt_dec t 0) as [Hneg|Hpos].
  - rewrite (Rabs_right (Rabs t * (r / m))) by nra. rewrite (Rabs_left t) by lra. ring.
  - rewrite (Rabs_right (Rabs t * (r / m))) by nra. rewrite (Rabs_right t) by lra. ring.
Qed.
Lemma beta_def (x y z t : R) : numr (T_lorentz_beta XY LZ TT x y z t) = Some (sqrt (x * x + y * y + z * z) / t).
Proof. vunfold; runfold; reflexivity. Qed.
Lemma gamma_def (x y z t : R) : x * x + y * y + z * z < t * t ->
  numr (T_lorentz_gamma XY LZ TT x y z t) = Some (t / sqrt (t * t - (x * x + y * y + z * z))).
Proof.
  intros H. vunfold; runfold; cbn [numr]. f_equal. unfold Rcopysign.
  destruct (Rlt_dec (t * t - (x * x + y * y + z * z)) 0); [lra|].
  rewrite (Rabs_right (t * t - _)) by lra. rewrite Rabs_right by (apply Rle_ge, sqrt_pos). reflexivity.
Qed.
Lemma tau_def (x y z t : R) : x * x + y * y + z * z <= t * t ->
  numr (T_lorentz_tau XY LZ TT x y z t) = Some (sqrt (t * t - (x * x + y * y + z * z))).
Proof.
  intros H. vunfold; runfold; cbn [numr]. f_equal. unfold Rcopysign.
  destruct (Rlt_dec (t * t - (x * x + y * y + z * z)) 0); [lra|].
  rewrite (Rabs_right (t * t - _)) by lra. apply Rabs_right. apply Rle_ge, sqrt_pos.
Qed.
Lemma to_beta3_def (x y z t : R) : den3 (T_lorentz_to_beta3 XY LZ TT x y z t) = Some (x / t, y / t, z / t).
Proof. vunfold; runfold; reflexivity. Qed.
Lemma scale4_def (f x y z t : R) : den4 (T_lorentz_scale XY LZ TT f x y z t) = Some (x * f, y * f, z * f, t * f).
Proof. vunfold; runfold; reflexivity. Qed.

(* general linear transforms are matrix-vector products *)
Lemma transform3D_def (xx xy xz yx yy yz zx zy zz x y z : R) :
  den3 (T_spatial_transform3D XY LZ xx xy xz yx yy yz zx zy zz x y z)
  = Some (xx * x + xy * y + xz * z, yx * x + yy * y + yz * z, zx * x + zy * y + zz * z).
Proof. vunfold; runfold; reflexivity. Qed.
Lemma transform4D_def (xx xy xz xt yx yy yz yt zx zy zz zt tx ty tz tt x y z t : R) :
  den4 (T_lorentz_transform4D XY LZ TT xx xy xz xt yx yy yz yt zx zy zz zt tx ty tz tt x y z t)
  = Some (xx * x + xy * y + xz * z + xt * t, yx * x + yy * y + yz * z + yt * t,
          zx * x + zy * y + zz * z + zt * t, tx * x + ty * y + tz * z + tt * t).
Proof. vunfold; runfold; reflexivity. Qed.
