(* C11: vector-space, dot, cross laws — for every signature, via the spec lemmas. *)
From Coq Require Import Reals Lra Psatz.
From VP Require Import Lib RLib Trig Conv Spec Compute Tables Unfold Spec_planar Spec_spatial1 Spec_spatial2 Spec_lorentz.
Open Scope R_scope.

(* feed a vector-valued result (in its declared system) to the next operation *)
Definition bind2 (r : @res RLib) (k : az -> R -> R -> @res RLib) : @res RLib :=
  match r with RAz s a b | RAzN s a b => k s a b | _ => RBad end.
Definition bind3 (r : @res RLib) (k : az -> lg -> R -> R -> R -> @res RLib) : @res RLib :=
  match r with RAzL s l a b c | RAzLN s l a b c => k s l a b c | _ => RBad end.

Lemma den2_inv r x y : den2 r = Some (x, y) -> exists s a b, (r = RAz s a b \/ r = RAzN s a b) /\ sx s a b = x /\ sy s a b = y.
Proof. destruct r; cbn; try discriminate; intros H; injection H as <- <-; eauto 8. Qed.
Lemma den3_inv r x y z : den3 r = Some (x, y, z) ->
  exists s l a b c, (r = RAzL s l a b c \/ r = RAzLN s l a b c) /\ sx s a b = x /\ sy s a b = y /\ sz s l a b c = z.
Proof. destruct r; cbn; try discriminate; intros H; injection H as <- <- <-; eauto 12. Qed.

(* ---------- 2D ---------- *)
Lemma add_comm2 s1 s2 a1 b1 a2 b2 :
  den2 (T_planar_add s1 s2 a1 b1 a2 b2) = den2 (T_planar_add s2 s1 a2 b2 a1 b1).
Proof. rewrite !add_spec. f_equal. f_equal; ring. Qed.

Lemma add_assoc2 s1 s2 s3 a1 b1 a2 b2 a3 b3 :
  den2 (bind2 (T_planar_add s1 s2 a1 b1 a2 b2) (fun s a b => T_planar_add s s3 a b a3 b3))
  = den2 (bind2 (T_planar_add s2 s3 a2 b2 a3 b3) (fun s a b => T_planar_add s1 s a1 b1 a b)).
Proof.
  destruct (den2_inv _ _ _ (add_spec s1 s2 a1 b1 a2 b2)) as [s [a [b [[->| ->] [Hx Hy]]]]];
  destruct (den2_inv _ _ _ (add_spec s2 s3 a2 b2 a3 b3)) as [s' [a' [b' [[->| ->] [Hx' Hy']]]]];
  cbn [bind2]; rewrite !add_spec, Hx, Hy, Hx', Hy'; f_equal; f_equal; ring.
Qed.

Lemma sub_add_cancel2 s1 s2 a1 b1 a2 b2 :
  den2 (bind2 (T_planar_subtract s1 s2 a1 b1 a2 b2) (fun s a b => T_planar_add s s2 a b a2 b2))
  = Some (sx s1 a1 b1, sy s1 a1 b1).
Proof.
  destruct (den2_inv _ _ _ (subtract_spec s1 s2 a1 b1 a2 b2)) as [s [a [b [[->| ->] [Hx Hy]]]]];
  cbn [bind2]; rewrite add_spec, Hx, Hy; f_equal; f_equal; ring.
Qed.

Lemma scale_distr2 s1 s2 f a1 b1 a2 b2 :
  den2 (bind2 (T_planar_add s1 s2 a1 b1 a2 b2) (fun s a b => T_planar_scale s f a b))
  = den2 (bind2 (T_planar_scale s1 f a1 b1) (fun s a b =>
          bind2 (T_planar_scale s2 f a2 b2) (fun s' a' b' => T_planar_add s s' a b a' b'))).
Proof.
  destruct (den2_inv _ _ _ (add_spec s1 s2 a1 b1 a2 b2)) as [s [a [b [[->| ->] [Hx Hy]]]]];
  destruct (den2_inv _ _ _ (scale_spec s1 f a1 b1)) as [u [p [q [[->| ->] [Hx1 Hy1]]]]];
  destruct (den2_inv _ _ _ (scale_spec s2 f a2 b2)) as [u' [p' [q' [[->| ->] [Hx2 Hy2]]]]];
  cbn [bind2]; rewrite scale_spec, add_spec, Hx, Hy, Hx1, Hy1, Hx2, Hy2; f_equal; f_equal; ring.
Qed.

Lemma scale_compose2 s f g a b :
  den2 (bind2 (T_planar_scale s f a b) (fun s' a' b' => T_planar_scale s' g a' b'))
  = den2 (T_planar_scale s (f * g) a b).
Proof.
  destruct (den2_inv _ _ _ (scale_spec s f a b)) as [u [p [q [[->| ->] [Hx Hy]]]]];
  cbn [bind2]; rewrite !scale_spec, Hx, Hy; f_equal; f_equal; ring.
Qed.

Lemma dot_sym2 s1 s2 a1 b1 a2 b2 :
  numr (T_planar_dot s1 s2 a1 b1 a2 b2) = numr (T_planar_dot s2 s1 a2 b2 a1 b1).
Proof. rewrite !dot_spec. f_equal. ring. Qed.
Lemma dot_self2 s a b : numr (T_planar_dot s s a b a b) = numr (T_planar_rho2 s a b).
Proof. rewrite dot_spec, rho2_spec. reflexivity. Qed.
Lemma dot_bilinear2 s1 s2 s3 f a1 b1 a2 b2 a3 b3 :
  match den2 (T_planar_add s1 s2 a1 b1 a2 b2), den2 (T_planar_scale s1 f a1 b1) with
  | Some (x, y), Some (u, v) =>
      (* (a+b).c = a.c + b.c  and  (f a).c = f (a.c), on the denotations *)
      x * sx s3 a3 b3 + y * sy s3 a3 b3
        = (sx s1 a1 b1 * sx s3 a3 b3 + sy s1 a1 b1 * sy s3 a3 b3) + (sx s2 a2 b2 * sx s3 a3 b3 + sy s2 a2 b2 * sy s3 a3 b3)
      /\ u * sx s3 a3 b3 + v * sy s3 a3 b3 = f * (sx s1 a1 b1 * sx s3 a3 b3 + sy s1 a1 b1 * sy s3 a3 b3)
  | _, _ => False end.
Proof. rewrite add_spec, scale_spec. split; ring. Qed.

(* ---------- 3D ---------- *)
Lemma add_comm3 s1 l1 s2 l2 a1 b1 c1 a2 b2 c2 :
  res_regular (T_spatial_add s1 l1 s2 l2 a1 b1 c1 a2 b2 c2) -> res_regular (T_spatial_add s2 l2 s1 l1 a2 b2 c2 a1 b1 c1) ->
  den3 (T_spatial_add s1 l1 s2 l2 a1 b1 c1 a2 b2 c2) = den3 (T_spatial_add s2 l2 s1 l1 a2 b2 c2 a1 b1 c1).
Proof. intros H1 H2. rewrite !add_spec3 by assumption. apply some3; ring. Qed.

Lemma dot_sym3 s1 l1 s2 l2 a1 b1 c1 a2 b2 c2 :
  numr (T_spatial_dot s1 l1 s2 l2 a1 b1 c1 a2 b2 c2) = numr (T_spatial_dot s2 l2 s1 l1 a2 b2 c2 a1 b1 c1).
Proof. rewrite !dot_spec3. f_equal. ring. Qed.
Lemma dot_self3 s l a b c : canon_az s a b -> canon_lg l c ->
  numr (T_spatial_dot s l s l a b c a b c) = numr (T_spatial_mag2 s l a b c).
Proof. intros Ha Hl. rewrite dot_spec3, mag2_spec by assumption. reflexivity. Qed.

Lemma cross_antisym s1 l1 s2 l2 a1 b1 c1 a2 b2 c2 :
  res_regular (T_spatial_cross s1 l1 s2 l2 a1 b1 c1 a2 b2 c2) -> res_regular (T_spatial_cross s2 l2 s1 l1 a2 b2 c2 a1 b1 c1) ->
  match den3 (T_spatial_cross s1 l1 s2 l2 a1 b1 c1 a2 b2 c2), den3 (T_spatial_cross s2 l2 s1 l1 a2 b2 c2 a1 b1 c1) with
  | Some (x, y, z), Some (x', y', z') => x = - x' /\ y = - y' /\ z = - z' | _, _ => False end.
Proof. intros H1 H2. rewrite !cross_spec by assumption. cbv zeta. repeat split; ring. Qed.

Lemma cross_orthogonal_lagrange s1 l1 s2 l2 a1 b1 c1 a2 b2 c2 :
  res_regular (T_spatial_cross s1 l1 s2 l2 a1 b1 c1 a2 b2 c2) ->
  let x1 := sx s1 a1 b1 in let y1 := sy s1 a1 b1 in let z1 := sz s1 l1 a1 b1 c1 in
  let x2 := sx s2 a2 b2 in let y2 := sy s2 a2 b2 in let z2 := sz s2 l2 a2 b2 c2 in
  match den3 (T_spatial_cross s1 l1 s2 l2 a1 b1 c1 a2 b2 c2) with
  | Some (x, y, z) =>
      x * x1 + y * y1 + z * z1 = 0 /\ x * x2 + y * y2 + z * z2 = 0 /\
      x * x + y * y + z * z = (x1 * x1 + y1 * y1 + z1 * z1) * (x2 * x2 + y2 * y2 + z2 * z2)
                              - (x1 * x2 + y1 * y2 + z1 * z2) * (x1 * x2 + y1 * y2 + z1 * z2)
  | None => False end.
Proof. intros H. cbv zeta. rewrite cross_spec by assumption. cbv zeta. repeat split; ring. Qed.

(* ---------- 4D ---------- *)
Lemma dot_sym4 s1 l1 t1 s2 l2 t2 a1 b1 c1 d1 a2 b2 c2 d2 :
  rep4 s1 l1 t1 a1 b1 c1 d1 -> rep4 s2 l2 t2 a2 b2 c2 d2 ->
  numr (T_lorentz_dot s1 l1 t1 s2 l2 t2 a1 b1 c1 d1 a2 b2 c2 d2) = numr (T_lorentz_dot s2 l2 t2 s1 l1 t1 a2 b2 c2 d2 a1 b1 c1 d1).
Proof. intros H1 H2. rewrite !dot_spec4 by assumption. f_equal. ring. Qed.
Lemma dot_self4 s l t a b c d : rep4 s l t a b c d ->
  numr (T_lorentz_dot s l t s l t a b c d a b c d) = numr (T_lorentz_tau2 s l t a b c d).
Proof. intros H. rewrite dot_spec4, tau2_spec by assumption. unfold smag2. apply f_equal. ring. Qed.
