(* C12, part 2: != is the negation of ==, for every pairing of coordinate systems. *)
From Coq Require Import Bool.
From VP Require Import Lib BoolLaws Compute Tables Unfold C12_eq.

Ltac de_morgan := repeat rewrite ?negb_andb, ?negb_orb, ?negb_involutive, ?bor_spec; try reflexivity.

Section C12.
Context {L : Lib} {BL : BoolLaws L}.
Lemma planar_ne_neg s1 s2 a1 b1 a2 b2 :
  trres (T_planar_not_equal s1 s2 a1 b1 a2 b2) = option_map negb (trres (T_planar_equal s1 s2 a1 b1 a2 b2)).
Proof. destruct s1, s2; vunfold; bl; de_morgan. Qed.
Lemma spatial_ne_neg s1 l1 s2 l2 a1 b1 c1 a2 b2 c2 :
  trres (T_spatial_not_equal s1 l1 s2 l2 a1 b1 c1 a2 b2 c2)
  = option_map negb (trres (T_spatial_equal s1 l1 s2 l2 a1 b1 c1 a2 b2 c2)).
Proof. destruct s1, l1, s2, l2; vunfold; bl; de_morgan. Qed.
Lemma lorentz_ne_neg s1 l1 t1 s2 l2 t2 a1 b1 c1 d1 a2 b2 c2 d2 :
  trres (T_lorentz_not_equal s1 l1 t1 s2 l2 t2 a1 b1 c1 d1 a2 b2 c2 d2)
  = option_map negb (trres (T_lorentz_equal s1 l1 t1 s2 l2 t2 a1 b1 c1 d1 a2 b2 c2 d2)).
Proof. destruct s1, l1, t1, s2, l2, t2; vunfold; bl; de_morgan. Qed.
End C12.
