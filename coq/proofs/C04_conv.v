(* C04: converting between coordinate systems preserves the denoted vector (over R, canonical domain). *)
From Coq Require Import Reals Lra Psatz.
From VP Require Import Lib RLib Trig Conv Spec Compute Tables Unfold Spec_planar Spec_spatial1 Spec_spatial2 Spec_lorentz.
Open Scope R_scope.

(* the two azimuthal accessors that to_<s'> uses *)
Definition az_acc (s' : az) (s : az) (a b : R) : option (R * R) :=
  match s' with
  | XY => match numr (T_planar_x s a b), numr (T_planar_y s a b) with Some u, Some v => Some (u, v) | _, _ => None end
  | RhoPhi => match numr (T_planar_rho s a b), numr (T_planar_phi s a b) with Some u, Some v => Some (u, v) | _, _ => None end
  end.
Definition lg_acc (l' : lg) (s : az) (l : lg) (a b c : R) : option R :=
  match l' with LZ => numr (T_spatial_z s l a b c) | LTheta => numr (T_spatial_theta s l a b c) | LEta => numr (T_spatial_eta s l a b c) end.
Definition tm_acc (t' : tm) (s : az) (l : lg) (t : tm) (a b c d : R) : option R :=
  match t' with TT => numr (T_lorentz_t s l t a b c d) | TTau => numr (T_lorentz_tau s l t a b c d) end.

Lemma az_conv s' s a b : canon_az s a b ->
  exists u v, az_acc s' s a b = Some (u, v) /\ sx s' u v = sx s a b /\ sy s' u v = sy s a b /\ srho s' u v = srho s a b /\ canon_az s' u v.
Proof.
  intros H. destruct s'; unfold az_acc.
  - rewrite x_spec, y_spec. exists (sx s a b), (sy s a b). cbn [sx sy srho canon_az].
    repeat split; try reflexivity. rewrite <- srho_sq by exact H. apply sqrt_square. apply srho_nonneg; exact H.
  - rewrite rho_spec by exact H. destruct (phi_spec s a b H) as [p [Ep [Pc Ps]]]. rewrite Ep.
    exists (sqrt (sx s a b * sx s a b + sy s a b * sy s a b)), p. cbn [sx sy srho canon_az].
    repeat split; try assumption; try apply sqrt_pos.
    rewrite <- srho_sq by exact H. apply sqrt_square. apply srho_nonneg; exact H.
Qed.

Lemma is_theta_cot rho z th : 0 < rho -> is_theta rho z th -> rho * (cos th / sin th) = z.
Proof.
  intros Hr [_ [Hc Hs]]. set (m := sqrt (rho * rho + z * z)) in *.
  assert (Hsin : sin th <> 0) by (intro E; rewrite E in Hs; lra).
  rewrite <- Hs at 1. rewrite <- Hc. field. exact Hsin.
Qed.

(* the longitudinal accessor of ANY target system denotes the same z (given the same rho) *)
Lemma lg_conv l' s l a b c rho' : pos_az s a b -> canon_lg l c -> rho' = srho s a b ->
  exists w, lg_acc l' s l a b c = Some w /\
    match l' with LZ => w | LTheta => rho' * (cos w / sin w) | LEta => rho' * sinh w end = sz s l a b c.
Proof.
  intros Hp Hl ->. destruct l'; unfold lg_acc.
  - rewrite z_spec. eexists; split; reflexivity.
  - destruct (theta_spec s l a b c Hp Hl) as [th [E Hth]]. exists th. split; [exact E|].
    apply is_theta_cot; [apply srho_pos; exact Hp | exact Hth].
  - destruct (eta_spec s l a b c Hp Hl) as [e [E He]]. exists e. split; [exact E | exact He].
Qed.

Theorem conversion_preserves_vector_2D s' s a b : canon_az s a b ->
  exists u v, az_acc s' s a b = Some (u, v) /\ (sx s' u v, sy s' u v) = (sx s a b, sy s a b).
Proof. intros H. destruct (az_conv s' s a b H) as [u [v [E [Hx [Hy _]]]]]. exists u, v. rewrite Hx, Hy. auto. Qed.

Theorem conversion_preserves_vector_3D s' l' s l a b c : pos_az s a b -> canon_lg l c ->
  exists u v w, az_acc s' s a b = Some (u, v) /\ lg_acc l' s l a b c = Some w /\
    (sx s' u v, sy s' u v, sz s' l' u v w) = (sx s a b, sy s a b, sz s l a b c).
Proof.
  intros Hp Hl. destruct (az_conv s' s a b (pos_canon _ _ _ Hp)) as [u [v [E [Hx [Hy [Hr _]]]]]].
  destruct (lg_conv l' s l a b c (srho s' u v) Hp Hl Hr) as [w [Ew Hz]].
  exists u, v, w. repeat split; try assumption. rewrite Hx, Hy. f_equal.
  destruct l'; cbn [sz]; exact Hz.
Qed.

(* t from tau and back: tau(t(tau)) denotes the same time; here: the time component is preserved by to_*t / to_*tau *)
Lemma tau_of_t_roundtrip s l a b c d : canon_az s a b -> canon_lg l c -> (l <> LZ -> pos_az s a b) ->
  smag2 s l a b c <= d * d -> 0 <= d ->
  exists w, tm_acc TTau s l TT a b c d = Some w /\ sqrt (w * w + smag2 s l a b c) = d.
Proof.
  intros Ha Hl Hp Htl Hd. unfold tm_acc.
  assert (E : numr (T_lorentz_tau s l TT a b c d)
              = lift1 (fun m2 => Rcopysign (sqrt (Rabs (d * d - m2))) (d * d - m2)) (numr (T_spatial_mag2 s l a b c))).
  { destruct s, l; vunfold; runfold; reflexivity. }
  rewrite E, mag2_spec by assumption. cbn [lift1]. eexists; split; [reflexivity|].
  set (m := smag2 s l a b c) in *. unfold Rcopysign. destruct (Rlt_dec (d * d - m) 0); [lra|].
  rewrite (Rabs_right (d * d - m)) by lra. rewrite (Rabs_right (sqrt _)) by (apply Rle_ge, sqrt_pos).
  rewrite sqrt_sqrt by lra. replace (d * d - m + m) with (d * d) by ring. apply sqrt_square; exact Hd.
Qed.
