(* Spatial binary / transforming operations in every signature compute their documented definitions. *)
From Coq Require Import Reals Lra Psatz.
From VP Require Import Lib RLib Trig Conv Spec Compute Tables Unfold Spec_planar Spec_spatial1.
Open Scope R_scope.

(* normalisation: constants, total inverse, tan, exp(-eta) forms; then ring *)
Lemma cot_theta_of_eta_n e : cos (2 * atan (exp (- e))) * / sin (2 * atan (exp (- e))) = sinh e.
Proof. apply cot_theta_of_eta. Qed.
Lemma two1 : 2 * / 1 = 2. Proof. field. Qed.

(* representable storage of one 3D operand: rho >= 0; off the z axis and 0 < theta < PI for theta/eta storage *)
Definition rep3 (s : az) (l : lg) (a b c : R) : Prop :=
  canon_az s a b /\ canon_lg l c /\ (l <> LZ -> pos_az s a b).

Ltac norm := rewrite ?sinh_expneg, ?cosh_expneg, ?rectify21; unfold Rdiv; rewrite ?Rinv_mult, ?inv_tan, ?Rinv_1, ?Rmult_1_r, ?Rmult_1_l; unfold Rdiv; rewrite ?cot_theta_of_eta_n.
Ltac sp3n := sp3; norm.

Lemma dot_spec3 s1 l1 s2 l2 a1 b1 c1 a2 b2 c2 :
  numr (T_spatial_dot s1 l1 s2 l2 a1 b1 c1 a2 b2 c2)
  = Some (sx s1 a1 b1 * sx s2 a2 b2 + sy s1 a1 b1 * sy s2 a2 b2 + sz s1 l1 a1 b1 c1 * sz s2 l2 a2 b2 c2).
Proof.
  destruct s1, l1, s2, l2; sp3n; rewrite ?cos_minus; f_equal; ring.
Qed.

(* round trips through a computed theta / eta (the result of an operation re-expressed in a polar system) *)
Lemma rt_theta_rhophi rho z : 0 < rho ->
  rho * (cos (acos (z * / sqrt (rho * rho + z * z))) * / sin (acos (z * / sqrt (rho * rho + z * z)))) = z.
Proof.
  intros Hr. destruct (acos_polar rho z) as [Hc Hs]; [lra | nra |]. cbv zeta in Hc, Hs. unfold Rdiv in Hc, Hs.
  set (m := sqrt (rho * rho + z * z)) in *. set (th := acos (z * / m)) in *.
  assert (Hm : 0 < m) by (apply sqrt_lt_R0; nra).
  assert (Hsin : sin th <> 0) by (intro E; rewrite E in Hs; lra).
  transitivity (m * sin th * (cos th * / sin th)); [rewrite Hs; reflexivity|].
  transitivity (m * cos th); [field; exact Hsin | exact Hc].
Qed.
Lemma rt_theta_xy x y z : 0 < x * x + y * y ->
  sqrt (x * x + y * y) * (cos (acos (z * / sqrt (x * x + y * y + z * z))) * / sin (acos (z * / sqrt (x * x + y * y + z * z)))) = z.
Proof.
  intros H. set (r := sqrt (x * x + y * y)). assert (Hr : 0 < r) by (apply sqrt_lt_R0; exact H).
  replace (x * x + y * y + z * z) with (r * r + z * z) by (unfold r; rewrite sqrt_sqrt by lra; ring).
  apply rt_theta_rhophi. exact Hr.
Qed.
Lemma rt_eta rho z : rho <> 0 -> rho * sinh (arcsinh (z * / rho)) = z.
Proof. intros H. rewrite sinh_arcsinh. field. exact H. Qed.

Definition res_regular (r : @res RLib) : Prop :=
  match r with
  | RAzL s l a b c | RAzLN s l a b c => l = LZ \/ pos_az s a b
  | RAzLT s l t a b c d => l = LZ \/ pos_az s a b
  | _ => True end.

Lemma some3 (a b c a' b' c' : R) : a = a' -> b = b' -> c = c' -> Some (a, b, c) = Some (a', b', c').
Proof. intros; subst; reflexivity. Qed.
Ltac ring3 := apply some3; ring.

Ltac polar_add :=
  match goal with |- context [rectify (?p1 + atan2 (?r2 * sin (?p2 - ?p1)) (?r1 + ?r2 * cos (?p2 - ?p1)))] =>
    let Hc := fresh "Hc" in let Hs := fresh "Hs" in
    destruct (polar_add_correct r1 p1 r2 p2) as [Hc Hs]; cbv zeta in Hc, Hs; rewrite ?Hc, ?Hs end.
Ltac roundtrips H :=
  rewrite ?rt_theta_xy by exact H; rewrite ?rt_theta_rhophi by exact H;
  rewrite ?rt_eta by (apply Rgt_not_eq; first [exact H | apply sqrt_lt_R0; exact H]).

Lemma add_spec3 s1 l1 s2 l2 a1 b1 c1 a2 b2 c2 :
  res_regular (T_spatial_add s1 l1 s2 l2 a1 b1 c1 a2 b2 c2) ->
  den3 (T_spatial_add s1 l1 s2 l2 a1 b1 c1 a2 b2 c2)
  = Some (sx s1 a1 b1 + sx s2 a2 b2, sy s1 a1 b1 + sy s2 a2 b2, sz s1 l1 a1 b1 c1 + sz s2 l2 a2 b2 c2).
Proof.
  destruct s1, l1, s2, l2; vunfold; runfold; cbn [res_regular den3 sx sy sz srho pos_az]; intros Hreg;
  (destruct Hreg as [Hreg|Hreg]; [try discriminate|]); norm; try reflexivity.
  all: try ring3.
  all: roundtrips Hreg; try polar_add; try reflexivity.
Qed.

Ltac polar_sub :=
  match goal with |- context [rectify (?p1 + atan2 (?r2 * sin (?p2 - ?p1 + PI)) (?r1 + ?r2 * cos (?p2 - ?p1 + PI)))] =>
    let Hc := fresh "Hc" in let Hs := fresh "Hs" in
    destruct (polar_add_correct r1 p1 r2 (p2 + PI)) as [Hc Hs]; cbv zeta in Hc, Hs;
    replace (p2 + PI - p1) with (p2 - p1 + PI) in Hc, Hs by ring;
    rewrite ?Hc, ?Hs, ?cos_plus, ?sin_plus, ?cos_PI, ?sin_PI end.

Lemma subtract_spec3 s1 l1 s2 l2 a1 b1 c1 a2 b2 c2 :
  res_regular (T_spatial_subtract s1 l1 s2 l2 a1 b1 c1 a2 b2 c2) ->
  den3 (T_spatial_subtract s1 l1 s2 l2 a1 b1 c1 a2 b2 c2)
  = Some (sx s1 a1 b1 - sx s2 a2 b2, sy s1 a1 b1 - sy s2 a2 b2, sz s1 l1 a1 b1 c1 - sz s2 l2 a2 b2 c2).
Proof.
  destruct s1, l1, s2, l2; vunfold; runfold; cbn [res_regular den3 sx sy sz srho pos_az]; intros Hreg;
  (destruct Hreg as [Hreg|Hreg]; [try discriminate|]); norm; try reflexivity.
  all: try ring3.
  all: roundtrips Hreg; try polar_sub; try reflexivity.
  all: try ring3.
Qed.

Lemma cross_spec s1 l1 s2 l2 a1 b1 c1 a2 b2 c2 :
  let x1 := sx s1 a1 b1 in let y1 := sy s1 a1 b1 in let z1 := sz s1 l1 a1 b1 c1 in
  let x2 := sx s2 a2 b2 in let y2 := sy s2 a2 b2 in let z2 := sz s2 l2 a2 b2 c2 in
  res_regular (T_spatial_cross s1 l1 s2 l2 a1 b1 c1 a2 b2 c2) ->
  den3 (T_spatial_cross s1 l1 s2 l2 a1 b1 c1 a2 b2 c2)
  = Some (y1 * z2 - z1 * y2, z1 * x2 - x1 * z2, x1 * y2 - y1 * x2).
Proof.
  cbv zeta.
  destruct s1, l1, s2, l2; vunfold; runfold; cbn [res_regular den3 sx sy sz srho pos_az]; intros Hreg;
  (destruct Hreg as [Hreg|Hreg]; [try discriminate|]); norm; try reflexivity.
  all: try ring3.
Qed.

(* ---- scale ---- *)
Lemma sign_cases f : (0 < f /\ Rsign f = 1 /\ Rabs f = f) \/ (f < 0 /\ Rsign f = -1 /\ Rabs f = - f) \/ (f = 0 /\ Rsign f = 0 /\ Rabs f = 0).
Proof.
  unfold Rsign. destruct (Rlt_dec 0 f); [left; rewrite Rabs_right by lra; auto|].
  destruct (Rlt_dec f 0); [right; left; rewrite Rabs_left by lra; auto | right; right; assert (f = 0) by lra; subst; rewrite Rabs_R0; auto].
Qed.

Lemma cot_pi_minus t : cos (PI - t) * / sin (PI - t) = - (cos t * / sin t).
Proof.
  rewrite cos_minus, sin_minus, cos_PI, sin_PI.
  replace (-1 * cos t + 0 * sin t) with (- cos t) by ring. replace (0 * cos t - -1 * sin t) with (sin t) by ring. ring.
Qed.

Lemma sqrt_scaled a b f : sqrt (a * f * (a * f) + b * f * (b * f)) = sqrt (a * a + b * b) * Rabs f.
Proof.
  replace (a * f * (a * f) + b * f * (b * f)) with ((a * a + b * b) * (f * f)) by ring.
  rewrite sqrt_mult_alt by nra. f_equal. rewrite <- (sqrt_square (Rabs f)) by apply Rabs_pos.
  f_equal. unfold Rabs. destruct (Rcase_abs f); ring.
Qed.
Lemma sinh_neg x : sinh (- x) = - sinh x.
Proof. unfold sinh. rewrite Ropp_involutive. field. Qed.
Lemma rect_cos p : cos (rectify p) = cos p. Proof. apply rectify_trig. Qed.
Lemma rect_sin p : sin (rectify p) = sin p. Proof. apply rectify_trig. Qed.

Lemma scale_spec3 s l f a b c : canon_lg l c -> f <> 0 ->
  den3 (T_spatial_scale s l f a b c) = Some (sx s a b * f, sy s a b * f, sz s l a b c * f).
Proof.
  intros Hl Hf.
  destruct (sign_cases f) as [[H0 [Hs Ha]]|[[H0 [Hs Ha]]|[H0 _]]]; [| |contradiction];
  destruct s, l; vunfold; runfold; cbn [den3 sx sy sz srho canon_lg] in *; norm; rewrite ?Hs, ?sqrt_scaled, ?Ha, ?rect_cos, ?rect_sin;
  try replace (c + / 2 * (1 - 1) * PI) with c by field;
  try replace (-1 * / 2 * (1 - 1) * PI) with 0 by field; rewrite ?Rplus_0_r;
  try replace (c + / 2 * (-1 - 1) * PI) with (c - PI) by field;
  try replace (-1 * / 2 * (-1 - 1) * PI) with PI by field;
  try replace (c * 1) with c by ring; try replace (c * -1) with (- c) by ring;
  rewrite ?sinh_neg, ?cos_plus, ?sin_plus, ?cos_PI, ?sin_PI;
  try (rewrite (Rabs_right c) by lra); try (rewrite (Rabs_left (c - PI)) by lra; replace (- (c - PI)) with (PI - c) by ring; rewrite cot_pi_minus);
  try ring3.
Qed.

(* ---- operations returning Cartesian results: commuting square with the all-Cartesian variant ---- *)
Ltac square3 := vunfold; runfold; cbn [den3 numr sx sy sz srho]; norm; first [reflexivity | ring3 | (f_equal; ring)].

Lemma rotateX_square s l ang a b c :
  den3 (T_spatial_rotateX s l ang a b c) = den3 (T_spatial_rotateX XY LZ ang (sx s a b) (sy s a b) (sz s l a b c)).
Proof. destruct s, l; square3. Qed.
Lemma rotateY_square s l ang a b c :
  den3 (T_spatial_rotateY s l ang a b c) = den3 (T_spatial_rotateY XY LZ ang (sx s a b) (sy s a b) (sz s l a b c)).
Proof. destruct s, l; square3. Qed.
Lemma rotate_axis_square s1 l1 s2 l2 ang a1 b1 c1 a2 b2 c2 :
  den3 (T_spatial_rotate_axis s1 l1 s2 l2 ang a1 b1 c1 a2 b2 c2)
  = den3 (T_spatial_rotate_axis XY LZ XY LZ ang (sx s1 a1 b1) (sy s1 a1 b1) (sz s1 l1 a1 b1 c1) (sx s2 a2 b2) (sy s2 a2 b2) (sz s2 l2 a2 b2 c2)).
Proof. destruct s1, l1, s2, l2; square3. Qed.
Lemma rotate_quaternion_square s l u i j k a b c :
  den3 (T_spatial_rotate_quaternion s l u i j k a b c)
  = den3 (T_spatial_rotate_quaternion XY LZ u i j k (sx s a b) (sy s a b) (sz s l a b c)).
Proof. destruct s, l; square3. Qed.
Lemma rotate_euler_square s l o phi theta psi a b c :
  den3 (T_spatial_rotate_euler s l o phi theta psi a b c)
  = den3 (T_spatial_rotate_euler XY LZ o phi theta psi (sx s a b) (sy s a b) (sz s l a b c)).
Proof. destruct s, l, o; square3. Qed.
Lemma transform3D_square s l xx xy xz yx yy yz zx zy zz a b c :
  den3 (T_spatial_transform3D s l xx xy xz yx yy yz zx zy zz a b c)
  = den3 (T_spatial_transform3D XY LZ xx xy xz yx yy yz zx zy zz (sx s a b) (sy s a b) (sz s l a b c)).
Proof. destruct s, l; square3. Qed.

(* ---- composite scalars are the documented combinations of the accessors, in every pairing ---- *)
Definition lift2 (f : R -> R -> R) (a b : option R) := match a, b with Some u, Some v => Some (f u v) | _, _ => None end.
Definition lift1 (f : R -> R) (a : option R) := match a with Some u => Some (f u) | _ => None end.
Ltac defn := vunfold; runfold; cbn [numr lift2 lift1]; reflexivity.

Lemma deltaeta_def s1 l1 s2 l2 a1 b1 c1 a2 b2 c2 :
  numr (T_spatial_deltaeta s1 l1 s2 l2 a1 b1 c1 a2 b2 c2)
  = lift2 Rminus (numr (T_spatial_eta s1 l1 a1 b1 c1)) (numr (T_spatial_eta s2 l2 a2 b2 c2)).
Proof. destruct s1, l1, s2, l2; defn. Qed.
Lemma deltaR2_def s1 l1 s2 l2 a1 b1 c1 a2 b2 c2 :
  numr (T_spatial_deltaR2 s1 l1 s2 l2 a1 b1 c1 a2 b2 c2)
  = lift2 (fun p e => p * p + e * e) (numr (T_planar_deltaphi s1 s2 a1 b1 a2 b2))
                                     (numr (T_spatial_deltaeta s1 l1 s2 l2 a1 b1 c1 a2 b2 c2)).
Proof. destruct s1, l1, s2, l2; defn. Qed.
Lemma deltaR_def s1 l1 s2 l2 a1 b1 c1 a2 b2 c2 :
  numr (T_spatial_deltaR s1 l1 s2 l2 a1 b1 c1 a2 b2 c2)
  = lift1 sqrt (numr (T_spatial_deltaR2 s1 l1 s2 l2 a1 b1 c1 a2 b2 c2)).
Proof. destruct s1, l1, s2, l2; defn. Qed.
Lemma deltaangle_def s1 l1 s2 l2 a1 b1 c1 a2 b2 c2 :
  numr (T_spatial_deltaangle s1 l1 s2 l2 a1 b1 c1 a2 b2 c2)
  = match numr (T_spatial_dot s1 l1 s2 l2 a1 b1 c1 a2 b2 c2), numr (T_spatial_mag s1 l1 a1 b1 c1), numr (T_spatial_mag s2 l2 a2 b2 c2) with
    | Some d, Some m1, Some m2 => Some (acos (Rmax (-1 / 1) (Rmin (1 / 1) (d / m1 / m2)))) | _, _, _ => None end.
Proof. destruct s1, l1, s2, l2; defn. Qed.

