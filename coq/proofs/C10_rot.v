(* C10: rotations — the Cartesian variants are the documented proper rotations (over R). *)
From Coq Require Import Reals Lra Psatz Nsatz.
From VP Require Import Lib RLib Trig Conv Spec Compute Tables Unfold Spec_planar Spec_spatial1 Spec_spatial2.
Open Scope R_scope.

Definition V3 := (R * R * R)%type.
Definition Rx (a : R) (v : V3) : V3 := let '(x, y, z) := v in (x, cos a * y - sin a * z, sin a * y + cos a * z).
Definition Ry (a : R) (v : V3) : V3 := let '(x, y, z) := v in (cos a * x + sin a * z, y, - sin a * x + cos a * z).
Definition Rz (a : R) (v : V3) : V3 := let '(x, y, z) := v in (cos a * x - sin a * y, sin a * x + cos a * y, z).
Definition dot3 (u v : V3) : R := let '(a, b, c) := u in let '(x, y, z) := v in a * x + b * y + c * z.
Definition triple (u v w : V3) : R :=
  let '(a, b, c) := u in let '(x, y, z) := v in let '(p, q, r) := w in
  a * (y * r - z * q) - b * (x * r - z * p) + c * (x * q - y * p).
Inductive axis := AX | AY | AZ.
Definition Rax (k : axis) := match k with AX => Rx | AY => Ry | AZ => Rz end.

Definition proper (f : V3 -> V3) : Prop :=
  (forall u v, dot3 (f u) (f v) = dot3 u v) /\ (forall u v w, triple (f u) (f v) (f w) = triple u v w).

Lemma cs1 a : cos a * cos a + sin a * sin a = 1.
Proof. pose proof (sin2_cos2 a) as H. unfold Rsqr in H. lra. Qed.

Lemma Rax_proper k a : proper (Rax k a).
Proof.
  pose proof (cs1 a) as H. set (c := cos a) in *. set (s := sin a) in *.
  split; [intros [[a1 b1] c1] [[a2 b2] c2] | intros [[a1 b1] c1] [[a2 b2] c2] [[a3 b3] c3]];
  destruct k; cbn [Rax Rx Ry Rz dot3 triple]; fold c s; nsatz.
Qed.

Lemma proper_compose f g : proper f -> proper g -> proper (fun v => f (g v)).
Proof. intros [F1 F2] [G1 G2]. split; intros; [rewrite F1, G1 | rewrite F2, G2]; reflexivity. Qed.

Lemma t3 (a b c a' b' c' : R) : a = a' -> b = b' -> c = c' -> (a, b, c) = (a', b', c').
Proof. intros; subst; reflexivity. Qed.

Lemma Rax_add k a b v : Rax k a (Rax k b v) = Rax k (a + b) v.
Proof.
  destruct v as [[x y] z]. destruct k; cbn [Rax Rx Ry Rz]; rewrite cos_plus, sin_plus; apply t3; ring.
Qed.
Lemma Rax_0 k v : Rax k 0 v = v.
Proof. destruct v as [[x y] z]. destruct k; cbn [Rax Rx Ry Rz]; rewrite cos_0, sin_0; apply t3; ring. Qed.
Lemma Rax_inverse k a v : Rax k (- a) (Rax k a v) = v.
Proof. rewrite Rax_add. replace (- a + a) with 0 by ring. apply Rax_0. Qed.

(* the generated Cartesian variants ARE these rotations *)
Lemma rotateX_is_Rx (a x y z : R) : den3 (T_spatial_rotateX XY LZ a x y z) = Some (Rx a (x, y, z)).
Proof. vunfold; runfold; cbn [den3 sx sy sz Rx]. reflexivity. Qed.
Lemma rotateY_is_Ry (a x y z : R) : den3 (T_spatial_rotateY XY LZ a x y z) = Some (Ry a (x, y, z)).
Proof. vunfold; runfold; cbn [den3 sx sy sz Ry]. apply some3; ring. Qed.
Lemma rotateZ_is_Rz (a x y z : R) :
  match den2 (T_planar_rotateZ XY a x y) with Some (x', y') => (x', y', z) = Rz a (x, y, z) | None => False end.
Proof. vunfold; runfold; cbn [den2 sx sy Rz]. reflexivity. Qed.

(* Euler angles: order "abc" is R_a(-psi) o R_b(-theta) o R_c(-phi)  (Wikipedia matrices, ROOT's sign and argument convention) *)
Definition euler_axes (o : eorder) : axis * axis * axis :=
  match o with
  | E_xzx => (AX, AZ, AX) | E_xyx => (AX, AY, AX) | E_yxy => (AY, AX, AY) | E_yzy => (AY, AZ, AY)
  | E_zyz => (AZ, AY, AZ) | E_zxz => (AZ, AX, AZ) | E_xzy => (AX, AZ, AY) | E_xyz => (AX, AY, AZ)
  | E_yxz => (AY, AX, AZ) | E_yzx => (AY, AZ, AX) | E_zyx => (AZ, AY, AX) | E_zxy => (AZ, AX, AY) end.
Definition euler_spec (o : eorder) (phi theta psi : R) (v : V3) : V3 :=
  let '(a, b, c) := euler_axes o in Rax a (- psi) (Rax b (- theta) (Rax c (- phi) v)).

Lemma euler_is_product o (phi theta psi x y z : R) :
  den3 (T_spatial_rotate_euler XY LZ o phi theta psi x y z) = Some (euler_spec o phi theta psi (x, y, z)).
Proof.
  destruct o; vunfold; runfold; cbn [den3 sx sy sz euler_spec euler_axes Rax Rx Ry Rz];
  rewrite ?cos_neg, ?sin_neg; apply some3; ring.
Qed.

Lemma euler_proper o phi theta psi : proper (euler_spec o phi theta psi).
Proof.
  unfold euler_spec. destruct (euler_axes o) as [[a b] c].
  apply (proper_compose (Rax a (- psi))); [apply Rax_proper|].
  apply (proper_compose (Rax b (- theta))); apply Rax_proper.
Qed.

(* ---- rotate_axis (Rodrigues) and rotate_quaternion ---- *)
Definition Raxis (ux uy uz a : R) (v : V3) : V3 :=
  let '(x, y, z) := v in let c := cos a in let s := sin a in let c1 := 1 - c in
  ((c + ux * ux * c1) * x + (ux * uy * c1 - uz * s) * y + (ux * uz * c1 + uy * s) * z,
   (ux * uy * c1 + uz * s) * x + (c + uy * uy * c1) * y + (uy * uz * c1 - ux * s) * z,
   (ux * uz * c1 - uy * s) * x + (uy * uz * c1 + ux * s) * y + (c + uz * uz * c1) * z).

Lemma rotate_axis_is_Raxis (a x1 y1 z1 x y z : R) :
  let n := sqrt (x1 * x1 + y1 * y1 + z1 * z1) in
  den3 (T_spatial_rotate_axis XY LZ XY LZ a x1 y1 z1 x y z) = Some (Raxis (x1 / n) (y1 / n) (z1 / n) a (x, y, z)).
Proof. vunfold; runfold; cbn [den3 sx sy sz Raxis]. cbv zeta. unfold Rdiv; rewrite ?Rinv_1, ?Rmult_1_r. apply some3; ring. Qed.

Lemma Raxis_proper ux uy uz a : ux * ux + uy * uy + uz * uz = 1 -> proper (Raxis ux uy uz a).
Proof.
  intros Hu. pose proof (cs1 a) as H. set (c := cos a) in *. set (s := sin a) in *.
  split; [intros [[a1 b1] c1] [[a2 b2] c2] | intros [[a1 b1] c1] [[a2 b2] c2] [[a3 b3] c3]];
  cbn [Raxis dot3 triple]; cbv zeta; fold c s; nsatz.
Qed.

Lemma unit_axis x1 y1 z1 : 0 < x1 * x1 + y1 * y1 + z1 * z1 ->
  let n := sqrt (x1 * x1 + y1 * y1 + z1 * z1) in x1 / n * (x1 / n) + y1 / n * (y1 / n) + z1 / n * (z1 / n) = 1.
Proof.
  intros H n. assert (Hn : 0 < n) by (apply sqrt_lt_R0; exact H).
  assert (Hq : n * n = x1 * x1 + y1 * y1 + z1 * z1) by (apply sqrt_sqrt; lra).
  replace (x1 / n * (x1 / n) + y1 / n * (y1 / n) + z1 / n * (z1 / n)) with ((x1 * x1 + y1 * y1 + z1 * z1) / (n * n)) by (field; lra).
  rewrite Hq. field. lra.
Qed.

(* about a coordinate axis it is rotateX / rotateY / rotateZ; the axis length is irrelevant *)
Lemma Raxis_ex a v : Raxis 1 0 0 a v = Rx a v.
Proof. destruct v as [[x y] z]. cbn [Raxis Rx]. cbv zeta. apply t3; ring. Qed.
Lemma Raxis_ey a v : Raxis 0 1 0 a v = Ry a v.
Proof. destruct v as [[x y] z]. cbn [Raxis Ry]. cbv zeta. apply t3; ring. Qed.
Lemma Raxis_ez a v : Raxis 0 0 1 a v = Rz a v.
Proof. destruct v as [[x y] z]. cbn [Raxis Rz]. cbv zeta. apply t3; ring. Qed.

Lemma axis_length_irrelevant (k a x1 y1 z1 x y z : R) : 0 < k ->
  den3 (T_spatial_rotate_axis XY LZ XY LZ a (k * x1) (k * y1) (k * z1) x y z)
  = den3 (T_spatial_rotate_axis XY LZ XY LZ a x1 y1 z1 x y z).
Proof.
  intros Hk. rewrite !rotate_axis_is_Raxis. cbv zeta.
  replace (k * x1 * (k * x1) + k * y1 * (k * y1) + k * z1 * (k * z1)) with ((k * k) * (x1 * x1 + y1 * y1 + z1 * z1)) by ring.
  rewrite sqrt_mult_alt, sqrt_square by nra.
  destruct (Req_dec (sqrt (x1 * x1 + y1 * y1 + z1 * z1)) 0) as [E|E].
  - rewrite E, Rmult_0_r. unfold Rdiv. rewrite Rinv_0, !Rmult_0_r. reflexivity.
  - replace (k * x1 / (k * sqrt (x1 * x1 + y1 * y1 + z1 * z1))) with (x1 / sqrt (x1 * x1 + y1 * y1 + z1 * z1)) by (field; lra).
    replace (k * y1 / (k * sqrt (x1 * x1 + y1 * y1 + z1 * z1))) with (y1 / sqrt (x1 * x1 + y1 * y1 + z1 * z1)) by (field; lra).
    replace (k * z1 / (k * sqrt (x1 * x1 + y1 * y1 + z1 * z1))) with (z1 / sqrt (x1 * x1 + y1 * y1 + z1 * z1)) by (field; lra).
    reflexivity.
Qed.

Lemma rotate_axis_about_ex (k a x y z : R) : 0 < k ->
  den3 (T_spatial_rotate_axis XY LZ XY LZ a k 0 0 x y z) = Some (Rx a (x, y, z)).
Proof.
  intros Hk. rewrite rotate_axis_is_Raxis. cbv zeta.
  replace (k * k + 0 * 0 + 0 * 0) with (k * k) by ring. rewrite sqrt_square by lra.
  replace (k / k) with 1 by (field; lra). replace (0 / k) with 0 by (field; lra). rewrite Raxis_ex. reflexivity.
Qed.
Lemma rotate_axis_about_ey (k a x y z : R) : 0 < k ->
  den3 (T_spatial_rotate_axis XY LZ XY LZ a 0 k 0 x y z) = Some (Ry a (x, y, z)).
Proof.
  intros Hk. rewrite rotate_axis_is_Raxis. cbv zeta.
  replace (0 * 0 + k * k + 0 * 0) with (k * k) by ring. rewrite sqrt_square by lra.
  replace (k / k) with 1 by (field; lra). replace (0 / k) with 0 by (field; lra). rewrite Raxis_ey. reflexivity.
Qed.
Lemma rotate_axis_about_ez (k a x y z : R) : 0 < k ->
  den3 (T_spatial_rotate_axis XY LZ XY LZ a 0 0 k x y z) = Some (Rz a (x, y, z)).
Proof.
  intros Hk. rewrite rotate_axis_is_Raxis. cbv zeta.
  replace (0 * 0 + 0 * 0 + k * k) with (k * k) by ring. rewrite sqrt_square by lra.
  replace (k / k) with 1 by (field; lra). replace (0 / k) with 0 by (field; lra). rewrite Raxis_ez. reflexivity.
Qed.

(* additive about a fixed axis, inverted by the opposite angle *)
Lemma Raxis_add ux uy uz a b v : ux * ux + uy * uy + uz * uz = 1 ->
  Raxis ux uy uz a (Raxis ux uy uz b v) = Raxis ux uy uz (a + b) v.
Proof.
  intros Hu. destruct v as [[x y] z]. cbn [Raxis]. cbv zeta. rewrite cos_plus, sin_plus.
  pose proof (cs1 a) as Ha. pose proof (cs1 b) as Hb.
  set (ca := cos a) in *. set (sa := sin a) in *. set (cb := cos b) in *. set (sb := sin b) in *.
  apply t3; nsatz.
Qed.

(* quaternion (cos(a/2), n sin(a/2)) is the rotation by a about the unit vector n *)
Lemma quaternion_is_axis (h nx ny nz x y z : R) : nx * nx + ny * ny + nz * nz = 1 ->
  den3 (T_spatial_rotate_quaternion XY LZ (cos h) (nx * sin h) (ny * sin h) (nz * sin h) x y z)
  = Some (Raxis nx ny nz (2 * h) (x, y, z)).
Proof.
  intros Hn. vunfold; runfold; cbn [den3 sx sy sz Raxis]. cbv zeta. unfold Rdiv; rewrite ?Rinv_1, ?Rmult_1_r.
  rewrite cos_2a, sin_2a. pose proof (cs1 h) as Hh. set (c := cos h) in *. set (s := sin h) in *.
  apply some3; nsatz.
Qed.

(* a unit quaternion acts as a proper rotation *)
Definition Rquat (u i j k : R) (v : V3) : V3 :=
  let '(x, y, z) := v in
  ((u * u + i * i - j * j - k * k) * x + 2 * (i * j - u * k) * y + 2 * (u * j + i * k) * z,
   2 * (i * j + u * k) * x + (u * u - i * i + j * j - k * k) * y + 2 * (j * k - u * i) * z,
   2 * (i * k - u * j) * x + 2 * (j * k + u * i) * y + (u * u - i * i - j * j + k * k) * z).
Lemma quaternion_is_Rquat (u i j k x y z : R) :
  den3 (T_spatial_rotate_quaternion XY LZ u i j k x y z) = Some (Rquat u i j k (x, y, z)).
Proof. vunfold; runfold; cbn [den3 sx sy sz Rquat]. apply some3; field. Qed.
Lemma Rquat_proper u i j k : u * u + i * i + j * j + k * k = 1 -> proper (Rquat u i j k).
Proof.
  intros H. split; [intros [[a1 b1] c1] [[a2 b2] c2] | intros [[a1 b1] c1] [[a2 b2] c2] [[a3 b3] c3]];
  cbn [Rquat dot3 triple]; nsatz.
Qed.
