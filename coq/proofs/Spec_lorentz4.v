(* tau + tau addition for the 31 of 36 pairings whose spatial sum is Cartesian (continuation of Spec_lorentz.v). *)
From Coq Require Import Reals Lra Psatz.
From VP Require Import Lib RLib Trig Conv Spec Compute Tables Unfold Spec_planar Spec_spatial1 Spec_spatial2 Spec_lorentz Spec_lorentz2.
Open Scope R_scope.

(* tau + tau: spatial part as in 3D; the proper time of the sum is recomputed from t1 + t2 and |p1 + p2|^2 in the result's system *)
Definition res3 (r : @res RLib) : option (az * lg * R * R * R) :=
  match r with RAzL s l a b c | RAzLN s l a b c => Some (s, l, a, b, c) | _ => None end.

Lemma add_tt_struct s1 l1 s2 l2 a1 b1 c1 d1 a2 b2 c2 d2 :
  den4 (T_lorentz_add s1 l1 TTau s2 l2 TTau a1 b1 c1 d1 a2 b2 c2 d2)
  = match res3 (T_spatial_add s1 l1 s2 l2 a1 b1 c1 a2 b2 c2), numr (T_lorentz_t s1 l1 TTau a1 b1 c1 d1), numr (T_lorentz_t s2 l2 TTau a2 b2 c2 d2) with
    | Some (s', l', a', b', c'), Some u1, Some u2 =>
        match numr (T_lorentz_tau s' l' TT a' b' c' (u1 + u2)) with
        | Some tau' => Some (sx s' a' b', sy s' a' b', sz s' l' a' b' c', st s' l' TTau a' b' c' tau')
        | None => None end
    | _, _, _ => None end.
Proof. destruct s1, l1, s2, l2; vunfold; runfold; reflexivity. Qed.

Lemma res3_den3 r s l a b c : res3 r = Some (s, l, a, b, c) -> den3 r = Some (sx s a b, sy s a b, sz s l a b c).
Proof. destruct r; cbn; intros H; try discriminate; injection H as -> -> -> -> ->; reflexivity. Qed.
Lemma res3_regular_cart r a b c : res3 r = Some (XY, LZ, a, b, c) -> res_regular r.
Proof. destruct r; cbn; intros H; try discriminate; injection H as -> -> _ _ _; left; reflexivity. Qed.

(* forward causal vectors add to a forward causal vector: (t1 + t2)^2 >= |p1 + p2|^2 *)
Lemma causal_sum x1 y1 z1 u1 x2 y2 z2 u2 : 0 <= u1 -> 0 <= u2 ->
  x1 * x1 + y1 * y1 + z1 * z1 <= u1 * u1 -> x2 * x2 + y2 * y2 + z2 * z2 <= u2 * u2 ->
  (x1 + x2) * (x1 + x2) + (y1 + y2) * (y1 + y2) + (z1 + z2) * (z1 + z2) <= (u1 + u2) * (u1 + u2).
Proof.
  intros H1 H2 P1 P2.
  assert (CS : (x1 * x2 + y1 * y2 + z1 * z2) * (x1 * x2 + y1 * y2 + z1 * z2) <= (x1 * x1 + y1 * y1 + z1 * z1) * (x2 * x2 + y2 * y2 + z2 * z2)).
  { assert (Hid : (x1 * x1 + y1 * y1 + z1 * z1) * (x2 * x2 + y2 * y2 + z2 * z2) - (x1 * x2 + y1 * y2 + z1 * z2) * (x1 * x2 + y1 * y2 + z1 * z2)
                  = (x1 * y2 - y1 * x2) * (x1 * y2 - y1 * x2) + (x1 * z2 - z1 * x2) * (x1 * z2 - z1 * x2) + (y1 * z2 - z1 * y2) * (y1 * z2 - z1 * y2)) by ring.
    pose proof (Rle_0_sqr (x1 * y2 - y1 * x2)) as Q1. pose proof (Rle_0_sqr (x1 * z2 - z1 * x2)) as Q2. pose proof (Rle_0_sqr (y1 * z2 - z1 * y2)) as Q3.
    unfold Rsqr in *. lra. }
  assert (Hd : x1 * x2 + y1 * y2 + z1 * z2 <= u1 * u2).
  { destruct (Rle_dec (x1 * x2 + y1 * y2 + z1 * z2) (u1 * u2)); [assumption|]. exfalso.
    assert (0 <= u1 * u2) by nra.
    assert ((x1 * x2 + y1 * y2 + z1 * z2) * (x1 * x2 + y1 * y2 + z1 * z2) > (u1 * u2) * (u1 * u2)) by nra.
    assert ((x1 * x1 + y1 * y1 + z1 * z1) * (x2 * x2 + y2 * y2 + z2 * z2) <= (u1 * u1) * (u2 * u2)).
    { apply Rmult_le_compat; nra. }
    nra. }
  nra.
Qed.

Lemma st_tau_causal s l a b c d : 0 <= d -> 0 <= st s l TTau a b c d /\ smag2 s l a b c <= st s l TTau a b c d * st s l TTau a b c d.
Proof.
  intros Hd. cbn [st]. pose proof (smag2_nonneg s l a b c). split; [apply sqrt_pos|]. rewrite sqrt_sqrt by nra. nra.
Qed.

(* tau + tau for the pairings whose spatial sum is returned in Cartesian coordinates *)
Lemma add_spec4_tau_tau_cart s1 l1 s2 l2 a1 b1 c1 d1 a2 b2 c2 d2 x' y' z' :
  rep4 s1 l1 TTau a1 b1 c1 d1 -> rep4 s2 l2 TTau a2 b2 c2 d2 ->
  res3 (T_spatial_add s1 l1 s2 l2 a1 b1 c1 a2 b2 c2) = Some (XY, LZ, x', y', z') ->
  den4 (T_lorentz_add s1 l1 TTau s2 l2 TTau a1 b1 c1 d1 a2 b2 c2 d2)
  = Some (sx s1 a1 b1 + sx s2 a2 b2, sy s1 a1 b1 + sy s2 a2 b2, sz s1 l1 a1 b1 c1 + sz s2 l2 a2 b2 c2,
          st s1 l1 TTau a1 b1 c1 d1 + st s2 l2 TTau a2 b2 c2 d2).
Proof.
  intros H1 H2 Hr. rewrite add_tt_struct, Hr, !t_spec by assumption.
  pose proof (res3_den3 _ _ _ _ _ _ Hr) as Hd3. rewrite add_spec3 in Hd3 by (eapply res3_regular_cart; exact Hr).
  cbn [sx sy sz] in Hd3. injection Hd3 as Ex Ey Ez.
  destruct H1 as [_ Ht1], H2 as [_ Ht2]. cbn [canon_tm] in Ht1, Ht2.
  destruct (st_tau_causal s1 l1 a1 b1 c1 d1 Ht1) as [U1 C1]. destruct (st_tau_causal s2 l2 a2 b2 c2 d2 Ht2) as [U2 C2].
  set (u1 := st s1 l1 TTau a1 b1 c1 d1) in *. set (u2 := st s2 l2 TTau a2 b2 c2 d2) in *.
  unfold smag2 in C1, C2.
  pose proof (causal_sum _ _ _ u1 _ _ _ u2 U1 U2 C1 C2) as HC. rewrite Ex, Ey, Ez in HC.
  assert (R4 : rep4 XY LZ TT x' y' z' (u1 + u2)).
  { split; [split; [exact I | split; [exact I | intros Hc; exfalso; apply Hc; reflexivity]] | exact I]. }
  rewrite (tau_spec XY LZ TT x' y' z' (u1 + u2) R4) by (cbn [st]; unfold smag2; cbn [sx sy sz]; lra).
  cbn [st sx sy sz]. unfold smag2. cbn [sx sy sz].
  rewrite sqrt_sqrt by lra.
  replace ((u1 + u2) * (u1 + u2) - (x' * x' + y' * y' + z' * z') + (x' * x' + y' * y' + z' * z')) with ((u1 + u2) * (u1 + u2)) by ring.
  rewrite sqrt_square by lra. rewrite <- Ex, <- Ey, <- Ez. reflexivity.
Qed.

(* 31 of the 36 spatial pairings return the sum in Cartesian coordinates: all but the five same-system polar ones *)
Lemma add_result_cartesian s1 l1 s2 l2 a1 b1 c1 a2 b2 c2 : (s1, l1) <> (s2, l2) \/ (s1 = XY /\ l1 = LZ) ->
  exists x' y' z', res3 (T_spatial_add s1 l1 s2 l2 a1 b1 c1 a2 b2 c2) = Some (XY, LZ, x', y', z').
Proof.
  intros H. destruct s1, l1, s2, l2; try (destruct H as [H|[H1 H2]]; [exfalso; apply H; reflexivity | discriminate]);
    vunfold; runfold; cbn [res3]; do 3 eexists; reflexivity.
Qed.

Lemma add_spec4_tau_tau s1 l1 s2 l2 a1 b1 c1 d1 a2 b2 c2 d2 : (s1, l1) <> (s2, l2) \/ (s1 = XY /\ l1 = LZ) ->
  rep4 s1 l1 TTau a1 b1 c1 d1 -> rep4 s2 l2 TTau a2 b2 c2 d2 ->
  den4 (T_lorentz_add s1 l1 TTau s2 l2 TTau a1 b1 c1 d1 a2 b2 c2 d2)
  = Some (sx s1 a1 b1 + sx s2 a2 b2, sy s1 a1 b1 + sy s2 a2 b2, sz s1 l1 a1 b1 c1 + sz s2 l2 a2 b2 c2,
          st s1 l1 TTau a1 b1 c1 d1 + st s2 l2 TTau a2 b2 c2 d2).
Proof.
  intros Hp H1 H2. destruct (add_result_cartesian s1 l1 s2 l2 a1 b1 c1 a2 b2 c2 Hp) as [x' [y' [z' Hr]]].
  eapply add_spec4_tau_tau_cart; eassumption.
Qed.
