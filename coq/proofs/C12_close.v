(* C12, part 3: isclose over the reals. *)
From Coq Require Import Reals Bool Lra.
From VP Require Import Lib RLib BoolLaws Compute Tables Unfold.
Open Scope R_scope.

Definition rb (r : @res RLib) : option bool := match r with RBool b => Some b | _ => None end.

Ltac close_refl Hr Ha := vunfold; runfold; cbn [rb]; rewrite ?Risclose_refl by assumption; reflexivity.

Lemma planar_isclose_refl s rtol atol en a b : 0 <= rtol -> 0 <= atol ->
  rb (T_planar_isclose s s rtol atol en a b a b) = Some true.
Proof. intros Hr Ha; destruct s; close_refl Hr Ha. Qed.
Lemma spatial_isclose_refl s l rtol atol en a b c : 0 <= rtol -> 0 <= atol ->
  rb (T_spatial_isclose s l s l rtol atol en a b c a b c) = Some true.
Proof. intros Hr Ha; destruct s, l; close_refl Hr Ha. Qed.
Lemma lorentz_isclose_refl s l t rtol atol en a b c d : 0 <= rtol -> 0 <= atol ->
  rb (T_lorentz_isclose s l t s l t rtol atol en a b c d a b c d) = Some true.
Proof. intros Hr Ha; destruct s, l, t; close_refl Hr Ha. Qed.

(* same-system characterisation *)
Lemma planar_isclose_same s rtol atol en a1 b1 a2 b2 :
  rb (T_planar_isclose s s rtol atol en a1 b1 a2 b2)
  = Some (Risclose a1 a2 rtol atol && Risclose b1 b2 rtol atol).
Proof. destruct s; vunfold; runfold; reflexivity. Qed.
Lemma spatial_isclose_same s l rtol atol en a1 b1 c1 a2 b2 c2 :
  rb (T_spatial_isclose s l s l rtol atol en a1 b1 c1 a2 b2 c2)
  = Some (Risclose a1 a2 rtol atol && Risclose b1 b2 rtol atol && Risclose c1 c2 rtol atol).
Proof. destruct s, l; vunfold; runfold; reflexivity. Qed.
Lemma lorentz_isclose_same s l t rtol atol en a1 b1 c1 d1 a2 b2 c2 d2 :
  rb (T_lorentz_isclose s l t s l t rtol atol en a1 b1 c1 d1 a2 b2 c2 d2)
  = Some (Risclose a1 a2 rtol atol && Risclose b1 b2 rtol atol && Risclose c1 c2 rtol atol && Risclose d1 d2 rtol atol).
Proof.
  destruct s, l, t; vunfold; runfold; cbn [rb]; f_equal;
  repeat rewrite <- andb_assoc; rewrite andb_comm; repeat rewrite <- andb_assoc; reflexivity.
Qed.

(* equal implies isclose; isclose is monotone in both tolerances *)
Ltac split_and := repeat match goal with H : _ && _ = true |- _ => apply andb_prop in H; destruct H end.
Ltac eq_to_close Hr Ha :=
  vunfold; runfold; cbn [rb]; intros H; injection H as H; split_and; f_equal;
  repeat (apply andb_true_intro; split);
  match goal with |- Risclose ?a ?b _ _ = true =>
    match goal with E : Reqb a b = true |- _ => apply Reqb_true in E; rewrite E; apply Risclose_refl; assumption end end.

Lemma planar_equal_isclose s1 s2 rtol atol en a1 b1 a2 b2 : 0 <= rtol -> 0 <= atol ->
  rb (T_planar_equal s1 s2 a1 b1 a2 b2) = Some true ->
  rb (T_planar_isclose s1 s2 rtol atol en a1 b1 a2 b2) = Some true.
Proof. intros Hr Ha; destruct s1, s2; eq_to_close Hr Ha. Qed.
Lemma spatial_equal_isclose s1 l1 s2 l2 rtol atol en a1 b1 c1 a2 b2 c2 : 0 <= rtol -> 0 <= atol ->
  rb (T_spatial_equal s1 l1 s2 l2 a1 b1 c1 a2 b2 c2) = Some true ->
  rb (T_spatial_isclose s1 l1 s2 l2 rtol atol en a1 b1 c1 a2 b2 c2) = Some true.
Proof. intros Hr Ha; destruct s1, l1, s2, l2; eq_to_close Hr Ha. Qed.
Lemma lorentz_equal_isclose s1 l1 t1 s2 l2 t2 rtol atol en a1 b1 c1 d1 a2 b2 c2 d2 : 0 <= rtol -> 0 <= atol ->
  rb (T_lorentz_equal s1 l1 t1 s2 l2 t2 a1 b1 c1 d1 a2 b2 c2 d2) = Some true ->
  rb (T_lorentz_isclose s1 l1 t1 s2 l2 t2 rtol atol en a1 b1 c1 d1 a2 b2 c2 d2) = Some true.
Proof. intros Hr Ha; destruct s1, l1, t1, s2, l2, t2; eq_to_close Hr Ha. Qed.

Ltac close_mono Hr Ha :=
  vunfold; runfold; cbn [rb]; intros H; injection H as H; split_and; f_equal;
  repeat (apply andb_true_intro; split);
  (eapply Risclose_mono; [exact Hr | exact Ha | eassumption]).

Lemma planar_isclose_mono s1 s2 r1 t1 r2 t2 en a1 b1 a2 b2 : r1 <= r2 -> t1 <= t2 ->
  rb (T_planar_isclose s1 s2 r1 t1 en a1 b1 a2 b2) = Some true ->
  rb (T_planar_isclose s1 s2 r2 t2 en a1 b1 a2 b2) = Some true.
Proof. intros Hr Ha; destruct s1, s2; close_mono Hr Ha. Qed.
Lemma spatial_isclose_mono s1 l1 s2 l2 r1 t1 r2 t2 en a1 b1 c1 a2 b2 c2 : r1 <= r2 -> t1 <= t2 ->
  rb (T_spatial_isclose s1 l1 s2 l2 r1 t1 en a1 b1 c1 a2 b2 c2) = Some true ->
  rb (T_spatial_isclose s1 l1 s2 l2 r2 t2 en a1 b1 c1 a2 b2 c2) = Some true.
Proof. intros Hr Ha; destruct s1, l1, s2, l2; close_mono Hr Ha. Qed.
Lemma lorentz_isclose_mono s1 l1 u1 s2 l2 u2 r1 t1 r2 t2 en a1 b1 c1 d1 a2 b2 c2 d2 : r1 <= r2 -> t1 <= t2 ->
  rb (T_lorentz_isclose s1 l1 u1 s2 l2 u2 r1 t1 en a1 b1 c1 d1 a2 b2 c2 d2) = Some true ->
  rb (T_lorentz_isclose s1 l1 u1 s2 l2 u2 r2 t2 en a1 b1 c1 d1 a2 b2 c2 d2) = Some true.
Proof. intros Hr Ha; destruct s1, l1, u1, s2, l2, u2; close_mono Hr Ha. Qed.
