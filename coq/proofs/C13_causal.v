(* C13, part 2: classification predicates, over the reals, for every signature. *)
From Coq Require Import Reals Lra Psatz Bool.
From VP Require Import Lib RLib Trig Compute Tables Unfold C13_range.
Open Scope R_scope.

(* ---- causal character: with d = v.v (Minkowski self product in the vector's own system) ---- *)
Ltac causal := vunfold; runfold; unfold is_true; cbn [rb rn holds]; split; intros H;
  [ injection H as H; apply Rltb_iff in H; exact H | f_equal; apply Rltb_iff; exact H ].

Lemma timelike_spec s l t tol a b c d :
  is_true (rb (T_lorentz_is_timelike s l t tol a b c d))
  <-> holds (rn (T_lorentz_dot s l t s l t a b c d a b c d)) (fun dd => Rabs tol < dd).
Proof. destruct s, l, t; causal. Qed.
Lemma lightlike_spec s l t tol a b c d :
  is_true (rb (T_lorentz_is_lightlike s l t tol a b c d))
  <-> holds (rn (T_lorentz_dot s l t s l t a b c d a b c d)) (fun dd => Rabs dd < Rabs tol).
Proof. destruct s, l, t; causal. Qed.
Lemma spacelike_spec s l t tol a b c d :
  is_true (rb (T_lorentz_is_spacelike s l t tol a b c d))
  <-> holds (rn (T_lorentz_dot s l t s l t a b c d a b c d)) (fun dd => dd < - Rabs tol).
Proof. destruct s, l, t; causal. Qed.

Lemma dot_self_is_num s l t a b c d : exists dd, rn (T_lorentz_dot s l t s l t a b c d a b c d) = Some dd.
Proof. destruct s, l, t; vunfold; cbn [rn]; eexists; reflexivity. Qed.

Lemma causal_disjoint s l t tol a b c d :
  ~ (is_true (rb (T_lorentz_is_timelike s l t tol a b c d)) /\ is_true (rb (T_lorentz_is_lightlike s l t tol a b c d))) /\
  ~ (is_true (rb (T_lorentz_is_lightlike s l t tol a b c d)) /\ is_true (rb (T_lorentz_is_spacelike s l t tol a b c d))) /\
  ~ (is_true (rb (T_lorentz_is_timelike s l t tol a b c d)) /\ is_true (rb (T_lorentz_is_spacelike s l t tol a b c d))).
Proof.
  rewrite timelike_spec, lightlike_spec, spacelike_spec.
  destruct (dot_self_is_num s l t a b c d) as [dd E]. rewrite E. cbn [holds].
  pose proof (Rabs_pos tol). repeat split; intros [H1 H2];
  unfold Rabs in *; repeat destruct (Rcase_abs _) in *; lra.
Qed.

