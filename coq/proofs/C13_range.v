(* C13, part 1: ranges and non-negativity, over the reals, for every coordinate-system signature. *)
From Coq Require Import Reals Lra Psatz Bool.
From VP Require Import Lib RLib Trig Compute Tables Unfold.
Open Scope R_scope.

Definition rn (r : @res RLib) : option R := match r with RNum v => Some v | _ => None end.
Definition in_range (lo hi : R) (o : option R) := match o with Some v => lo <= v <= hi | None => False end.
Definition nonneg (o : option R) := match o with Some v => 0 <= v | None => False end.

Definition rb (r : @res RLib) : option bool := match r with RBool b => Some b | _ => None end.
(* [holds o P]: the dispatch produced a number v and P v *)
Definition holds (o : option R) (P : R -> Prop) := match o with Some v => P v | None => False end.
Definition is_true (o : option bool) := o = Some true.

Lemma Rltb_iff a b : Rltb a b = true <-> a < b. Proof. apply Rltb_true. Qed.


Lemma phi_xy_range x y : in_range (- PI) PI (rn (T_planar_phi XY x y)).
Proof. vunfold; runfold; cbn [rn in_range]. pose proof (atan2_range y x). lra. Qed.

Lemma deltaphi_range s1 s2 a1 b1 a2 b2 : in_range (- PI) PI (rn (T_planar_deltaphi s1 s2 a1 b1 a2 b2)).
Proof.
  destruct s1, s2; vunfold; runfold; cbn [rn in_range];
  match goal with |- _ <= pymod (?p + PI) (2 / 1 * PI) - PI <= _ =>
    pose proof (rectify_range p) as H; unfold rectify in H; replace (2 / 1 * PI) with (2 * PI) by field; lra end.
Qed.

Lemma theta_range s l a b c : l <> LTheta -> in_range 0 PI (rn (T_spatial_theta s l a b c)).
Proof.
  intros Hl; destruct s, l; try congruence; vunfold; runfold; cbn [rn in_range];
  try apply acos_bound;
  match goal with |- _ <= 2 / 1 * atan (exp (- ?e)) <= _ =>
    pose proof (theta_of_eta_range e); replace (2 / 1) with 2 by field; lra end.
Qed.

Lemma deltaangle_range s1 l1 s2 l2 a1 b1 c1 a2 b2 c2 :
  in_range 0 PI (rn (T_spatial_deltaangle s1 l1 s2 l2 a1 b1 c1 a2 b2 c2)).
Proof. destruct s1, l1, s2, l2; vunfold; runfold; cbn [rn in_range]; apply acos_bound. Qed.

Lemma rho_xy_nonneg x y : nonneg (rn (T_planar_rho XY x y)).
Proof. vunfold; runfold; cbn [rn nonneg]; apply sqrt_pos. Qed.
Lemma rho2_nonneg s a b : nonneg (rn (T_planar_rho2 s a b)).
Proof. destruct s; vunfold; runfold; cbn [rn nonneg]; nra. Qed.

Lemma sq_nonneg a : 0 <= a * a. Proof. nra. Qed.
Lemma div_sq_nonneg a b : 0 <= a -> 0 <= a / (b * b).
Proof.
  intros Ha. destruct (Req_dec b 0) as [E|E].
  - subst. rewrite Rmult_0_l. unfold Rdiv. rewrite Rinv_0. lra.
  - apply Rmult_le_pos; [exact Ha|]. left. apply Rinv_0_lt_compat. nra.
Qed.

Lemma mag2_nonneg s l a b c : nonneg (rn (T_spatial_mag2 s l a b c)).
Proof.
  destruct s, l; vunfold; runfold; cbn [rn nonneg];
  first [ nra | apply div_sq_nonneg; nra | apply Rmult_le_pos; nra ].
Qed.

Lemma div_abs_nonneg a b : 0 <= a -> 0 <= a / Rabs b.
Proof.
  intros Ha. destruct (Req_dec b 0) as [E|E].
  - subst. rewrite Rabs_R0. unfold Rdiv. rewrite Rinv_0. lra.
  - apply Rmult_le_pos; [exact Ha|]. left. apply Rinv_0_lt_compat. apply Rabs_pos_lt; exact E.
Qed.
Lemma eta_factor_pos e : 0 < 1 / 2 * (1 / 1 + exp (- e) * exp (- e)) / exp (- e).
Proof.
  pose proof (exp_pos (- e)) as H. apply Rmult_lt_0_compat; [nra | apply Rinv_0_lt_compat; exact H].
Qed.

(* mag >= 0: always for x,y storage; for rho,phi storage when the stored rho is non-negative *)
Lemma mag_nonneg s l a b c : (s = RhoPhi -> 0 <= a) -> nonneg (rn (T_spatial_mag s l a b c)).
Proof.
  intros Hr; destruct s, l; vunfold; runfold; cbn [rn nonneg].
  all: try specialize (Hr eq_refl).
  - apply sqrt_pos.
  - apply div_abs_nonneg; apply sqrt_pos.
  - apply Rmult_le_pos; [apply sqrt_pos | left; apply eta_factor_pos].
  - apply sqrt_pos.
  - apply div_abs_nonneg; assumption.
  - apply Rmult_le_pos; [assumption | left; apply eta_factor_pos].
Qed.

Lemma Rmax_c0 a : 0 <= Rmax a (0 / 1).
Proof. pose proof (Rmax_r a (0 / 1)). lra. Qed.
Lemma t2_nonneg s l t a b c d : nonneg (rn (T_lorentz_t2 s l t a b c d)).
Proof. destruct s, l, t; vunfold; runfold; cbn [rn nonneg]; first [nra | apply Rmax_c0]. Qed.

(* t derived from tau: non-negative, and the square root is taken of a non-negative number
   for ALL inputs (this is what the maximum(.,0) guard is for: never sqrt of a negative) *)
Lemma t_from_tau_nonneg s l a b c d : nonneg (rn (T_lorentz_t s l TTau a b c d)).
Proof. destruct s, l; vunfold; runfold; cbn [rn nonneg]; apply sqrt_pos. Qed.
Lemma t_from_tau_is_sqrt_of_t2 s l a b c d :
  exists u, rn (T_lorentz_t2 s l TTau a b c d) = Some u /\ 0 <= u /\ rn (T_lorentz_t s l TTau a b c d) = Some (sqrt u).
Proof.
  destruct s, l; vunfold; runfold; cbn [rn]; eexists; (split; [reflexivity | split; [apply Rmax_c0 | reflexivity]]).
Qed.
