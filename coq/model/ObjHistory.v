(* Histories of assignments and in-place operators on one object vector: the type-level state machine read off
   the generated tables, and its invariants for histories of ANY length (induction over the operation list). *)
From Coq Require Import ZArith List Bool Arith.
From VP Require Import ObjModel ObjNames ObjApi ObjApiBin ObjChecks ObjChecksBin.
Import ListNotations.

Inductive hop := HSet (n : name) | HIn (op : name) (b : option src).

Definition opt_src_eqb (a b : option src) : bool :=
  match a, b with Some x, Some y => src_eqb x y | None, None => true | _, _ => false end.
Fixpoint lookup_inplace (tab : list (src * option src * name * option name * outcome)) (a : src) (b : option src) (op : name) : option outcome :=
  match tab with
  | [] => None
  | (a', b', op', _, o) :: r => if src_eqb a a' && opt_src_eqb b b' && Pos.eqb op op' then Some o else lookup_inplace r a b op
  end.
Definition next_of (o : outcome) (s : src) : src := match src_of_outcome o with Some s' => s' | None => s end.
Definition tstep (s : src) (h : hop) : src :=
  match h with
  | HSet n => match lookup_out setters_tab s n with Some o => next_of o s | None => s end
  | HIn op b => match lookup_inplace inplace_tab s b op with Some o => next_of o s | None => s end
  end.

(* per-entry facts, decided on the whole generated lattice *)
Definition keeps_dim_flavor (s : src) (o : outcome) : bool :=
  match src_of_outcome o with Some s' => Nat.eqb (s_dim s') (s_dim s) && Bool.eqb (s_mom s') (s_mom s) | None => true end.
Definition keeps_system (s : src) (o : outcome) : bool :=
  match src_of_outcome o with Some s' => list_eqb csys_eqb (s_sys s') (s_sys s) | None => true end.

Lemma src_eqb_dim_mom a b : src_eqb a b = true -> s_dim a = s_dim b /\ s_mom a = s_mom b.
Proof.
  unfold src_eqb. intros H. apply andb_prop in H. destruct H as [H Hm]. apply andb_prop in H. destruct H as [Hd _].
  split; [apply Nat.eqb_eq; exact Hd | apply eqb_prop; exact Hm].
Qed.
Lemma list_eqb_csys_eq l1 l2 : list_eqb csys_eqb l1 l2 = true -> l1 = l2.
Proof.
  revert l2; induction l1 as [|a l1 IH]; intros [|b l2] H; cbn in H; try discriminate; [reflexivity|].
  apply andb_prop in H. destruct H as [Hab H]. f_equal; [destruct a, b; cbn in Hab; congruence | apply IH; exact H].
Qed.
Lemma src_eqb_sys a b : src_eqb a b = true -> s_sys a = s_sys b.
Proof.
  unfold src_eqb. intros H. apply andb_prop in H. destruct H as [H _]. apply andb_prop in H. destruct H as [_ Hs].
  apply list_eqb_csys_eq; exact Hs.
Qed.

Lemma lookup_out_sound (P : src -> outcome -> bool) tab :
  forallb (fun e => let '(s, _, o) := e in P s o) tab = true ->
  forall s n o, lookup_out tab s n = Some o -> exists s', src_eqb s s' = true /\ P s' o = true.
Proof.
  induction tab as [|[[s' n'] o'] r IH]; intros H s n o L; cbn in *; [discriminate|].
  apply andb_prop in H. destruct H as [H0 Hr].
  destruct (src_eqb s s' && Pos.eqb n n') eqn:E.
  - injection L as <-. apply andb_prop in E. exists s'. split; [apply E | exact H0].
  - exact (IH Hr s n o L).
Qed.
Lemma lookup_inplace_sound (P : src -> outcome -> bool) tab :
  forallb (fun e => let '(a, _, _, _, o) := e in P a o) tab = true ->
  forall a b op o, lookup_inplace tab a b op = Some o -> exists a', src_eqb a a' = true /\ P a' o = true.
Proof.
  induction tab as [|[[[[a' b'] op'] r'] o'] r IH]; intros H a b op o L; cbn in *; [discriminate|].
  apply andb_prop in H. destruct H as [H0 Hr].
  destruct (src_eqb a a' && opt_src_eqb b b' && Pos.eqb op op') eqn:E.
  - injection L as <-. apply andb_prop in E. destruct E as [E _]. apply andb_prop in E. exists a'. split; [apply E | exact H0].
  - exact (IH Hr a b op o L).
Qed.

Section Invariants.
Context (set_keeps : forallb (fun e => let '(s, _, o) := e in keeps_dim_flavor s o) setters_tab = true).
Context (in_keeps : forallb (fun e => let '(a, _, _, _, o) := e in keeps_dim_flavor a o) inplace_tab = true).
Context (in_keeps_sys : forallb (fun e => let '(a, _, _, _, o) := e in keeps_system a o) inplace_tab = true).

Lemma next_keeps s s' o : src_eqb s s' = true -> keeps_dim_flavor s' o = true ->
  s_dim (next_of o s) = s_dim s /\ s_mom (next_of o s) = s_mom s.
Proof.
  intros E K. destruct (src_eqb_dim_mom _ _ E) as [Ed Em]. unfold next_of, keeps_dim_flavor in *.
  destruct (src_of_outcome o) as [t|]; [|auto].
  apply andb_prop in K. destruct K as [Kd Km]. apply Nat.eqb_eq in Kd. apply eqb_prop in Km. split; congruence.
Qed.

Lemma tstep_keeps s h : s_dim (tstep s h) = s_dim s /\ s_mom (tstep s h) = s_mom s.
Proof.
  destruct h as [n|op b]; cbn [tstep].
  - destruct (lookup_out setters_tab s n) as [o|] eqn:L; [|auto].
    destruct (lookup_out_sound keeps_dim_flavor _ set_keeps s n o L) as [s' [E K]]. exact (next_keeps s s' o E K).
  - destruct (lookup_inplace inplace_tab s b op) as [o|] eqn:L; [|auto].
    destruct (lookup_inplace_sound keeps_dim_flavor _ in_keeps s b op o L) as [s' [E K]]. exact (next_keeps s s' o E K).
Qed.

(* after ANY finite history the object has the dimension and the flavor it started with *)
Theorem history_keeps_dimension_and_flavor : forall (hs : list hop) (s : src),
  s_dim (fold_left tstep hs s) = s_dim s /\ s_mom (fold_left tstep hs s) = s_mom s.
Proof.
  induction hs as [|h hs IH]; intros s; cbn [fold_left]; [auto|].
  destruct (IH (tstep s h)) as [Hd Hm]. destruct (tstep_keeps s h) as [Hd' Hm']. split; congruence.
Qed.

Definition only_inplace (hs : list hop) : Prop := Forall (fun h => match h with HIn _ _ => True | HSet _ => False end) hs.

(* a history of in-place operators only never changes the coordinate system *)
Theorem inplace_history_keeps_system : forall (hs : list hop) (s : src), only_inplace hs -> s_sys (fold_left tstep hs s) = s_sys s.
Proof.
  induction hs as [|h hs IH]; intros s H; cbn [fold_left]; [reflexivity|].
  inversion H as [|h' hs' Hh Hr]; subst. rewrite (IH _ Hr).
  destruct h as [n|op b]; [contradiction|]. cbn [tstep].
  destruct (lookup_inplace inplace_tab s b op) as [o|] eqn:L; [|reflexivity].
  destruct (lookup_inplace_sound keeps_system _ in_keeps_sys s b op o L) as [s' [E K]].
  unfold next_of, keeps_system in *. destruct (src_of_outcome o) as [t|]; [|reflexivity].
  apply list_eqb_csys_eq in K. rewrite K. symmetry. apply src_eqb_sys; exact E.
Qed.
End Invariants.
