(* M5/M6/M7: arrays and Awkward layouts as data; elementwise lifting, broadcasting, indexing, reductions.
   Polymorphic in the element type: the theorems hold whatever a "vector" and an operation are, for arrays of any
   length / shape and layouts of any depth (induction), which the test suite cannot reach. *)
From Coq Require Import List Arith Lia Bool.
Import ListNotations.

(* ---------- jagged / nested / option-typed layouts ---------- *)
Inductive layout (A : Type) : Type :=
| Leaf (a : A)                      (* a record (vector, with its extra fields) or a number *)
| Missing                           (* None, at list or at record level *)
| ListOf (l : list (layout A)).     (* variable-length or regular list, any depth *)
Arguments Leaf {A} a. Arguments Missing {A}. Arguments ListOf {A} l.

Section LayoutInd.
Context (A : Type) (P : layout A -> Prop).
Context (HLeaf : forall a, P (Leaf a)) (HMissing : P Missing) (HList : forall l, Forall P l -> P (ListOf l)).
Fixpoint layout_ind' (t : layout A) : P t :=
  match t with
  | Leaf a => HLeaf a
  | Missing => HMissing
  | ListOf l => HList l ((fix go (l : list (layout A)) : Forall P l :=
                            match l with [] => Forall_nil P | x :: r => Forall_cons x (layout_ind' x) (go r) end) l)
  end.
End LayoutInd.

Fixpoint lmap {A B} (f : A -> B) (t : layout A) : layout B :=
  match t with Leaf a => Leaf (f a) | Missing => Missing | ListOf l => ListOf (map (lmap f) l) end.

(* skeleton: list structure, lengths, positions of missing values, nesting — everything but the leaf payloads *)
Definition skeleton {A} (t : layout A) : layout unit := lmap (fun _ => tt) t.

Fixpoint at_path {A} (p : list nat) (t : layout A) : option A :=
  match p, t with
  | [], Leaf a => Some a
  | i :: p', ListOf l => match nth_error l i with Some x => at_path p' x | None => None end
  | _, _ => None end.

(* binary lift: a leaf (single object / record / scalar) broadcasts against any structure; lists zip positionally;
   a missing value on either side gives a missing value *)
Fixpoint lzip {A B C} (f : A -> B -> C) (s : layout A) (t : layout B) {struct s} : layout C :=
  match s, t with
  | Leaf a, _ => lmap (f a) t
  | Missing, Leaf _ => Missing
  | ListOf ls, Leaf b => ListOf (map (fun x => lzip f x (Leaf b)) ls)
  | Missing, _ => Missing
  | ListOf _, Missing => Missing
  | ListOf ls, ListOf lt =>
      ListOf ((fix go (l1 : list (layout A)) (l2 : list (layout B)) : list (layout C) :=
                 match l1, l2 with x :: r1, y :: r2 => lzip f x y :: go r1 r2 | _, _ => [] end) ls lt)
  end.

Lemma map_ext_Forall {A B} (f g : A -> B) l : Forall (fun x => f x = g x) l -> map f l = map g l.
Proof. induction 1; cbn; congruence. Qed.

Theorem lmap_lmap {A B C} (f : A -> B) (g : B -> C) t : lmap g (lmap f t) = lmap (fun a => g (f a)) t.
Proof.
  induction t as [a| |l IH] using layout_ind'; cbn; try reflexivity.
  f_equal. rewrite map_map. apply map_ext_Forall. exact IH.
Qed.

(* a unary operation preserves list structure, missing positions and nesting, at any depth *)
Theorem skeleton_lmap {A B} (f : A -> B) t : skeleton (lmap f t) = skeleton t.
Proof. unfold skeleton. apply lmap_lmap. Qed.

(* ... and the element at any position is the operation applied to the element at that position *)
Theorem at_path_lmap {A B} (f : A -> B) t : forall p, at_path p (lmap f t) = option_map f (at_path p t).
Proof.
  induction t as [a| |l IH] using layout_ind'; intros [|i p]; cbn; try reflexivity.
  rewrite nth_error_map. destruct (nth_error l i) as [x|] eqn:E; cbn; [|reflexivity].
  rewrite Forall_forall in IH. apply IH. eapply nth_error_In; exact E.
Qed.

(* a single object / record / scalar broadcasts element by element *)
Theorem lzip_broadcast_left {A B C} (f : A -> B -> C) a t : lzip f (Leaf a) t = lmap (f a) t.
Proof. reflexivity. Qed.
Theorem lzip_broadcast_right {A B C} (f : A -> B -> C) s b : lzip f s (Leaf b) = lmap (fun a => f a b) s.
Proof.
  induction s as [a| |l IH] using layout_ind'; cbn; try reflexivity.
  f_equal. apply map_ext_Forall. exact IH.
Qed.

(* two arrays of the same structure: the result has that structure and combines corresponding elements *)
Theorem lzip_same_structure {A B C} (f : A -> B -> C) s : forall t, skeleton s = skeleton t ->
  skeleton (lzip f s t) = skeleton s /\
  forall p, at_path p (lzip f s t) = match at_path p s, at_path p t with Some a, Some b => Some (f a b) | _, _ => None end.
Proof.
  induction s as [a| |l IH] using layout_ind'; intros t Hsk.
  - destruct t as [b| |lt]; cbn in Hsk; try discriminate. cbn. split; [reflexivity|]. intros [|i p]; reflexivity.
  - destruct t as [b| |lt]; cbn in Hsk; try discriminate. cbn. split; [reflexivity|]. intros [|i p]; reflexivity.
  - destruct t as [b| |lt]; cbn in Hsk; try discriminate. injection Hsk as Hsk.
    revert lt Hsk. induction l as [|x r IHr]; intros [|y lt] Hsk; cbn in Hsk; try discriminate.
    + cbn. split; [reflexivity|]. intros [|i p]; cbn; try reflexivity. destruct i; reflexivity.
    + injection Hsk as Hxy Hr. inversion IH as [|x' r' Hx Hrest]; subst.
      destruct (Hx y Hxy) as [Sx Px]. destruct (IHr Hrest lt Hr) as [Sr Pr].
      cbn in *. split.
      * injection Sr as Sr. unfold skeleton in Sx. rewrite Sx, Sr. reflexivity.
      * intros [|i p]; [reflexivity|]. destruct i as [|i]; cbn; [apply Px|]. exact (Pr (S i :: p)) || (specialize (Pr (i :: p)); cbn in Pr; exact Pr).
Qed.

(* records with extra fields: a one-vector operation acts on the vector part and carries every other field unchanged *)
Definition on_vector {V W X} (op : V -> W) (r : V * X) : W * X := (op (fst r), snd r).
Theorem extras_carried {V W X} (op : V -> W) (t : layout (V * X)) p :
  option_map snd (at_path p (lmap (on_vector op) t)) = option_map snd (at_path p t) /\
  option_map fst (at_path p (lmap (on_vector op) t)) = option_map op (option_map fst (at_path p t)).
Proof. rewrite at_path_lmap. destruct (at_path p t) as [[v x]|]; cbn; split; reflexivity. Qed.

(* ---------- NumPy-style arrays: shape + row-major data ---------- *)
Record narr (A : Type) := { shape : list nat; data : list A }.
Arguments shape {A} _. Arguments data {A} _.
Definition size (s : list nat) : nat := fold_right Nat.mul 1 s.
Definition wf {A} (a : narr A) : Prop := length (data a) = size (shape a).
Definition amap {A B} (f : A -> B) (a : narr A) : narr B := {| shape := shape a; data := map f (data a) |}.
Definition azip {A B C} (f : A -> B -> C) (a : narr A) (b : narr B) : narr C :=
  {| shape := shape a; data := map (fun p => f (fst p) (snd p)) (combine (data a) (data b)) |}.
Definition abroadcast {A B C} (f : A -> B -> C) (a : narr A) (b : B) : narr C := amap (fun x => f x b) a.
Definition reshape {A} (s : list nat) (a : narr A) : narr A := {| shape := s; data := data a |}.
Definition take0 {A} (n : nat) (a : narr A) : narr A :=    (* a[:n] along axis 0 *)
  match shape a with [] => a | d :: rest => {| shape := Nat.min n d :: rest; data := firstn (Nat.min n d * size rest) (data a) |} end.
Definition mask {A} (m : list bool) (a : narr A) : list A := map snd (filter fst (combine m (data a))).

Theorem amap_shape {A B} (f : A -> B) a : shape (amap f a) = shape a /\ (wf a -> wf (amap f a)).
Proof. split; [reflexivity|]. unfold wf, amap; cbn. rewrite map_length. auto. Qed.
Theorem amap_element {A B} (f : A -> B) a i : nth_error (data (amap f a)) i = option_map f (nth_error (data a) i).
Proof. cbn. apply nth_error_map. Qed.
Theorem azip_element {A B C} (f : A -> B -> C) a b i x y :
  nth_error (data a) i = Some x -> nth_error (data b) i = Some y -> nth_error (data (azip f a b)) i = Some (f x y).
Proof.
  unfold azip; cbn. revert i b. generalize (data a) as la. intros la i b. generalize (data b) as lb.
  revert i. induction la as [|a0 la IH]; intros [|i] [|b0 lb] Ha Hb; cbn in *; try discriminate.
  - congruence.
  - apply IH; assumption.
Qed.
Theorem abroadcast_element {A B C} (f : A -> B -> C) a b i :
  nth_error (data (abroadcast f a b)) i = option_map (fun x => f x b) (nth_error (data a) i).
Proof. apply amap_element. Qed.
Theorem reshape_keeps_elements {A} s (a : narr A) : data (reshape s a) = data a.
Proof. reflexivity. Qed.
Theorem mask_elements {A} m (a : narr A) x : In x (mask m a) -> In x (data a).
Proof.
  unfold mask. intros H. apply in_map_iff in H. destruct H as [[b y] [E H]]. cbn in E. subst.
  apply filter_In in H. destruct H as [H _]. eapply in_combine_r; exact H.
Qed.

(* ---------- reductions: component-wise sums in a commutative monoid of Cartesian components ---------- *)
Section Reduce.
Context {V C : Type} (cart : V -> C) (cadd : C -> C -> C) (czero : C).
Context (cadd_assoc : forall a b c, cadd a (cadd b c) = cadd (cadd a b) c) (cadd_comm : forall a b, cadd a b = cadd b a)
        (cadd_0 : forall a, cadd czero a = a).
Definition csum (l : list C) : C := fold_right cadd czero l.
Definition vsum (l : list V) : C := csum (map cart l).

Lemma csum_app l1 l2 : csum (l1 ++ l2) = cadd (csum l1) (csum l2).
Proof. unfold csum. induction l1 as [|a l1 IH]; cbn; [symmetry; apply cadd_0 | rewrite IH; apply cadd_assoc]. Qed.
Theorem vsum_empty : vsum [] = czero. Proof. reflexivity. Qed.
Theorem vsum_app l1 l2 : vsum (l1 ++ l2) = cadd (vsum l1) (vsum l2).
Proof. unfold vsum. rewrite map_app. apply csum_app. Qed.
(* whatever system each element is stored in, only its Cartesian components enter *)
Theorem vsum_depends_on_cart_only l1 l2 : map cart l1 = map cart l2 -> vsum l1 = vsum l2.
Proof. unfold vsum. intros ->. reflexivity. Qed.

(* 2-D: rows of equal length.  axis=1 (and -1): one sum per row; axis=0: one sum per column; axis=None: the total *)
Definition sum_axis1 (rows : list (list V)) : list C := map vsum rows.
Fixpoint colsum (rows : list (list C)) (ncol : nat) : list C :=
  match rows with [] => repeat czero ncol | r :: rest => map (fun p => cadd (fst p) (snd p)) (combine r (colsum rest ncol)) end.
Definition sum_axis0 (rows : list (list V)) (ncol : nat) : list C := colsum (map (map cart) rows) ncol.
Definition sum_all (rows : list (list V)) : C := vsum (concat rows).

Theorem sum_all_is_sum_of_row_sums rows : sum_all rows = csum (sum_axis1 rows).
Proof.
  unfold sum_all, sum_axis1. induction rows as [|r rows IH]; [reflexivity|].
  change (vsum (r ++ concat rows) = cadd (vsum r) (csum (map vsum rows))). rewrite vsum_app, IH. reflexivity.
Qed.
Lemma csum_repeat_zero n : csum (repeat czero n) = czero.
Proof. unfold csum. induction n; cbn; [reflexivity | rewrite IHn; apply cadd_0]. Qed.
Lemma csum_zipadd l1 l2 : length l1 = length l2 ->
  csum (map (fun p => cadd (fst p) (snd p)) (combine l1 l2)) = cadd (csum l1) (csum l2).
Proof.
  unfold csum. revert l2; induction l1 as [|a l1 IH]; intros [|b l2] H; cbn in *; try discriminate; [symmetry; apply cadd_0|].
  rewrite IH by lia. rewrite <- !cadd_assoc. f_equal. rewrite !cadd_assoc. f_equal. apply cadd_comm.
Qed.
Lemma colsum_length rows n : Forall (fun r => length r = n) rows -> length (colsum rows n) = n.
Proof.
  induction 1 as [|r rows Hr _ IH]; cbn; [apply repeat_length|]. rewrite map_length, combine_length, IH, Hr. lia.
Qed.
(* the column sums add up to the same total as the row sums: axis=0, axis=1 and axis=None are consistent *)
Lemma colsum_total (rows : list (list C)) n : Forall (fun r => length r = n) rows ->
  csum (colsum rows n) = csum (map csum rows).
Proof.
  induction 1 as [|r rows Hr Hrest IH]; [apply csum_repeat_zero|].
  change (csum (map (fun p => cadd (fst p) (snd p)) (combine r (colsum rows n))) = cadd (csum r) (csum (map csum rows))).
  rewrite csum_zipadd by (rewrite colsum_length; auto). rewrite IH. reflexivity.
Qed.
Theorem sum_axis0_total rows n : Forall (fun r => length r = n) rows -> csum (sum_axis0 rows n) = sum_all rows.
Proof.
  intros H. rewrite sum_all_is_sum_of_row_sums. unfold sum_axis0, sum_axis1.
  rewrite colsum_total.
  - rewrite map_map. reflexivity.
  - rewrite Forall_forall in *. intros r Hr. apply in_map_iff in Hr. destruct Hr as [r0 [<- Hr0]]. rewrite map_length. auto.
Qed.

(* count_nonzero counts the elements that are not the zero vector; count counts elements *)
Context (is_zero : V -> bool).
Definition count_nonzero (l : list V) : nat := length (filter (fun v => negb (is_zero v)) l).
Theorem count_nonzero_app l1 l2 : count_nonzero (l1 ++ l2) = count_nonzero l1 + count_nonzero l2.
Proof. unfold count_nonzero. rewrite filter_app, app_length. reflexivity. Qed.
Theorem count_nonzero_bound l : count_nonzero l <= length l.
Proof. unfold count_nonzero. induction l as [|a l IH]; cbn; [lia|]. destruct (negb (is_zero a)); cbn; lia. Qed.
Theorem count_nonzero_all l : (forall v, In v l -> is_zero v = false) -> count_nonzero l = length l.
Proof.
  unfold count_nonzero. induction l as [|a l IH]; intros H; cbn; [reflexivity|].
  rewrite (H a (or_introl eq_refl)). cbn. f_equal. apply IH. intros v Hv. apply H. right; exact Hv.
Qed.
End Reduce.
