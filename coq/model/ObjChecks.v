(* Decision procedures over the generated object-API tables (gen/ObjApi.v): the formal content of the lattice
   properties C04 / C14 / C15 / C05 is the boolean predicate; the theorem is  forallb pred table = true. *)
From Coq Require Import ZArith List Bool.
From VP Require Import ObjModel ObjNames ObjApi.
Import ListNotations.

Definition zero : oexpr := OCst 0 1.
Definition nthx (i : nat) (l : list oexpr) : oexpr := nth i l (OKw 1%positive).
Definition lg_type_of_kw (k : name) : option csys :=
  if Pos.eqb k N_z || Pos.eqb k N_pz then Some CZ else if Pos.eqb k N_theta then Some CTheta
  else if Pos.eqb k N_eta then Some CEta else None.
Definition tm_type_of_kw (k : name) : option csys :=
  if mem_name k [N_t; N_e; N_E; N_energy] then Some CT else if mem_name k [N_tau; N_m; N_M; N_mass] then Some CTau else None.
Definition lg_kws (kws : list name) : list name := filter (fun k => match lg_type_of_kw k with Some _ => true | None => false end) kws.
Definition tm_kws (kws : list name) : list name := filter (fun k => match tm_type_of_kw k with Some _ => true | None => false end) kws.

Fixpoint lookup_getter (tab : list (src * name * outcome)) (s : src) (n : name) : option oexpr :=
  match tab with
  | [] => None
  | (s', n', o) :: rest => if src_eqb s s' && Pos.eqb n n' then match o with OutScalar e => Some e | _ => None end else lookup_getter rest s n
  end.
Definition getter (s : src) (n : name) : option oexpr := lookup_getter getters_tab s n.
Definition is_getter (s : src) (n : name) (e : oexpr) : bool :=
  match getter s n with Some g => oexpr_eqb g e | None => false end.
Definition coord_names (c : csys) : list name :=
  match c with CXY => [N_x; N_y] | CRhoPhi => [N_rho; N_phi] | CZ => [N_z] | CTheta => [N_theta] | CEta => [N_eta] | CT => [N_t] | CTau => [N_tau] end.
Definition opt_csys_eqb (a b : option csys) : bool :=
  match a, b with Some x, Some y => csys_eqb x y | None, None => true | _, _ => false end.

(* ---- C04: to_<system>() ---- *)
(* slot [i] (group g of the target) of a conversion result: the stored variable if the source stores that very
   system, the accessor of that coordinate if the source has the group in another system, else the keyword / zero *)
Definition slot_ok (s : src) (g : nat) (tgt : csys) (kw_of_group : list name) (type_of_kw : name -> option csys)
           (first_index : nat) (coords : list oexpr) : bool :=
  match nth_error (s_sys s) g with
  | Some have =>
      if csys_eqb have tgt
      then list_eqb oexpr_eqb (firstn (length (coord_names tgt)) (skipn first_index coords))
                              (vars_from 0 first_index (length (coord_names tgt)))
      else forallb (fun p => is_getter s (fst p) (snd p)) (combine (coord_names tgt) (skipn first_index coords))
  | None =>
      match kw_of_group with
      | [] => oexpr_eqb (nthx first_index coords) zero
      | [k] => oexpr_eqb (nthx first_index coords) (OKw k) && opt_csys_eqb (type_of_kw k) (Some tgt)
      | _ => false
      end
  end.

Definition check_to_system (e : src * name * option (list csys) * list name * outcome) : bool :=
  let '(s, m, tgt, kws, o) := e in
  match tgt with
  | None => true
  | Some T =>
      match o with
      | OutVec c sys coords _ =>
          ocls_eqb c (gen_cls (length T + 1) (s_mom s)) && list_eqb csys_eqb sys T && Nat.eqb (length coords) (length T + 1) &&
          match T with
          | [a] => slot_ok s 0 a [] (fun _ => None) 0 coords
          | [a; l] => slot_ok s 0 a [] (fun _ => None) 0 coords && slot_ok s 1 l (lg_kws kws) lg_type_of_kw 2 coords
          | [a; l; t] => slot_ok s 0 a [] (fun _ => None) 0 coords && slot_ok s 1 l (lg_kws kws) lg_type_of_kw 2 coords
                         && slot_ok s 2 t (tm_kws kws) tm_type_of_kw 3 coords
          | _ => false
          end
      | _ => false
      end
  end.

(* ---- C04: to_Vector2D/3D/4D, to_2D/3D/4D, like ---- *)
Definition target_dim (m : name) : option nat :=
  if mem_name m [N_to_Vector2D; N_to_2D; N_like2D] then Some 2 else if mem_name m [N_to_Vector3D; N_to_3D; N_like3D] then Some 3
  else if mem_name m [N_to_Vector4D; N_to_4D; N_like4D] then Some 4 else None.

Definition check_dim_change (e : src * name * option (list csys) * list name * outcome) : bool :=
  let '(s, m, tgt, kws, o) := e in
  match target_dim m with
  | None => true
  | Some d =>
      let lk := lg_kws kws in let tk := tm_kws kws in
      if Nat.ltb 1 (length lk) || Nat.ltb 1 (length tk) then is_raise o N_TypeError
      else
        match o with
        | OutVec c sys coords _ =>
            ocls_eqb c (gen_cls d (s_mom s)) &&
            (if Nat.leb d (s_dim s)
             then (* projection: the retained stored coordinates, bit for bit *)
               list_eqb csys_eqb sys (firstn (d - 1) (s_sys s)) && list_eqb oexpr_eqb coords (vars_from 0 0 d)
             else (* embedding: all stored coordinates + exactly the keyword value (in the type the keyword names) or zero *)
               let lg_part := if Nat.ltb (s_dim s) 3 && Nat.leb 3 d
                              then match lk with [k] => [(lg_type_of_kw k, OKw k)] | _ => [(Some CZ, zero)] end else [] in
               let tm_part := if Nat.ltb (s_dim s) 4 && Nat.leb 4 d
                              then match tk with [k] => [(tm_type_of_kw k, OKw k)] | _ => [(Some CT, zero)] end else [] in
               list_eqb opt_csys_eqb (map Some sys) (map Some (s_sys s) ++ map fst lg_part ++ map fst tm_part) &&
               list_eqb oexpr_eqb coords (stored 0 s ++ map snd lg_part ++ map snd tm_part))
        | _ => false
        end
  end.
