(* Decision procedures over the generated object-API tables (gen/ObjApi.v): the formal content of the lattice
   properties C04 / C14 / C15 / C05 is the boolean predicate; the theorem is  forallb pred table = true. *)
From Coq Require Import ZArith List Bool.
From VP Require Import ObjModel ObjNames ObjApi.
Import ListNotations.

Definition zero : oexpr := OCst 0 1.
Definition nthx (i : nat) (l : list oexpr) : oexpr := nth i l (OKw 1%positive).
Definition lg_type_of_kw (k : name) : option csys :=
  if Pos.eqb k N_z || Pos.eqb k N_pz then Some CZ else if Pos.eqb k N_theta then Some CTheta
  else if Pos.eqb k N_eta then Some CEta else None.
Definition tm_type_of_kw (k : name) : option csys :=
  if mem_name k [N_t; N_e; N_E; N_energy] then Some CT else if mem_name k [N_tau; N_m; N_M; N_mass] then Some CTau else None.
Definition lg_kws (kws : list name) : list name := filter (fun k => match lg_type_of_kw k with Some _ => true | None => false end) kws.
Definition tm_kws (kws : list name) : list name := filter (fun k => match tm_type_of_kw k with Some _ => true | None => false end) kws.

Fixpoint lookup_getter (tab : list (src * name * outcome)) (s : src) (n : name) : option oexpr :=
  match tab with
  | [] => None
  | (s', n', o) :: rest => if src_eqb s s' && Pos.eqb n n' then match o with OutScalar e => Some e | _ => None end else lookup_getter rest s n
  end.
Definition getter (s : src) (n : name) : option oexpr := lookup_getter getters_tab s n.
Definition is_getter (s : src) (n : name) (e : oexpr) : bool :=
  match getter s n with Some g => oexpr_eqb g e | None => false end.
Definition coord_names (c : csys) : list name :=
  match c with CXY => [N_x; N_y] | CRhoPhi => [N_rho; N_phi] | CZ => [N_z] | CTheta => [N_theta] | CEta => [N_eta] | CT => [N_t] | CTau => [N_tau] end.
Definition opt_csys_eqb (a b : option csys) : bool :=
  match a, b with Some x, Some y => csys_eqb x y | None, None => true | _, _ => false end.

(* ---- C04: to_<system>() ---- *)
(* slot [i] (group g of the target) of a conversion result: the stored variable if the source stores that very
   system, the accessor of that coordinate if the source has the group in another system, else the keyword / zero *)
Definition slot_ok (s : src) (g : nat) (tgt : csys) (kw_of_group : list name) (type_of_kw : name -> option csys)
           (first_index : nat) (coords : list oexpr) : bool :=
  match nth_error (s_sys s) g with
  | Some have =>
      if csys_eqb have tgt
      then list_eqb oexpr_eqb (firstn (length (coord_names tgt)) (skipn first_index coords))
                              (vars_from 0 first_index (length (coord_names tgt)))
      else forallb (fun p => is_getter s (fst p) (snd p)) (combine (coord_names tgt) (skipn first_index coords))
  | None =>
      match kw_of_group with
      | [] => oexpr_eqb (nthx first_index coords) zero
      | [k] => oexpr_eqb (nthx first_index coords) (OKw k) && opt_csys_eqb (type_of_kw k) (Some tgt)
      | _ => false
      end
  end.

Definition check_to_system (e : src * name * option (list csys) * list name * outcome) : bool :=
  let '(s, m, tgt, kws, o) := e in
  match tgt with
  | None => true
  | Some T =>
      match o with
      | OutVec c sys coords _ =>
          ocls_eqb c (gen_cls (length T + 1) (s_mom s)) && list_eqb csys_eqb sys T && Nat.eqb (length coords) (length T + 1) &&
          match T with
          | [a] => slot_ok s 0 a [] (fun _ => None) 0 coords
          | [a; l] => slot_ok s 0 a [] (fun _ => None) 0 coords && slot_ok s 1 l (lg_kws kws) lg_type_of_kw 2 coords
          | [a; l; t] => slot_ok s 0 a [] (fun _ => None) 0 coords && slot_ok s 1 l (lg_kws kws) lg_type_of_kw 2 coords
                         && slot_ok s 2 t (tm_kws kws) tm_type_of_kw 3 coords
          | _ => false
          end
      | _ => false
      end
  end.

(* ---- C04: to_Vector2D/3D/4D, to_2D/3D/4D, like ---- *)
Definition target_dim (m : name) : option nat :=
  if mem_name m [N_to_Vector2D; N_to_2D; N_like2D] then Some 2 else if mem_name m [N_to_Vector3D; N_to_3D; N_like3D] then Some 3
  else if mem_name m [N_to_Vector4D; N_to_4D; N_like4D] then Some 4 else None.

Definition check_dim_change (e : src * name * option (list csys) * list name * outcome) : bool :=
  let '(s, m, tgt, kws, o) := e in
  match target_dim m with
  | None => true
  | Some d =>
      let lk := lg_kws kws in let tk := tm_kws kws in
      if Nat.ltb 1 (length lk) || Nat.ltb 1 (length tk) then is_raise o N_TypeError
      else
        match o with
        | OutVec c sys coords _ =>
            ocls_eqb c (gen_cls d (s_mom s)) &&
            (if Nat.leb d (s_dim s)
             then (* projection: the retained stored coordinates, bit for bit *)
               list_eqb csys_eqb sys (firstn (d - 1) (s_sys s)) && list_eqb oexpr_eqb coords (vars_from 0 0 d)
             else (* embedding: all stored coordinates + exactly the keyword value (in the type the keyword names) or zero *)
               let lg_part := if Nat.ltb (s_dim s) 3 && Nat.leb 3 d
                              then match lk with [k] => [(lg_type_of_kw k, OKw k)] | _ => [(Some CZ, zero)] end else [] in
               let tm_part := if Nat.ltb (s_dim s) 4 && Nat.leb 4 d
                              then match tk with [k] => [(tm_type_of_kw k, OKw k)] | _ => [(Some CT, zero)] end else [] in
               list_eqb opt_csys_eqb (map Some sys) (map Some (s_sys s) ++ map fst lg_part ++ map fst tm_part) &&
               list_eqb oexpr_eqb coords (stored 0 s ++ map snd lg_part ++ map snd tm_part))
        | _ => false
        end
  end.

(* ---- C14: momentum names are synonyms ---- *)
Definition syn_pairs : list (name * name) :=
  [(N_px, N_x); (N_py, N_y); (N_pt, N_rho); (N_pt2, N_rho2); (N_pz, N_z); (N_p, N_mag); (N_p2, N_mag2); (N_pseudorapidity, N_eta);
   (N_E, N_t); (N_e, N_t); (N_energy, N_t); (N_E2, N_t2); (N_e2, N_t2); (N_energy2, N_t2);
   (N_M, N_tau); (N_m, N_tau); (N_mass, N_tau); (N_M2, N_tau2); (N_m2, N_tau2); (N_mass2, N_tau2);
   (N_et, N_Et); (N_transverse_energy, N_Et); (N_et2, N_Et2); (N_transverse_energy2, N_Et2);
   (N_mt, N_Mt); (N_transverse_mass, N_Mt); (N_mt2, N_Mt2); (N_transverse_mass2, N_Mt2)].
Definition conv_syn : list (name * name) :=
  [(N_to_pxpy, N_to_xy); (N_to_ptphi, N_to_rhophi); (N_to_pxpypz, N_to_xyz); (N_to_pxpytheta, N_to_xytheta); (N_to_pxpyeta, N_to_xyeta);
   (N_to_ptphipz, N_to_rhophiz); (N_to_ptphitheta, N_to_rhophitheta); (N_to_ptphieta, N_to_rhophieta);
   (N_to_pxpypzenergy, N_to_xyzt); (N_to_pxpythetaenergy, N_to_xythetat); (N_to_pxpyetaenergy, N_to_xyetat);
   (N_to_pxpypzmass, N_to_xyztau); (N_to_pxpythetamass, N_to_xythetatau); (N_to_pxpyetamass, N_to_xyetatau);
   (N_to_ptphipzenergy, N_to_rhophizt); (N_to_ptphithetaenergy, N_to_rhophithetat); (N_to_ptphietaenergy, N_to_rhophietat);
   (N_to_ptphipzmass, N_to_rhophiztau); (N_to_ptphithetamass, N_to_rhophithetatau); (N_to_ptphietamass, N_to_rhophietatau)].
Definition kw_geo (k : name) : name :=
  if Pos.eqb k N_pz then N_z else if Pos.eqb k N_energy then N_t else if Pos.eqb k N_mass then N_tau else k.
Fixpoint assoc (k : name) (l : list (name * name)) : option name :=
  match l with [] => None | (a, b) :: r => if Pos.eqb k a then Some b else assoc k r end.
(* rename keyword variables inside an outcome: the value passed as pz= is "the same value" as the one passed as z= *)
Fixpoint rename_kw (e : oexpr) : oexpr :=
  match e with
  | OKw k => OKw (kw_geo k)
  | OCall f xs => OCall f (map rename_kw xs)
  | OOp f xs => OOp f (map rename_kw xs)
  | OProj i x => OProj i (rename_kw x)
  | _ => e end.
Definition rename_out (o : outcome) : outcome :=
  match o with OutVec c s xs b => OutVec c s (map rename_kw xs) b | OutScalar e => OutScalar (rename_kw e) | _ => o end.

Fixpoint lookup_out (tab : list (src * name * outcome)) (s : src) (n : name) : option outcome :=
  match tab with [] => None | (s', n', o) :: r => if src_eqb s s' && Pos.eqb n n' then Some o else lookup_out r s n end.
Definition opt_outcome_eqb (a b : option outcome) : bool :=
  match a, b with Some x, Some y => outcome_eqb x y | _, _ => false end.

(* on momentum vectors every synonym getter is the very expression of the geometric getter;
   on generic vectors the synonyms do not exist *)
Definition check_getter_synonym (e : src * name * outcome) : bool :=
  let '(s, n, o) := e in
  match assoc n syn_pairs with
  | None => true
  | Some g => if s_mom s then opt_outcome_eqb (Some o) (lookup_out getters_tab s g)
              else (is_raise o N_AttributeError || opt_outcome_eqb (Some o) (lookup_out getters_tab s g))
  end.

Fixpoint lookup_conv (tab : list (src * name * option (list csys) * list name * outcome)) (s : src) (m : name) (kws : list name) : option outcome :=
  match tab with
  | [] => None
  | (s', m', _, kws', o) :: r => if src_eqb s s' && Pos.eqb m m' && list_eqb Pos.eqb kws kws' then Some o else lookup_conv r s m kws
  end.
Definition check_conv_synonym (e : src * name * option (list csys) * list name * outcome) : bool :=
  let '(s, m, _, kws, o) := e in
  match assoc m conv_syn with
  | None => true
  | Some g => opt_outcome_eqb (Some (rename_out o)) (lookup_conv conv_tab s g (map kw_geo kws))
  end.

(* setters through a synonym produce the same stored state as the geometric setter *)
Definition set_syn : list (name * name) :=
  [(N_px, N_x); (N_py, N_y); (N_pt, N_rho); (N_pz, N_z); (N_E, N_t); (N_e, N_t); (N_energy, N_t); (N_M, N_tau); (N_m, N_tau); (N_mass, N_tau)].
Definition check_setter_synonym (e : src * name * outcome) : bool :=
  let '(s, n, o) := e in
  match assoc n set_syn with
  | None => true
  | Some g => if s_mom s then opt_outcome_eqb (Some o) (lookup_out setters_tab s g) else true
  end.

(* the flavor never changes a number: the momentum source gives the same expressions as the generic one, class flavor aside *)
Definition unflavor (c : ocls) : ocls := match c with MO2 => VO2 | MO3 => VO3 | MO4 => VO4 | x => x end.
Definition strip (o : outcome) : outcome := match o with OutVec c s xs b => OutVec (unflavor c) s xs b | x => x end.
Definition mom_of (s : src) : src := {| s_dim := s_dim s; s_sys := s_sys s; s_mom := true |}.
Definition check_flavor_getter (e : src * name * outcome) : bool :=
  let '(s, n, o) := e in
  if s_mom s then true else
    match o with
    | OutRaise _ => true
    | _ => match lookup_out getters_tab (mom_of s) n with Some o' => outcome_eqb (strip o) (strip o') | None => false end
    end.
Definition check_flavor_unary (e : src * name * outcome) : bool :=
  let '(s, n, o) := e in
  if s_mom s then true else
    match lookup_out unary_tab (mom_of s) n with
    | Some o' => outcome_eqb (strip o) (strip o') && (match o, o' with OutVec c _ _ _, OutVec c' _ _ _ => negb (cls_mom c) && cls_mom c' | _, _ => true end)
    | None => false end.
Definition check_flavor_conv (e : src * name * option (list csys) * list name * outcome) : bool :=
  let '(s, m, _, kws, o) := e in
  if s_mom s then true else
    match lookup_conv conv_tab (mom_of s) m kws with Some o' => outcome_eqb (strip o) (strip o') | None => false end.

(* ---- C15: coordinate assignment ---- *)
Definition generic_name (n : name) : name := match assoc n set_syn with Some g => g | None => n end.
(* (group index, system, position in the group, partner) of a coordinate name *)
Definition coord_info (g : name) : option (nat * csys * nat * option name) :=
  if Pos.eqb g N_x then Some (0, CXY, 0, Some N_y) else if Pos.eqb g N_y then Some (0, CXY, 1, Some N_x)
  else if Pos.eqb g N_rho then Some (0, CRhoPhi, 0, Some N_phi) else if Pos.eqb g N_phi then Some (0, CRhoPhi, 1, Some N_rho)
  else if Pos.eqb g N_z then Some (1, CZ, 0, None) else if Pos.eqb g N_theta then Some (1, CTheta, 0, None)
  else if Pos.eqb g N_eta then Some (1, CEta, 0, None) else if Pos.eqb g N_t then Some (2, CT, 0, None)
  else if Pos.eqb g N_tau then Some (2, CTau, 0, None) else None.
Fixpoint replace_nth {A} (i : nat) (x : A) (l : list A) : list A :=
  match l, i with [], _ => [] | _ :: r, O => x :: r | a :: r, S k => a :: replace_nth k x r end.

Definition check_setter (e : src * name * outcome) : bool :=
  let '(s, n, o) := e in
  let g := generic_name n in
  if negb (Pos.eqb g n) && negb (s_mom s) then true (* synonym on a generic vector: not a coordinate of it *) else
  match coord_info g with
  | None => true
  | Some (grp, sys, pos, partner) =>
      if Nat.leb (length (s_sys s)) grp then true (* the vector has no such coordinate group *) else
      match o with
      | OutVec c sys' cs _ =>
          ocls_eqb c (gen_cls (s_dim s) (s_mom s)) &&                                  (* class kept *)
          list_eqb csys_eqb sys' (replace_nth grp sys (s_sys s)) &&                      (* only this group changes system *)
          Nat.eqb (length cs) (s_dim s) &&
          let first := match grp with 0 => 0 | 1 => 2 | _ => 3 end in
          oexpr_eqb (nthx (first + pos) cs) (OKw N_new) &&                              (* reads back exactly *)
          (match partner with
           | Some p => is_getter s p (nthx (first + (1 - pos)) cs)                      (* partner = its value before *)
           | None => true end) &&
          forallb (fun i => if (Nat.leb first i && Nat.ltb i (first + (match grp with 0 => 2 | _ => 1 end))) then true
                            else oexpr_eqb (nthx i cs) (OVar 0 i)) (seq 0 (s_dim s))    (* other groups: stored variables untouched *)
      | _ => false
      end
  end.
