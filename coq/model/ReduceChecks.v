(* numpy.sum / VectorNumpy.sum of NumPy vector arrays of 1, 3 and 2x2 symbolic elements (T6, gen/NpReduce.v): every output element is a
   Cartesian vector of the operand's flavor whose components are the sums, in NumPy's order, of the elements' Cartesian accessors —
   the accessors of the object backend (T3 table), whatever system the elements are stored in. *)
From Coq Require Import ZArith List Bool.
From VP Require Import ObjModel ObjNames ObjApi ObjChecks NpReduce.
Import ListNotations.

Fixpoint rename_who (w : nat) (e : oexpr) : oexpr :=
  match e with
  | OVar 0 i => OVar w i
  | OCall f xs => OCall f (map (rename_who w) xs)
  | OOp f xs => OOp f (map (rename_who w) xs)
  | OProj i x => OProj i (rename_who w x)
  | _ => e end.
Definition cart_names (d : nat) : list name := match d with 2 => [N_x; N_y] | 3 => [N_x; N_y; N_z] | _ => [N_x; N_y; N_z; N_t] end.
Definition cart_sys (d : nat) : list csys := match d with 2 => [CXY] | 3 => [CXY; CZ] | _ => [CXY; CZ; CT] end.
Definition elem_get (s : src) (w : nat) (g : name) : option oexpr := option_map (rename_who w) (getter s g).
Definition sum_chain (s : src) (whos : list nat) (g : name) : option oexpr :=
  match whos with
  | [] => None
  | w :: r => fold_left (fun acc w' => match acc, elem_get s w' g with Some a, Some b => Some (OOp N_add [a; b]) | _, _ => None end) r (elem_get s w g)
  end.
Fixpoint all2 (l1 : list (option oexpr)) (l2 : list oexpr) : bool :=
  match l1, l2 with [], [] => true | Some x :: r1, y :: r2 => oexpr_eqb x y && all2 r1 r2 | _, _ => false end.
Definition check_reduce (row : src * list nat * outcome) : bool :=
  let '(s, whos, o) := row in
  match o with
  | OutVec c sys cs flag =>
      ocls_eqb c (gen_cls (s_dim s) (s_mom s)) && list_eqb csys_eqb sys (cart_sys (s_dim s)) && flag &&
      all2 (map (sum_chain s whos) (cart_names (s_dim s))) cs
  | _ => false end.
Definition multi (row : src * list nat * outcome) : bool := let '(_, whos, _) := row in Nat.ltb 1 (length whos).

