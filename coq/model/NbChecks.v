(* Decision procedures over the generated Numba/interpreter table (gen/NbApi*.v) used by props/C07.v. *)
From Coq Require Import ZArith List Bool.
From VP Require Import ObjModel ObjNames NbModel NbApi.
Import ListNotations.

Definition sym_ops : list name := [N_op_eq; N_op_ne].

(* KNOWN FINDING C07-numba-flavor (known_findings.json): the compiled path makes the result a momentum vector only if
   BOTH operands are (flavor_of in _numba_object.py uses `and`; the boosts take the class of the boosted vector), the
   interpreter if ANY counted operand is.  tests/backends/test_numba_object.py::test_method_add pins the compiled
   behaviour, so it is recorded, not repaired.  Exactly these methods, exactly the class flavor, nothing else: *)
Definition flavor_methods : list name :=
  [N_add; N_op_add; N_subtract; N_op_sub; N_cross; N_np_add; N_np_subtract; N_boost; N_boost_p4; N_boost_beta3;
   N_boostCM_of; N_boostCM_of_p4; N_boostCM_of_beta3].
Definition unflavor (c : ocls) : ocls := match c with MO2 => VO2 | MO3 => VO3 | MO4 => VO4 | x => x end.
Definition strip (o : outcome) : outcome := match o with OutVec c s xs b => OutVec (unflavor c) s xs b | x => x end.
Definition is_mom (o : outcome) : bool := match o with OutVec c _ _ _ => cls_mom c | _ => false end.
Definition mixed_flavor (s : list src) : bool :=
  match s with [a; b] => xorb (s_mom a) (s_mom b) | _ => false end.
Definition known_flavor (r : nbrow) : bool :=
  let '((f, n, s), nb, py) := r in
  fam_eqb f FBinary && mem_name n flavor_methods && mixed_flavor s &&
  outcome_eqb (strip nb) (strip py) && negb (is_mom nb) && is_mom py.
(* KNOWN FINDING C07-numba-numpy-power: compiled numpy.power(v, 2) returns rho2 / mag2 / tau2, the interpreter abs(v)**2 *)
Definition known_power (r : nbrow) : bool :=
  let '((f, n, s), nb, py) := r in fam_eqb f FUnary && Pos.eqb n N_np_power2.
Definition known (r : nbrow) : bool := known_flavor r || known_power r.

(* == and != : Python evaluates a == b as b.__eq__(a) when type(b) is a proper subclass of type(a) (a generic, b momentum),
   i.e. the reflected call b.equal(a), another compute variant on exchanged operands; equal / not_equal are symmetric
   across signatures (C12), so that is the same value.  Checked here: the compiled operator is the compiled method, the
   interpreted operator is the interpreted method or the reflected interpreted method, and the method rows agree. *)
Definition nb_index : index := build_index nb_tab.
Definition op_method (n : name) : name := if Pos.eqb n N_op_eq then N_equal else N_not_equal.
Definition agree_sym (r : nbrow) : bool :=
  let '((f, n, s), nb, py) := r in
  if returns nb && returns py then
    match s with
    | [sa; sb] =>
        match ilookup nb_index (FBinary, op_method n, [sa; sb]), ilookup nb_index (FBinary, op_method n, [sb; sa]) with
        | Some (mnb, mpy), Some (rnb, rpy) =>
            outcome_eqb nb mnb && outcome_eqb mnb mpy && outcome_eqb rnb rpy &&
            (outcome_eqb py mpy || outcome_eqb py (swap_out rpy))
        | _, _ => false end
    | _ => false end
  else true.
Definition agree_known (r : nbrow) : bool :=
  strict_agree r || known r || (mem_name (row_name r) sym_ops && agree_sym r).
(* value part alone (class flavor ignored): no exception needed for the flavor finding *)
Definition agree_values (r : nbrow) : bool :=
  let '((f, n, s), nb, py) := r in
  if returns nb && returns py then
    outcome_eqb (strip nb) (strip py) || (mem_name n sym_ops && agree_sym r) || known_power r
  else true.

(* the step vocabulary on which the two paths agree strictly: rows of the table minus the listed exceptions *)
Definition step_tab : list nbrow :=
  filter (fun r => negb (known r) && negb (mem_name (row_name r) sym_ops)) nb_tab.

(* names the interpreter offers and the compiled API does not register (lower-case momentum spellings) *)
Definition unregistered : list name := [N_e; N_e2; N_et; N_et2; N_m; N_m2; N_mt; N_mt2].
Definition supported_ok (r : nbrow) : bool := negb (nb_unsupported r) || mem_name (row_name r) unregistered.

Definition chain_known (c : chainrow) : bool :=
  let '(srcs, p, nb, py) := c in
  if returns nb && returns py then
    outcome_eqb nb py || (mixed_flavor srcs && outcome_eqb (strip nb) (strip py))
  else true.

(* the compiled path of a given set of operations (used by the properties that state laws of those operations: the
   laws are proved for the interpreter's compute variants; this makes them hold in compiled code too) *)
Definition agree_on (names : list name) : bool :=
  forallb (fun r => if mem_name (row_name r) names then agree_known r else true) nb_tab.
Definition count_on (names : list name) : nat := count (fun r => mem_name (row_name r) names && both_return r) nb_tab.
