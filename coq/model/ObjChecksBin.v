(* Checks that need the (large) table of binary operations: in-place operators (C15), result typing (C05). *)
From Coq Require Import ZArith List Bool.
From VP Require Import ObjModel ObjNames ObjApi ObjApiBin ObjChecks.
Import ListNotations.

Fixpoint lookup_bin (tab : list (src * src * name * outcome)) (a b : src) (n : name) : option outcome :=
  match tab with [] => None | (a', b', n', o) :: r => if src_eqb a a' && src_eqb b b' && Pos.eqb n n' then Some o else lookup_bin r a b n end.

(* substitute the stored variables of operand 0 by the given expressions *)
Fixpoint subst0 (cs : list oexpr) (e : oexpr) : oexpr :=
  match e with
  | OVar 0 i => nthx i cs
  | OCall f xs => OCall f (map (subst0 cs) xs)
  | OOp f xs => OOp f (map (subst0 cs) xs)
  | OProj i x => OProj i (subst0 cs x)
  | _ => e end.

Definition src_of_outcome (o : outcome) : option src :=
  match o with OutVec c sys _ _ => Some {| s_dim := cls_dim c; s_sys := sys; s_mom := cls_mom c |} | _ => None end.

(* the coordinates of system [want] read off a vector-valued outcome F *)
Definition read_back (want : list csys) (F : outcome) : option (list oexpr) :=
  match F, src_of_outcome F with
  | OutVec _ _ cs _, Some sf =>
      let names := flat_map coord_names want in
      let gs := map (fun n => getter sf n) names in
      if forallb (fun g => match g with Some _ => true | None => false end) gs
      then Some (map (fun g => match g with Some e => subst0 cs e | None => zero end) gs) else None
  | _, _ => None
  end.

Definition functional_of (op : name) : name :=
  if Pos.eqb op N_op_iadd then N_op_add else if Pos.eqb op N_op_isub then N_op_sub
  else if Pos.eqb op N_op_imul then N_mul else N_div.

Definition check_inplace (e : src * option src * name * option name * outcome) : bool :=
  let '(a, b, op, raised, o) := e in
  match raised with
  | Some _ => (* an in-place operation that raises leaves the object unchanged *)
      outcome_eqb o (OutVec (gen_cls (s_dim a) (s_mom a)) (s_sys a) (stored 0 a) true)
  | None =>
      let F := match b with Some b' => lookup_bin binary_tab a b' (functional_of op) | None => lookup_out unary_tab a (functional_of op) end in
      match F, o with
      | Some F', OutVec c sys cs same =>
          same && ocls_eqb c (gen_cls (s_dim a) (s_mom a)) && list_eqb csys_eqb sys (s_sys a) &&
          match read_back (s_sys a) F' with Some want => list_eqb oexpr_eqb cs want | None => false end
      | _, _ => false
      end
  end.
(* raising happens exactly for operands of different dimension *)
Definition check_inplace_raises (e : src * option src * name * option name * outcome) : bool :=
  let '(a, b, op, raised, o) := e in
  match b with
  | Some b' => Bool.eqb (match raised with Some x => Pos.eqb x N_TypeError | None => false end) (negb (Nat.eqb (s_dim a) (s_dim b')))
  | None => match raised with None => true | Some _ => false end
  end.

(* ---- C05: result class / flavor / dimension rules, dimension errors, operator = method ---- *)
Definition same_dim_methods : list name :=
  [N_add; N_op_add; N_subtract; N_op_sub; N_dot; N_op_matmul; N_equal; N_op_eq; N_not_equal; N_op_ne; N_isclose;
   N_is_parallel; N_is_antiparallel; N_is_perpendicular].
Definition vector_valued : list name := [N_add; N_op_add; N_subtract; N_op_sub; N_cross; N_rotate_axis; N_boost_p4; N_boost_beta3; N_boost; N_boostCM_of; N_boostCM_of_p4].
Definition counted_second (n : name) : bool := negb (Pos.eqb n N_rotate_axis).   (* the axis of rotate_axis does not count *)

(* expected outcome TYPE of a binary method on object vectors (None = no rule stated here) *)
Definition expect_raise (a b : src) (n : name) : option bool :=
  if mem_name n same_dim_methods then Some (negb (Nat.eqb (s_dim a) (s_dim b)))
  else if Pos.eqb n N_cross then Some (negb (Nat.eqb (s_dim a) 3 && Nat.eqb (s_dim b) 3))
  else if Pos.eqb n N_rotate_axis then Some (negb (Nat.leb 3 (s_dim a) && Nat.eqb (s_dim b) 3))
  else if Pos.eqb n N_boost_p4 || Pos.eqb n N_boostCM_of_p4 then Some (negb (Nat.eqb (s_dim a) 4 && Nat.eqb (s_dim b) 4))
  else if Pos.eqb n N_boost_beta3 then Some (negb (Nat.eqb (s_dim a) 4 && Nat.eqb (s_dim b) 3))
  else if Pos.eqb n N_boost || Pos.eqb n N_boostCM_of then Some (negb (Nat.eqb (s_dim a) 4 && (Nat.eqb (s_dim b) 3 || Nat.eqb (s_dim b) 4)))
  else None.

Definition check_binary_type (e : src * src * name * outcome) : bool :=
  let '(a, b, n, o) := e in
  match expect_raise a b n with
  | None => true
  | Some true => match o with OutRaise x => Pos.eqb x N_TypeError || Pos.eqb x N_AttributeError | _ => false end
  | Some false =>
      if mem_name n vector_valued then
        match o with
        | OutVec c _ _ _ =>
            (* momentum iff some COUNTED operand is momentum; dimension: cross -> 3, else the first operand's *)
            Bool.eqb (cls_mom c) (s_mom a || (counted_second n && s_mom b)) &&
            Nat.eqb (cls_dim c) (if Pos.eqb n N_cross then 3 else s_dim a)
        | _ => false end
      else match o with OutScalar _ => true | _ => false end
  end.

(* the result coordinate system (and every field expression) depends on the operands' systems only, not on their
   flavors: within one (systems, method) group all flavor combinations agree up to the class flavor, which is
   momentum iff a counted operand is *)
Definition unmom (s : src) : src := {| s_dim := s_dim s; s_sys := s_sys s; s_mom := false |}.
Definition check_flavor_group (g : name * list (bool * bool * outcome)) : bool :=
  let '(n, items) := g in
  match items with
  | [] => true
  | (_, _, o0) :: _ =>
      forallb (fun it => let '(ma, mb, o) := it in
                 outcome_eqb (strip o) (strip o0) &&
                 match o with OutVec c _ _ _ => Bool.eqb (cls_mom c) (ma || (counted_second n && mb)) | _ => true end) items
  end.

Fixpoint swap01 (e : oexpr) : oexpr :=
  match e with
  | OVar 0 i => OVar 1 i | OVar 1 i => OVar 0 i
  | OCall f xs => OCall f (map swap01 xs) | OOp f xs => OOp f (map swap01 xs) | OProj i x => OProj i (swap01 x) | _ => e end.
Definition swap_out (o : outcome) : outcome := match o with OutScalar e => OutScalar (swap01 e) | _ => o end.

(* an operator gives the same value and type as the method it stands for *)
Definition op_method : list (name * name) := [(N_op_add, N_add); (N_op_sub, N_subtract); (N_op_matmul, N_dot); (N_op_eq, N_equal); (N_op_ne, N_not_equal)].
Definition check_operator_pair (e : name * outcome * option outcome * option outcome) : bool :=
  let '(n, o, m, refl) := e in
  opt_outcome_eqb (Some o) m ||
  (* Python evaluates a == b as b.__eq__(a) when type(b) is a subclass of type(a): the reflected call b.equal(a);
     equal / not_equal are symmetric (C12), so this is the same value *)
  ((Pos.eqb n N_op_eq || Pos.eqb n N_op_ne) && opt_outcome_eqb (Some (swap_out o)) refl).
Definition norm_of (d : nat) : name := match d with 2 => N_rho_m | 3 => N_mag_m | _ => N_tau_m end.
Definition norm2_of (d : nat) : name := match d with 2 => N_rho2_m | 3 => N_mag2_m | _ => N_tau2_m end.
Definition check_operator_unary (e : src * name * outcome) : bool :=
  let '(s, n, o) := e in
  let same_as m := opt_outcome_eqb (Some o) (lookup_out unary_tab s m) in
  if Pos.eqb n N_neg then same_as N_scale_m1
  else if Pos.eqb n N_mul || Pos.eqb n N_rmul then same_as N_scale
  else if Pos.eqb n N_div then same_as N_scale_inv
  else if Pos.eqb n N_abs then same_as (norm_of (s_dim s))
  else if Pos.eqb n N_pow2 then same_as (norm2_of (s_dim s))
  else if Pos.eqb n N_pos then outcome_eqb o (OutVec (gen_cls (s_dim s) (s_mom s)) (s_sys s) (stored 0 s) false)
  else true.
(* unary methods: class keeps flavor; dimension: to_beta3 -> 3, else kept; methods of a higher dimension raise *)
Definition check_unary_type (e : src * name * outcome) : bool :=
  let '(s, n, o) := e in
  match o with
  | OutVec c _ _ _ => Bool.eqb (cls_mom c) (s_mom s) && Nat.eqb (cls_dim c) (if Pos.eqb n N_to_beta3 then 3 else s_dim s)
  | _ => true end.
(* rotate_nautical(yaw, pitch, roll) = rotate_euler(roll, pitch, yaw, "zyx"); order is case-insensitive; default order zxz *)
Definition check_rotation_spellings (e : src * name * outcome) : bool :=
  let '(s, n, o) := e in
  let same_as m := opt_outcome_eqb (Some o) (lookup_out unary_tab s m) in
  if Pos.eqb n N_rotate_nautical || Pos.eqb n N_rotate_euler then same_as N_rotate_euler_zyx
  else if Pos.eqb n N_rotate_euler_default then same_as N_rotate_euler_zxz else true.
