(* Checks that need the (large) table of binary operations: in-place operators (C15), result typing (C05). *)
From Coq Require Import ZArith List Bool.
From VP Require Import ObjModel ObjNames ObjApi ObjApiBin ObjChecks.
Import ListNotations.

Fixpoint lookup_bin (tab : list (src * src * name * outcome)) (a b : src) (n : name) : option outcome :=
  match tab with [] => None | (a', b', n', o) :: r => if src_eqb a a' && src_eqb b b' && Pos.eqb n n' then Some o else lookup_bin r a b n end.

(* substitute the stored variables of operand 0 by the given expressions *)
Fixpoint subst0 (cs : list oexpr) (e : oexpr) : oexpr :=
  match e with
  | OVar 0 i => nthx i cs
  | OCall f xs => OCall f (map (subst0 cs) xs)
  | OOp f xs => OOp f (map (subst0 cs) xs)
  | OProj i x => OProj i (subst0 cs x)
  | _ => e end.

Definition src_of_outcome (o : outcome) : option src :=
  match o with OutVec c sys _ _ => Some {| s_dim := cls_dim c; s_sys := sys; s_mom := cls_mom c |} | _ => None end.

(* the coordinates of system [want] read off a vector-valued outcome F *)
Definition read_back (want : list csys) (F : outcome) : option (list oexpr) :=
  match F, src_of_outcome F with
  | OutVec _ _ cs _, Some sf =>
      let names := flat_map coord_names want in
      let gs := map (fun n => getter sf n) names in
      if forallb (fun g => match g with Some _ => true | None => false end) gs
      then Some (map (fun g => match g with Some e => subst0 cs e | None => zero end) gs) else None
  | _, _ => None
  end.

Definition functional_of (op : name) : name :=
  if Pos.eqb op N_op_iadd then N_op_add else if Pos.eqb op N_op_isub then N_op_sub
  else if Pos.eqb op N_op_imul then N_mul else N_div.

Definition check_inplace (e : src * option src * name * option name * outcome) : bool :=
  let '(a, b, op, raised, o) := e in
  match raised with
  | Some _ => (* an in-place operation that raises leaves the object unchanged *)
      outcome_eqb o (OutVec (gen_cls (s_dim a) (s_mom a)) (s_sys a) (stored 0 a) true)
  | None =>
      let F := match b with Some b' => lookup_bin binary_tab a b' (functional_of op) | None => lookup_out unary_tab a (functional_of op) end in
      match F, o with
      | Some F', OutVec c sys cs same =>
          same && ocls_eqb c (gen_cls (s_dim a) (s_mom a)) && list_eqb csys_eqb sys (s_sys a) &&
          match read_back (s_sys a) F' with Some want => list_eqb oexpr_eqb cs want | None => false end
      | _, _ => false
      end
  end.
(* raising happens exactly for operands of different dimension *)
Definition check_inplace_raises (e : src * option src * name * option name * outcome) : bool :=
  let '(a, b, op, raised, o) := e in
  match b with
  | Some b' => Bool.eqb (match raised with Some x => Pos.eqb x N_TypeError | None => false end) (negb (Nat.eqb (s_dim a) (s_dim b')))
  | None => match raised with None => true | Some _ => false end
  end.
