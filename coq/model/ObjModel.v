(* M-obj: data model of the outcomes of public object-API calls executed symbolically on the real backend (T3).
   The tables themselves are GENERATED (gen/ObjApi.v); this file holds the types and decision procedures. *)
From Coq Require Import ZArith List Bool.
Import ListNotations.
(* names (compute functions, methods, keywords, exception types) are positive ids; gen/ObjNames.v binds them *)
Definition name := positive.

Inductive csys := CXY | CRhoPhi | CZ | CTheta | CEta | CT | CTau.
Inductive ocls := VO2 | VO3 | VO4 | MO2 | MO3 | MO4 | OtherCls.
Inductive oexpr :=
| OVar (who i : nat)                      (* stored coordinate i of operand who (0 = self / first, 1 = second) *)
| OKw (k : name)                        (* the value passed for keyword / scalar argument k *)
| OCst (n : Z) (d : positive)             (* literal *)
| OCall (f : name) (args : list oexpr)  (* call of the generated compute definition f *)
| OProj (i : nat) (e : oexpr)
| OOp (op : name) (args : list oexpr).  (* a primitive of the vocabulary applied outside the compute layer *)
Inductive outcome :=
| OutVec (c : ocls) (sys : list csys) (coords : list oexpr) (same_object : bool)
| OutScalar (e : oexpr)
| OutRaise (exc : name)
| OutOther (what : name).
Record src := { s_dim : nat; s_sys : list csys; s_mom : bool }.

Definition csys_eqb (a b : csys) : bool :=
  match a, b with CXY, CXY | CRhoPhi, CRhoPhi | CZ, CZ | CTheta, CTheta | CEta, CEta | CT, CT | CTau, CTau => true | _, _ => false end.
Definition ocls_eqb (a b : ocls) : bool :=
  match a, b with VO2, VO2 | VO3, VO3 | VO4, VO4 | MO2, MO2 | MO3, MO3 | MO4, MO4 | OtherCls, OtherCls => true | _, _ => false end.
Fixpoint list_eqb {A} (eqb : A -> A -> bool) (l1 l2 : list A) : bool :=
  match l1, l2 with [], [] => true | a :: l1', b :: l2' => eqb a b && list_eqb eqb l1' l2' | _, _ => false end.
Fixpoint oexpr_eqb (a b : oexpr) {struct a} : bool :=
  match a, b with
  | OVar w i, OVar w' i' => Nat.eqb w w' && Nat.eqb i i'
  | OKw k, OKw k' => Pos.eqb k k'
  | OCst n d, OCst n' d' => Z.eqb n n' && Pos.eqb d d'
  | OCall f xs, OCall f' ys => Pos.eqb f f' &&
      (fix go (l1 l2 : list oexpr) : bool :=
         match l1, l2 with [], [] => true | x :: l1', y :: l2' => oexpr_eqb x y && go l1' l2' | _, _ => false end) xs ys
  | OProj i e, OProj i' e' => Nat.eqb i i' && oexpr_eqb e e'
  | OOp f xs, OOp f' ys => Pos.eqb f f' &&
      (fix go (l1 l2 : list oexpr) : bool :=
         match l1, l2 with [], [] => true | x :: l1', y :: l2' => oexpr_eqb x y && go l1' l2' | _, _ => false end) xs ys
  | _, _ => false end.
Definition outcome_eqb (a b : outcome) : bool :=
  match a, b with
  | OutVec c s xs o, OutVec c' s' ys o' => ocls_eqb c c' && list_eqb csys_eqb s s' && list_eqb oexpr_eqb xs ys && Bool.eqb o o'
  | OutScalar e, OutScalar e' => oexpr_eqb e e'
  | OutRaise x, OutRaise y => Pos.eqb x y
  | OutOther x, OutOther y => Pos.eqb x y
  | _, _ => false end.
Definition src_eqb (a b : src) : bool :=
  Nat.eqb (s_dim a) (s_dim b) && list_eqb csys_eqb (s_sys a) (s_sys b) && Bool.eqb (s_mom a) (s_mom b).

(* stored coordinates of operand who, as variables *)
Fixpoint vars_from (who : nat) (i n : nat) : list oexpr :=
  match n with O => [] | S k => OVar who i :: vars_from who (S i) k end.
Definition stored (who : nat) (s : src) : list oexpr := vars_from who 0 (List.length (s_sys s) + 1).
Definition is_raise (o : outcome) (exc : name) : bool := match o with OutRaise e => Pos.eqb e exc | _ => false end.
Definition gen_cls (dim : nat) (mom : bool) : ocls :=
  match dim, mom with 2, false => VO2 | 3, false => VO3 | 4, false => VO4 | 2, true => MO2 | 3, true => MO3 | 4, true => MO4 | _, _ => OtherCls end.
Definition cls_dim (c : ocls) : nat := match c with VO2 | MO2 => 2 | VO3 | MO3 => 3 | VO4 | MO4 => 4 | OtherCls => 0 end.
Definition cls_mom (c : ocls) : bool := match c with MO2 | MO3 | MO4 => true | _ => false end.
Definition mem_name (x : name) (l : list name) : bool := existsb (Pos.eqb x) l.
