(* M3: the documented coordinate-name sets.  A name set is a 19-bit N, bit i = i-th name of vector's
   _coordinate_order: 0 x,1 px,2 y,3 py,4 rho,5 pt,6 phi,7 z,8 pz,9 theta,10 eta,11 t,12 E,13 e,14 energy,15 tau,16 M,17 m,18 mass.
   [documented] is written from the documentation of vector.obj (x,y | rho,phi; optionally z | theta | eta; then
   optionally t | tau; any momentum spelling, at most one spelling per coordinate), not from the code. *)
From Coq Require Import NArith List Bool.
Import ListNotations.
Open Scope N_scope.

Definition has (s : N) (i : N) : bool := N.testbit s i.
Definition cnt (s : N) (l : list N) : N := fold_left (fun a i => if has s i then a + 1 else a) l 0.
Definition g_x := [0; 1]. Definition g_y := [2; 3]. Definition g_rho := [4; 5]. Definition g_phi := [6].
Definition g_z := [7; 8]. Definition g_theta := [9]. Definition g_eta := [10].
Definition g_t := [11; 12; 13; 14]. Definition g_tau := [15; 16; 17; 18].
Definition momentum_names := [1; 3; 5; 8; 12; 13; 14; 16; 17; 18].
Definition all_groups := [g_x; g_y; g_rho; g_phi; g_z; g_theta; g_eta; g_t; g_tau].

(* result code: 0 = rejected; else dim + 10*az(1 xy, 2 rhophi) + 100*lg(0,1 z,2 theta,3 eta) + 1000*tm(0,1 t,2 tau) + 10000*momentum *)
Definition documented (s : N) : N :=
  let c g := cnt s g in
  if negb (forallb (fun g => c g <=? 1) all_groups) then 0 else
  let az := if (c g_x =? 1) && (c g_y =? 1) && (c g_rho =? 0) && (c g_phi =? 0) then 1
            else if (c g_rho =? 1) && (c g_phi =? 1) && (c g_x =? 0) && (c g_y =? 0) then 2 else 0 in
  if az =? 0 then 0 else
  let nl := c g_z + c g_theta + c g_eta in
  let nt := c g_t + c g_tau in
  if (1 <? nl) || (1 <? nt) || ((0 <? nt) && (nl =? 0)) then 0 else
  let lg := if c g_z =? 1 then 1 else if c g_theta =? 1 then 2 else if c g_eta =? 1 then 3 else 0 in
  let tm := if c g_t =? 1 then 1 else if c g_tau =? 1 then 2 else 0 in
  let mom := if 0 <? cnt s momentum_names then 1 else 0 in
  (2 + nl + nt) + 10 * az + 100 * lg + 1000 * tm + 10000 * mom.

Definition dim_of (code : N) : N := code mod 10.
Definition shape_of_code (code : N) : N := code mod 10000.      (* without the flavor *)
Definition popcount (s : N) : N := cnt s [0;1;2;3;4;5;6;7;8;9;10;11;12;13;14;15;16;17;18].

(* an ARRAY constructor may carry extra names along: its outcome (shape code, used names u) is acceptable for the
   given names s when u is a subset of s and u itself is a documented set of exactly that shape *)
Definition valid_interpretation (s u code : N) : bool := (N.land u s =? u) && (documented u =? code) && negb (code =? 0).

(* iterate over all 2^n name sets *)
Fixpoint allb (n : nat) (f : N -> bool) (base : N) : bool :=
  match n with O => f base | S k => allb k f base && allb k f (base + N.shiftl 1 (N.of_nat k)) end.
Fixpoint collect (n : nat) (f : N -> bool) (base : N) (acc : list N) : list N :=
  match n with
  | O => if f base then base :: acc else acc
  | S k => collect k f base (collect k f (base + N.shiftl 1 (N.of_nat k)) acc)
  end.

(* synonym partner sets: the names of one generic coordinate *)
Definition group_of (i : N) : list N :=
  match find (fun g => existsb (N.eqb i) g) all_groups with Some g => g | None => [] end.
Definition swap_spelling (s i j : N) : N := N.setbit (N.clearbit s i) j.
