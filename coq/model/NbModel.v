(* M9 — data model of "the same program through the Numba overload layer and through the interpreter".
   The tables are GENERATED (gen/NbApi.v, T5): every row holds the outcome of one program point executed symbolically
   through _numba_object.py at typing level (nb) and through the real object backend (py).  Outcomes are symbolic:
   class, coordinate systems and one expression per stored coordinate (or one scalar expression), built from calls of
   the generated compute definitions on the operands' stored coordinates — so equal outcomes mean the same class,
   flavor, dimension, coordinate system and the same value for EVERY operand value, in any carrier (bit for bit in
   float64, provided the compiled compute function computes what its Python source says: trusted, probed).

   Programs of any length are modelled by composition of table rows (substitution of the current coordinates into the
   row's template), and agreement of the two paths is proved by induction over the program. *)
From Coq Require Import ZArith NArith List Bool Lia FMapPositive.
From VP Require Import ObjModel.
Import ListNotations.

Inductive fam := FGetter | FConv | FUnary | FBinary | FObj | FChain.
Definition fam_eqb (a b : fam) : bool :=
  match a, b with FGetter, FGetter | FConv, FConv | FUnary, FUnary | FBinary, FBinary | FObj, FObj | FChain, FChain => true | _, _ => false end.
Definition key := (fam * name * list src)%type.
Definition key_eqb (a b : key) : bool :=
  let '(f, n, s) := a in let '(f', n', s') := b in fam_eqb f f' && Pos.eqb n n' && list_eqb src_eqb s s'.
Definition nbrow := (key * outcome * outcome)%type.           (* key, outcome compiled, outcome interpreted *)
Inductive stepkind := SGet | SUn | SConv | SBin.
Definition chainrow := (list src * list (stepkind * name) * outcome * outcome)%type.

Definition returns (o : outcome) : bool := match o with OutVec _ _ _ _ | OutScalar _ => true | _ => false end.

(* ---------- agreement of one program point *)
Fixpoint swap01 (e : oexpr) : oexpr :=
  match e with
  | OVar 0 i => OVar 1 i | OVar 1 i => OVar 0 i
  | OCall f xs => OCall f (map swap01 xs) | OOp f xs => OOp f (map swap01 xs) | OProj i x => OProj i (swap01 x) | _ => e end.
Definition swap_out (o : outcome) : outcome := match o with OutScalar e => OutScalar (swap01 e) | _ => o end.

(* [sym] : names of the operators == and != : Python evaluates a == b as b.__eq__(a) when type(b) is a proper subclass of
   type(a) (momentum vs generic), i.e. the reflected call; equal / not_equal are symmetric (C12), so for these two names
   the compiled outcome may be the interpreter's with the operands exchanged *)
Definition agree (sym : list name) (r : nbrow) : bool :=
  let '((f, n, s), nb, py) := r in
  if returns nb && returns py then outcome_eqb nb py || (mem_name n sym && outcome_eqb nb (swap_out py)) else true.
Definition strict_agree (r : nbrow) : bool :=
  let '(_, nb, py) := r in if returns nb && returns py then outcome_eqb nb py else true.
(* rows on which both paths return a value: the domain the property speaks about *)
Definition both_return (r : nbrow) : bool := let '(_, nb, py) := r in returns nb && returns py.
Definition nb_unsupported (r : nbrow) : bool := let '(_, nb, py) := r in negb (returns nb) && returns py.
Definition py_raises_nb_returns (r : nbrow) : bool := let '(_, nb, py) := r in returns nb && negb (returns py).
Definition row_name (r : nbrow) : name := let '((_, n, _), _, _) := r in n.
Definition row_fam (r : nbrow) : fam := let '((f, _, _), _, _) := r in f.

(* ---------- programs as compositions of rows *)
Fixpoint lookup (tab : list nbrow) (k : key) : option (outcome * outcome) :=
  match tab with [] => None | (k', nb, py) :: r => if key_eqb k k' then Some (nb, py) else lookup r k end.

Definition nthx (i : nat) (l : list oexpr) : oexpr := nth i l (OKw 1%positive).
(* substitute the stored variables of operand 0 / operand 1 by the given expressions *)
Fixpoint subst (c0 c1 : list oexpr) (e : oexpr) : oexpr :=
  match e with
  | OVar 0 i => nthx i c0
  | OVar 1 i => nthx i c1
  | OCall f xs => OCall f (map (subst c0 c1) xs)
  | OOp f xs => OOp f (map (subst c0 c1) xs)
  | OProj i x => OProj i (subst c0 c1 x)
  | _ => e end.
Definition subst_out (c0 c1 : list oexpr) (o : outcome) : outcome :=
  match o with
  | OutVec c s xs b => OutVec c s (map (subst c0 c1) xs) b
  | OutScalar e => OutScalar (subst c0 c1 e)
  | _ => o end.
Definition src_of (o : outcome) : option (src * list oexpr) :=
  match o with OutVec c sys cs _ => Some ({| s_dim := cls_dim c; s_sys := sys; s_mom := cls_mom c |}, cs) | _ => None end.
Definition fam_of (k : stepkind) : fam := match k with SGet => FGetter | SUn => FUnary | SConv => FConv | SBin => FBinary end.
Definition stuck : outcome := OutOther 1%positive.

(* one step of a program on the current value [cur], second operand [b]; [sel] picks the compiled or interpreted column *)
Definition step_with (lk : key -> option (outcome * outcome)) (sel : outcome * outcome -> outcome) (b cur : outcome) (st : stepkind * name) : outcome :=
  let '(k, n) := st in
  match src_of cur with
  | None => stuck
  | Some (sc, cc) =>
      match k with
      | SBin => match src_of b with
                | None => stuck
                | Some (sb, cb) => match lk (FBinary, n, [sc; sb]) with
                                   | Some p => subst_out cc cb (sel p) | None => stuck end
                end
      | _ => match lk (fam_of k, n, [sc]) with Some p => subst_out cc [] (sel p) | None => stuck end
      end
  end.
Definition step (sel : outcome * outcome -> outcome) (tab : list nbrow) := step_with (lookup tab) sel.
Definition run (sel : outcome * outcome -> outcome) (tab : list nbrow) (b a : outcome) (p : list (stepkind * name)) : outcome :=
  fold_left (step sel tab b) p a.
Definition run_nb := run fst.
Definition run_py := run snd.

(* the initial operands of a chain row *)
Fixpoint vars (who i n : nat) : list oexpr := match n with O => [] | S k => OVar who i :: vars who (S i) k end.
Definition operand (who : nat) (s : src) : outcome :=
  OutVec (gen_cls (s_dim s) (s_mom s)) (s_sys s) (vars who 0 (length (s_sys s) + 1)) false.

(* a sampled chain executed DIRECTLY by T5/T3 agrees with the composition of rows (validates the compositional model);
   chains that leave the tabulated lattice (mixed-dimension pairings other than the representative ones) are skipped *)
Definition run_with (lk : key -> option (outcome * outcome)) (sel : outcome * outcome -> outcome) (b a : outcome) (p : list (stepkind * name)) : outcome :=
  fold_left (step_with lk sel b) p a.
Definition chain_consistent (lk : key -> option (outcome * outcome)) (c : chainrow) : bool :=
  let '(srcs, p, nb, py) := c in
  match srcs with
  | [sa; sb] =>
      let a := operand 0 sa in let b := operand 1 sb in
      let mnb := run_with lk fst b a p in let mpy := run_with lk snd b a p in
      (if returns mnb && returns nb then outcome_eqb mnb nb else true) &&
      (if returns mpy && returns py then outcome_eqb mpy py else true)
  | _ => false end.
Definition chain_covered (lk : key -> option (outcome * outcome)) (c : chainrow) : bool :=
  let '(srcs, p, nb, py) := c in
  match srcs with [sa; sb] => returns (run_with lk fst (operand 1 sb) (operand 0 sa) p) && returns nb | _ => false end.
Definition chain_agrees (c : chainrow) : bool :=
  let '(_, _, nb, py) := c in if returns nb && returns py then outcome_eqb nb py else true.

(* ---------- the induction: strict row-wise agreement lifts to programs of any length *)
Definition tab_strict (tab : list nbrow) : Prop := forall k nb py, lookup tab k = Some (nb, py) -> returns nb = true -> returns py = true -> nb = py.

Lemma returns_subst c0 c1 o : returns (subst_out c0 c1 o) = returns o.
Proof. destruct o; reflexivity. Qed.
Lemma not_returns_stuck : returns stuck = false. Proof. reflexivity. Qed.

Lemma step_stuck sel tab b o st : returns o = false -> returns (step sel tab b o st) = false.
Proof. intros H. destruct st as [k n]. unfold step, step_with. destruct o; simpl in *; try discriminate; reflexivity. Qed.
Lemma run_stuck sel tab b p : forall o, returns o = false -> returns (run sel tab b o p) = false.
Proof. unfold run. induction p as [|st p IH]; intros o H; simpl; [exact H|]. apply IH. apply step_stuck. exact H. Qed.

Lemma step_agree tab b cur st : tab_strict tab ->
  returns (step fst tab b cur st) = true -> returns (step snd tab b cur st) = true -> step fst tab b cur st = step snd tab b cur st.
Proof.
  intros HT. destruct st as [k n]. unfold step, step_with.
  destruct (src_of cur) as [[sc cc]|]; [|reflexivity].
  destruct k.
  all: try (simpl fam_of; match goal with |- context [lookup ?T ?K] => destruct (lookup T K) as [[nb py]|] eqn:E end;
            [|reflexivity]; simpl fst; simpl snd; rewrite !returns_subst; intros H1 H2; rewrite (HT _ _ _ E H1 H2); reflexivity).
  destruct (src_of b) as [[sb cb]|]; [|reflexivity].
  destruct (lookup tab (FBinary, n, [sc; sb])) as [[nb py]|] eqn:E; [|reflexivity].
  simpl fst; simpl snd; rewrite !returns_subst; intros H1 H2; rewrite (HT _ _ _ E H1 H2); reflexivity.
Qed.

Theorem programs_agree tab b : tab_strict tab -> forall p a,
  returns (run_nb tab b a p) = true -> returns (run_py tab b a p) = true -> run_nb tab b a p = run_py tab b a p.
Proof.
  intros HT p. unfold run_nb, run_py, run.
  induction p as [|st p IH]; intros a H1 H2; simpl in *; [reflexivity|].
  destruct (returns (step fst tab b a st)) eqn:R1.
  2:{ pose proof (run_stuck fst tab b p _ R1) as X. unfold run in X. rewrite X in H1. discriminate. }
  destruct (returns (step snd tab b a st)) eqn:R2.
  2:{ pose proof (run_stuck snd tab b p _ R2) as X. unfold run in X. rewrite X in H2. discriminate. }
  rewrite (step_agree tab b a st HT R1 R2) in *. apply IH; assumption.
Qed.

(* decidable form of tab_strict for a generated table: every row agrees strictly and keys are looked up first-match,
   so checking every row that a lookup can return suffices *)
Definition rows_strict (tab : list nbrow) : bool := forallb strict_agree tab.
Lemma outcome_eqb_eq : forall a b, outcome_eqb a b = true -> a = b.
Proof.
  assert (NE : forall a b, Nat.eqb a b = true -> a = b) by (intros; now apply Nat.eqb_eq).
  assert (PE : forall a b, Pos.eqb a b = true -> a = b) by (intros; now apply Pos.eqb_eq).
  assert (ZE : forall a b, Z.eqb a b = true -> a = b) by (intros; now apply Z.eqb_eq).
  assert (OE : forall a b, oexpr_eqb a b = true -> a = b).
  { fix IH 1. intros a b. destruct a, b; simpl; try discriminate; intros H.
    - apply andb_prop in H as [H1 H2]. f_equal; auto.
    - f_equal; auto.
    - apply andb_prop in H as [H1 H2]. f_equal; auto.
    - apply andb_prop in H as [H1 H2]. f_equal; auto.
      revert args0 H2. induction args as [|x xs IHx]; intros [|y ys] H2; try discriminate; [reflexivity|].
      apply andb_prop in H2 as [Hx Hy]. f_equal; [apply IH; exact Hx | apply IHx; exact Hy].
    - apply andb_prop in H as [H1 H2]. f_equal; auto.
    - apply andb_prop in H as [H1 H2]. f_equal; auto.
      revert args0 H2. induction args as [|x xs IHx]; intros [|y ys] H2; try discriminate; [reflexivity|].
      apply andb_prop in H2 as [Hx Hy]. f_equal; [apply IH; exact Hx | apply IHx; exact Hy]. }
  assert (LE : forall A (eqb : A -> A -> bool), (forall x y, eqb x y = true -> x = y) -> forall l1 l2, list_eqb eqb l1 l2 = true -> l1 = l2).
  { intros A eqb He. induction l1 as [|x xs IHx]; intros [|y ys] H; simpl in H; try discriminate; [reflexivity|].
    apply andb_prop in H as [Hx Hy]. f_equal; auto. }
  intros a b. destruct a, b; simpl; try discriminate; intros H.
  - apply andb_prop in H as [H H4]. apply andb_prop in H as [H H3]. apply andb_prop in H as [H1 H2].
    f_equal.
    + destruct c, c0; simpl in H1; try discriminate; reflexivity.
    + apply (LE _ csys_eqb); [|exact H2]. intros x y; destruct x, y; simpl; try discriminate; reflexivity.
    + apply (LE _ oexpr_eqb OE); exact H3.
    + apply Bool.eqb_prop; exact H4.
  - f_equal; auto.
  - f_equal; auto.
  - f_equal; auto.
Qed.

Lemma rows_strict_sound tab : rows_strict tab = true -> tab_strict tab.
Proof.
  unfold rows_strict, tab_strict. induction tab as [|[[k' nb'] py'] r IH]; intros H k nb py L Rn Rp; simpl in *; [discriminate|].
  apply andb_prop in H as [H0 H].
  destruct (key_eqb k k').
  - injection L as -> ->. unfold strict_agree in H0. rewrite Rn, Rp in H0. simpl in H0. apply outcome_eqb_eq; exact H0.
  - eapply IH; eauto.
Qed.

Definition count {A} (f : A -> bool) (l : list A) : nat := length (filter f l).

(* ---------- an index of the table for the checks that look rows up many times (vm_compute is call-by-value; a list
   lookup per row is quadratic).  A found row is re-checked against the requested key, so a collision of the code can
   only make a check fail, never succeed wrongly; and every indexed row is a row of the table (index_sound). *)
Definition csys_code (c : csys) : N := match c with CXY => 1 | CRhoPhi => 2 | CZ => 3 | CTheta => 4 | CEta => 5 | CT => 6 | CTau => 7 end%N.
Definition src_code (s : src) : N :=
  ((N.of_nat (s_dim s) * 512 + fold_left (fun a c => a * 8 + csys_code c) (s_sys s) 0) * 2 + (if s_mom s then 1 else 0))%N.
Definition fam_code (f : fam) : N := match f with FGetter => 1 | FConv => 2 | FUnary => 3 | FBinary => 4 | FObj => 5 | FChain => 6 end%N.
Definition key_code (k : key) : positive :=
  let '(f, n, s) := k in
  N.succ_pos (fold_left (fun a x => a * 16384 + src_code x) s (fam_code f * 65536 + Npos n))%N.
Definition index := PositiveMap.t nbrow.
Definition build_index (tab : list nbrow) : index :=
  fold_right (fun r m => let '(k, _, _) := r in PositiveMap.add (key_code k) r m) (PositiveMap.empty nbrow) tab.
Definition ilookup (m : index) (k : key) : option (outcome * outcome) :=
  match PositiveMap.find (key_code k) m with
  | Some (k', nb, py) => if key_eqb k k' then Some (nb, py) else None
  | None => None end.
Lemma index_sound tab : forall p r, PositiveMap.find p (build_index tab) = Some r -> In r tab.
Proof.
  induction tab as [|[[k nb] py] t IH]; simpl; intros p r H.
  - rewrite PositiveMap.gempty in H. discriminate.
  - destruct (Pos.eq_dec p (key_code k)) as [->|N].
    + rewrite PositiveMap.gss in H. injection H as <-. left; reflexivity.
    + rewrite PositiveMap.gso in H by exact N. right. eapply IH; exact H.
Qed.
Definition same (k : key) (o : outcome) : nbrow := (k, o, o).
Definition csame (s : list src) (p : list (stepkind * name)) (o : outcome) : chainrow := (s, p, o, o).
