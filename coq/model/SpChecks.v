(* The SymPy backend's glue (constructors, _wrap_result, methods, conversions) executed with the recording lib in place of SympyLib
   (T6, gen/SpApi*.v), next to the object backend on the same program.  What SympyLib computes is the subject of eval_sym (C08). *)
From Coq Require Import ZArith List Bool.
From VP Require Import ObjModel ObjNames NbModel SpApi NpChecks.
Import ListNotations.

(* v ** 2 is abs(v) ** 2 in the SymPy backend and rho2 / mag2 / tau2 in the object backend: equal on the regular domain of C08
   (time-like, forward: tau ** 2 = tau2); listed, not hidden *)
Definition sp_agree (r : nbrow) : bool :=
  let '((f, n, s), sp, py) := r in
  if raises py then raises sp
  else if outcome_eqb (unflag sp) py then true
  else Pos.eqb n N_pow2.
Definition sp_count_returning (r : nbrow) : bool := let '(_, sp, py) := r in returns sp && returns py.
