(* Decision procedures over the generated NumPy/object table (gen/NpApi*.v, T6): the real NumPy backend executed symbolically on
   object-dtype arrays of variables, next to the real object backend on the same program.  A vector outcome of the NumPy column
   carries, in its last field, whether the result is a NumPy vector array. *)
From Coq Require Import ZArith List Bool.
From VP Require Import ObjModel ObjNames NbModel NpApi.
Import ListNotations.

Definition unflag (o : outcome) : outcome := match o with OutVec c s xs _ => OutVec c s xs false | x => x end.
Definition np_index : index := build_index np_tab.
Definition raises (o : outcome) : bool := match o with OutRaise _ => true | _ => false end.

(* == / != between a generic and a momentum operand: Python calls the reflected method of the subclass operand (C12 symmetry) *)
Definition is_sym (n : name) : bool :=
  mem_name n [N_op_eq; N_op_ne; N_op_eq__no; N_op_eq__on; N_op_ne__no; N_op_ne__on].
Definition sym_method (n : name) : name :=
  if mem_name n [N_op_eq; N_op_eq__no; N_op_eq__on] then N_equal else N_not_equal.
Definition np_agree (r : nbrow) : bool :=
  let '((f, n, s), np, py) := r in
  if raises py then raises np                      (* what the object backend rejects, the NumPy backend rejects *)
  else if outcome_eqb (unflag np) py then true     (* same class (up to Numpy/Object), systems, field expressions *)
  else if is_sym n then
    match s with
    | [sa; sb] => match ilookup np_index (FBinary, sym_method n, [sb; sa]) with
                  | Some (_, rpy) => returns np && outcome_eqb py (swap_out rpy) &&
                                     match ilookup np_index (FBinary, sym_method n, [sa; sb]) with
                                     | Some (mnp, _) => outcome_eqb (unflag np) (unflag mnp) | None => false end
                  | None => false end
    | _ => false end
  else false.

(* result backend: a NumPy vector array whenever a counted operand is a NumPy array (every row has one), except rotate_axis
   with an object vector and a NumPy axis (the axis is a secondary argument: the result stays an object vector) and integer
   indexing a[i], which yields the object vector of element i *)
Definition np_backend_ok (r : nbrow) : bool :=
  let '((f, n, s), np, py) := r in
  match np with
  | OutVec _ _ _ flag => Bool.eqb flag (negb (Pos.eqb n N_rotate_axis__on || Pos.eqb n N_index0))
  | _ => true end.

Definition np_agree_on (names : list name) : bool :=
  forallb (fun r => if mem_name (row_name r) names then np_agree r else true) np_tab.
Definition np_count_returning (r : nbrow) : bool := let '(_, np, py) := r in returns np && returns py.
Definition np_agree_fam (f : fam) : bool :=
  forallb (fun r => if fam_eqb (row_fam r) f then np_agree r else true) np_tab.
Definition np_count_fam (f : fam) : nat := count (fun r => fam_eqb (row_fam r) f && np_count_returning r) np_tab.
