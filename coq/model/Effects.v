(* M8: process-wide state, the effect skeleton of a dispatch, and interleavings of threads.
   The only state a dispatch touches is NumPy's floating-point error handling, through
   `with numpy.errstate(all="ignore"): ...` — a context manager, which restores the previous setting when the block
   is left, normally, by return or by an exception. *)
From Coq Require Import List String Bool Arith Lia.
Import ListNotations.

Inductive stmt :=
| SLocal                                            (* assignment to local names *)
| SReturn | SRaise
| SWith (errstate_only : bool) (body : list stmt)   (* with <context managers>: body *)
| SIf (a b : list stmt)
| SEffect (what : string).                          (* anything else that could touch process-wide state *)

Record globals := { errstate : nat; warnings_filters : nat; printoptions : nat; ak_behavior : nat }.
Inductive outcome := Normal | Returned | Raised.
Definition enter (g : globals) : globals := {| errstate := 0; warnings_filters := warnings_filters g; printoptions := printoptions g; ak_behavior := ak_behavior g |}.
Definition leave (g g1 : globals) : globals := {| errstate := errstate g; warnings_filters := warnings_filters g1; printoptions := printoptions g1; ak_behavior := ak_behavior g1 |}.
Definition bump (g : globals) : globals := {| errstate := S (errstate g); warnings_filters := S (warnings_filters g); printoptions := printoptions g; ak_behavior := ak_behavior g |}.

(* big-step semantics; ANY statement may raise before having an effect (ex_abort) *)
Inductive ex : list stmt -> globals -> globals -> outcome -> Prop :=
| ex_nil g : ex [] g g Normal
| ex_abort st rest g : ex (st :: rest) g g Raised
| ex_local rest g g' o : ex rest g g' o -> ex (SLocal :: rest) g g' o
| ex_return rest g : ex (SReturn :: rest) g g Returned
| ex_raise rest g : ex (SRaise :: rest) g g Raised
| ex_effect w rest g g' o : ex rest (bump g) g' o -> ex (SEffect w :: rest) g g' o
| ex_with_through ok body rest g g1 g' o : ex body (enter g) g1 Normal -> ex rest (leave g g1) g' o -> ex (SWith ok body :: rest) g g' o
| ex_with_exit ok body rest g g1 o : o <> Normal -> ex body (enter g) g1 o -> ex (SWith ok body :: rest) g (leave g g1) o
| ex_if_a a b rest g g1 g' o : ex a g g1 Normal -> ex rest g1 g' o -> ex (SIf a b :: rest) g g' o
| ex_if_b a b rest g g1 g' o : ex b g g1 Normal -> ex rest g1 g' o -> ex (SIf a b :: rest) g g' o
| ex_if_exit_a a b rest g g1 o : o <> Normal -> ex a g g1 o -> ex (SIf a b :: rest) g g1 o
| ex_if_exit_b a b rest g g1 o : o <> Normal -> ex b g g1 o -> ex (SIf a b :: rest) g g1 o.

(* balanced: no raw effect anywhere; with-blocks are errstate contexts only *)
Fixpoint bal_stmt (s : stmt) : bool :=
  match s with
  | SEffect _ => false
  | SWith ok body => ok && forallb bal_stmt body
  | SIf a b => forallb bal_stmt a && forallb bal_stmt b
  | _ => true
  end.
Definition balanced (p : list stmt) : bool := forallb bal_stmt p.

(* inside a balanced block only the error state may differ from the entry state *)
Definition same_but_errstate (g1 g2 : globals) : Prop :=
  warnings_filters g1 = warnings_filters g2 /\ printoptions g1 = printoptions g2 /\ ak_behavior g1 = ak_behavior g2.

Lemma balanced_frame p g g' o : ex p g g' o -> balanced p = true -> errstate g' = errstate g /\ same_but_errstate g' g.
Proof.
  unfold balanced.
  induction 1 as [g|st rest g|rest g g' o H IH|rest g|rest g|w rest g g' o H IH|ok body rest g g1 g' o Hb IHb Hr IHr
                  |ok body rest g g1 o Hn Hb IHb|a b rest g g1 g' o Ha IHa Hr IHr|a b rest g g1 g' o Ha IHa Hr IHr
                  |a b rest g g1 o Hn Ha IHa|a b rest g g1 o Hn Ha IHa]; intros B; cbn [forallb bal_stmt] in B;
    try (split; [reflexivity | repeat split; reflexivity]).
  - apply IH; exact B.
  - discriminate.
  - apply andb_prop in B. destruct B as [B Br]. apply andb_prop in B. destruct B as [_ Bb].
    destruct (IHb Bb) as [_ [W1 [P1 A1]]]. destruct (IHr Br) as [E [W2 [P2 A2]]]. cbn in *.
    split; [exact E | repeat split; congruence].
  - apply andb_prop in B. destruct B as [B _]. apply andb_prop in B. destruct B as [_ Bb].
    destruct (IHb Bb) as [_ [W1 [P1 A1]]]. cbn in *. split; [reflexivity | repeat split; assumption].
  - apply andb_prop in B. destruct B as [B Br]. apply andb_prop in B. destruct B as [Ba _].
    destruct (IHa Ba) as [E1 [W1 [P1 A1]]]. destruct (IHr Br) as [E2 [W2 [P2 A2]]]. split; [congruence | repeat split; congruence].
  - apply andb_prop in B. destruct B as [B Br]. apply andb_prop in B. destruct B as [_ Bb].
    destruct (IHa Bb) as [E1 [W1 [P1 A1]]]. destruct (IHr Br) as [E2 [W2 [P2 A2]]]. split; [congruence | repeat split; congruence].
  - apply andb_prop in B. destruct B as [B _]. apply andb_prop in B. destruct B as [Ba _]. apply IHa; exact Ba.
  - apply andb_prop in B. destruct B as [B _]. apply andb_prop in B. destruct B as [_ Bb]. apply IHa; exact Bb.
Qed.

(* a balanced dispatch leaves every global exactly as it was — whether it returns or raises, wherever it raises *)
Theorem balanced_leaves_no_trace p g g' o : balanced p = true -> ex p g g' o -> g' = g.
Proof.
  intros B H. destruct (balanced_frame p g g' o H B) as [E [W [P A]]].
  destruct g, g'; cbn in *; congruence.
Qed.

(* ---------- threads ----------
   NumPy keeps the floating-point error state per thread; a dispatch in thread t performs the micro-steps
   Enter t (save the current setting, set "ignore"), Compute t op (emit a result), Leave t (restore the saved setting).
   The scheduler may interleave the micro-steps of different threads arbitrarily. *)
Section Threads.
Context {Op Res : Type} (run : Op -> Res).
Definition thread := nat.
Inductive micro := Enter (t : thread) | Compute (t : thread) (op : Op) | Leave (t : thread).
Definition owner (m : micro) : thread := match m with Enter t | Compute t _ | Leave t => t end.
Record tstate := { cur : nat; saved : list nat; out : list Res }.      (* per-thread: current error setting, stack of saved ones, results so far *)
Definition tstep (s : tstate) (m : micro) : tstate :=
  match m with
  | Enter _ => {| cur := 0; saved := cur s :: saved s; out := out s |}
  | Compute _ op => {| cur := cur s; saved := saved s; out := out s ++ [run op] |}
  | Leave _ => match saved s with c :: r => {| cur := c; saved := r; out := out s |} | [] => s end
  end.
Definition world := thread -> tstate.
Definition wstep (w : world) (m : micro) : world := fun t => if Nat.eqb t (owner m) then tstep (w t) m else w t.
Definition mine (t : thread) (sch : list micro) : list micro := filter (fun m => Nat.eqb (owner m) t) sch.

(* whatever the interleaving, thread t ends exactly where it would have ended running its own micro-steps alone *)
Theorem interleaving_is_sequential (sch : list micro) : forall (w : world) (t : thread),
  fold_left wstep sch w t = fold_left tstep (mine t sch) (w t).
Proof.
  induction sch as [|m sch IH]; intros w t; cbn [fold_left mine filter]; [reflexivity|].
  rewrite IH. unfold wstep. rewrite (Nat.eqb_sym (owner m) t).
  destruct (Nat.eqb t (owner m)); reflexivity.
Qed.
(* two schedules that give every thread the same program leave every thread with the same results and settings *)
Theorem schedules_agree (s1 s2 : list micro) (w : world) : (forall t, mine t s1 = mine t s2) -> forall t, fold_left wstep s1 w t = fold_left wstep s2 w t.
Proof. intros H t. rewrite !interleaving_is_sequential, H. reflexivity. Qed.

(* a thread's own program: a sequence of whole dispatches *)
Definition dispatch_of (t : thread) (op : Op) : list micro := [Enter t; Compute t op; Leave t].
Lemma dispatches_alone t (ops : list Op) : forall s, fold_left tstep (flat_map (dispatch_of t) ops) s = {| cur := cur s; saved := saved s; out := out s ++ map run ops |}.
Proof.
  induction ops as [|op ops IH]; intros s; cbn [flat_map map].
  - rewrite app_nil_r. destruct s; reflexivity.
  - unfold dispatch_of at 1. cbn [app fold_left tstep cur saved out]. rewrite IH. cbn [cur saved out]. rewrite <- app_assoc. reflexivity.
Qed.
(* every interleaving of whole dispatches: each thread's results are its sequential results, its error setting is untouched *)
Theorem threads_deterministic (sch : list micro) (w : world) (t : thread) (ops : list Op) :
  mine t sch = flat_map (dispatch_of t) ops ->
  fold_left wstep sch w t = {| cur := cur (w t); saved := saved (w t); out := out (w t) ++ map run ops |}.
Proof. intros H. rewrite interleaving_is_sequential, H. apply dispatches_alone. Qed.
End Threads.

(* why thread-locality matters: with ONE process-wide setting, save/restore is not interleaving-safe *)
Definition gstep (s : nat * (nat -> list nat)) (m : @micro unit) : nat * (nat -> list nat) :=
  match m with
  | Enter t => (0, fun u => if Nat.eqb u t then fst s :: snd s u else snd s u)
  | Compute _ _ => s
  | Leave t => match snd s t with c :: r => (c, fun u => if Nat.eqb u t then r else snd s u) | [] => s end
  end.
Example shared_setting_leaks : fst (fold_left gstep [Enter 1; Enter 2; Leave 1; Leave 2] (7, fun _ => [])) <> 7.
Proof. vm_compute. discriminate. Qed.
