gen/Compute.vo gen/Compute.glob gen/Compute.v.beautified gen/Compute.required_vo: gen/Compute.v lib/Lib.vo
gen/Compute.vio: gen/Compute.v lib/Lib.vio
gen/Compute.vos gen/Compute.vok gen/Compute.required_vos: gen/Compute.v lib/Lib.vos
gen/ObjApi.vo gen/ObjApi.glob gen/ObjApi.v.beautified gen/ObjApi.required_vo: gen/ObjApi.v model/ObjModel.vo gen/ObjNames.vo
gen/ObjApi.vio: gen/ObjApi.v model/ObjModel.vio gen/ObjNames.vio
gen/ObjApi.vos gen/ObjApi.vok gen/ObjApi.required_vos: gen/ObjApi.v model/ObjModel.vos gen/ObjNames.vos
gen/ObjApiBin.vo gen/ObjApiBin.glob gen/ObjApiBin.v.beautified gen/ObjApiBin.required_vo: gen/ObjApiBin.v model/ObjModel.vo gen/ObjNames.vo
gen/ObjApiBin.vio: gen/ObjApiBin.v model/ObjModel.vio gen/ObjNames.vio
gen/ObjApiBin.vos gen/ObjApiBin.vok gen/ObjApiBin.required_vos: gen/ObjApiBin.v model/ObjModel.vos gen/ObjNames.vos
gen/ObjNames.vo gen/ObjNames.glob gen/ObjNames.v.beautified gen/ObjNames.required_vo: gen/ObjNames.v model/ObjModel.vo
gen/ObjNames.vio: gen/ObjNames.v model/ObjModel.vio
gen/ObjNames.vos gen/ObjNames.vok gen/ObjNames.required_vos: gen/ObjNames.v model/ObjModel.vos
gen/Tables.vo gen/Tables.glob gen/Tables.v.beautified gen/Tables.required_vo: gen/Tables.v lib/Lib.vo gen/Compute.vo
gen/Tables.vio: gen/Tables.v lib/Lib.vio gen/Compute.vio
gen/Tables.vos gen/Tables.vok gen/Tables.required_vos: gen/Tables.v lib/Lib.vos gen/Compute.vos
gen/Totality.vo gen/Totality.glob gen/Totality.v.beautified gen/Totality.required_vo: gen/Totality.v lib/Lib.vo lib/ULib.vo gen/Compute.vo gen/Tables.vo
gen/Totality.vio: gen/Totality.v lib/Lib.vio lib/ULib.vio gen/Compute.vio gen/Tables.vio
gen/Totality.vos gen/Totality.vok gen/Totality.required_vos: gen/Totality.v lib/Lib.vos lib/ULib.vos gen/Compute.vos gen/Tables.vos
gen/Unfold.vo gen/Unfold.glob gen/Unfold.v.beautified gen/Unfold.required_vo: gen/Unfold.v lib/Lib.vo gen/Compute.vo gen/Tables.vo
gen/Unfold.vio: gen/Unfold.v lib/Lib.vio gen/Compute.vio gen/Tables.vio
gen/Unfold.vos gen/Unfold.vok gen/Unfold.required_vos: gen/Unfold.v lib/Lib.vos gen/Compute.vos gen/Tables.vos
lib/BoolLaws.vo lib/BoolLaws.glob lib/BoolLaws.v.beautified lib/BoolLaws.required_vo: lib/BoolLaws.v lib/Lib.vo lib/RLib.vo
lib/BoolLaws.vio: lib/BoolLaws.v lib/Lib.vio lib/RLib.vio
lib/BoolLaws.vos lib/BoolLaws.vok lib/BoolLaws.required_vos: lib/BoolLaws.v lib/Lib.vos lib/RLib.vos
lib/Conv.vo lib/Conv.glob lib/Conv.v.beautified lib/Conv.required_vo: lib/Conv.v lib/Lib.vo lib/RLib.vo lib/Trig.vo
lib/Conv.vio: lib/Conv.v lib/Lib.vio lib/RLib.vio lib/Trig.vio
lib/Conv.vos lib/Conv.vok lib/Conv.required_vos: lib/Conv.v lib/Lib.vos lib/RLib.vos lib/Trig.vos
lib/ELib.vo lib/ELib.glob lib/ELib.v.beautified lib/ELib.required_vo: lib/ELib.v lib/Lib.vo lib/RLib.vo
lib/ELib.vio: lib/ELib.v lib/Lib.vio lib/RLib.vio
lib/ELib.vos lib/ELib.vok lib/ELib.required_vos: lib/ELib.v lib/Lib.vos lib/RLib.vos
lib/Lib.vo lib/Lib.glob lib/Lib.v.beautified lib/Lib.required_vo: lib/Lib.v 
lib/Lib.vio: lib/Lib.v 
lib/Lib.vos lib/Lib.vok lib/Lib.required_vos: lib/Lib.v 
lib/RLib.vo lib/RLib.glob lib/RLib.v.beautified lib/RLib.required_vo: lib/RLib.v lib/Lib.vo
lib/RLib.vio: lib/RLib.v lib/Lib.vio
lib/RLib.vos lib/RLib.vok lib/RLib.required_vos: lib/RLib.v lib/Lib.vos
lib/Spec.vo lib/Spec.glob lib/Spec.v.beautified lib/Spec.required_vo: lib/Spec.v lib/Lib.vo lib/RLib.vo
lib/Spec.vio: lib/Spec.v lib/Lib.vio lib/RLib.vio
lib/Spec.vos lib/Spec.vok lib/Spec.required_vos: lib/Spec.v lib/Lib.vos lib/RLib.vos
lib/Trig.vo lib/Trig.glob lib/Trig.v.beautified lib/Trig.required_vo: lib/Trig.v lib/Lib.vo lib/RLib.vo
lib/Trig.vio: lib/Trig.v lib/Lib.vio lib/RLib.vio
lib/Trig.vos lib/Trig.vok lib/Trig.required_vos: lib/Trig.v lib/Lib.vos lib/RLib.vos
lib/ULib.vo lib/ULib.glob lib/ULib.v.beautified lib/ULib.required_vo: lib/ULib.v lib/Lib.vo
lib/ULib.vio: lib/ULib.v lib/Lib.vio
lib/ULib.vos lib/ULib.vok lib/ULib.required_vos: lib/ULib.v lib/Lib.vos
model/Ctor.vo model/Ctor.glob model/Ctor.v.beautified model/Ctor.required_vo: model/Ctor.v 
model/Ctor.vio: model/Ctor.v 
model/Ctor.vos model/Ctor.vok model/Ctor.required_vos: model/Ctor.v 
model/Layout.vo model/Layout.glob model/Layout.v.beautified model/Layout.required_vo: model/Layout.v 
model/Layout.vio: model/Layout.v 
model/Layout.vos model/Layout.vok model/Layout.required_vos: model/Layout.v 
model/ObjChecks.vo model/ObjChecks.glob model/ObjChecks.v.beautified model/ObjChecks.required_vo: model/ObjChecks.v model/ObjModel.vo gen/ObjNames.vo gen/ObjApi.vo
model/ObjChecks.vio: model/ObjChecks.v model/ObjModel.vio gen/ObjNames.vio gen/ObjApi.vio
model/ObjChecks.vos model/ObjChecks.vok model/ObjChecks.required_vos: model/ObjChecks.v model/ObjModel.vos gen/ObjNames.vos gen/ObjApi.vos
model/ObjChecksBin.vo model/ObjChecksBin.glob model/ObjChecksBin.v.beautified model/ObjChecksBin.required_vo: model/ObjChecksBin.v model/ObjModel.vo gen/ObjNames.vo gen/ObjApi.vo gen/ObjApiBin.vo model/ObjChecks.vo
model/ObjChecksBin.vio: model/ObjChecksBin.v model/ObjModel.vio gen/ObjNames.vio gen/ObjApi.vio gen/ObjApiBin.vio model/ObjChecks.vio
model/ObjChecksBin.vos model/ObjChecksBin.vok model/ObjChecksBin.required_vos: model/ObjChecksBin.v model/ObjModel.vos gen/ObjNames.vos gen/ObjApi.vos gen/ObjApiBin.vos model/ObjChecks.vos
model/ObjHistory.vo model/ObjHistory.glob model/ObjHistory.v.beautified model/ObjHistory.required_vo: model/ObjHistory.v model/ObjModel.vo gen/ObjNames.vo gen/ObjApi.vo gen/ObjApiBin.vo model/ObjChecks.vo model/ObjChecksBin.vo
model/ObjHistory.vio: model/ObjHistory.v model/ObjModel.vio gen/ObjNames.vio gen/ObjApi.vio gen/ObjApiBin.vio model/ObjChecks.vio model/ObjChecksBin.vio
model/ObjHistory.vos model/ObjHistory.vok model/ObjHistory.required_vos: model/ObjHistory.v model/ObjModel.vos gen/ObjNames.vos gen/ObjApi.vos gen/ObjApiBin.vos model/ObjChecks.vos model/ObjChecksBin.vos
model/ObjModel.vo model/ObjModel.glob model/ObjModel.v.beautified model/ObjModel.required_vo: model/ObjModel.v 
model/ObjModel.vio: model/ObjModel.v 
model/ObjModel.vos model/ObjModel.vok model/ObjModel.required_vos: model/ObjModel.v 
proofs/C02_defs.vo proofs/C02_defs.glob proofs/C02_defs.v.beautified proofs/C02_defs.required_vo: proofs/C02_defs.v lib/Lib.vo lib/RLib.vo lib/Trig.vo lib/Conv.vo lib/Spec.vo gen/Compute.vo gen/Tables.vo gen/Unfold.vo proofs/Spec_planar.vo proofs/Spec_spatial1.vo proofs/Spec_spatial2.vo proofs/Spec_lorentz.vo
proofs/C02_defs.vio: proofs/C02_defs.v lib/Lib.vio lib/RLib.vio lib/Trig.vio lib/Conv.vio lib/Spec.vio gen/Compute.vio gen/Tables.vio gen/Unfold.vio proofs/Spec_planar.vio proofs/Spec_spatial1.vio proofs/Spec_spatial2.vio proofs/Spec_lorentz.vio
proofs/C02_defs.vos proofs/C02_defs.vok proofs/C02_defs.required_vos: proofs/C02_defs.v lib/Lib.vos lib/RLib.vos lib/Trig.vos lib/Conv.vos lib/Spec.vos gen/Compute.vos gen/Tables.vos gen/Unfold.vos proofs/Spec_planar.vos proofs/Spec_spatial1.vos proofs/Spec_spatial2.vos proofs/Spec_lorentz.vos
proofs/C04_conv.vo proofs/C04_conv.glob proofs/C04_conv.v.beautified proofs/C04_conv.required_vo: proofs/C04_conv.v lib/Lib.vo lib/RLib.vo lib/Trig.vo lib/Conv.vo lib/Spec.vo gen/Compute.vo gen/Tables.vo gen/Unfold.vo proofs/Spec_planar.vo proofs/Spec_spatial1.vo proofs/Spec_spatial2.vo proofs/Spec_lorentz.vo
proofs/C04_conv.vio: proofs/C04_conv.v lib/Lib.vio lib/RLib.vio lib/Trig.vio lib/Conv.vio lib/Spec.vio gen/Compute.vio gen/Tables.vio gen/Unfold.vio proofs/Spec_planar.vio proofs/Spec_spatial1.vio proofs/Spec_spatial2.vio proofs/Spec_lorentz.vio
proofs/C04_conv.vos proofs/C04_conv.vok proofs/C04_conv.required_vos: proofs/C04_conv.v lib/Lib.vos lib/RLib.vos lib/Trig.vos lib/Conv.vos lib/Spec.vos gen/Compute.vos gen/Tables.vos gen/Unfold.vos proofs/Spec_planar.vos proofs/Spec_spatial1.vos proofs/Spec_spatial2.vos proofs/Spec_lorentz.vos
proofs/C08_sym.vo proofs/C08_sym.glob proofs/C08_sym.v.beautified proofs/C08_sym.required_vo: proofs/C08_sym.v lib/Lib.vo lib/RLib.vo lib/ELib.vo lib/Trig.vo lib/Conv.vo lib/Spec.vo gen/Compute.vo gen/Tables.vo gen/Unfold.vo proofs/Spec_planar.vo proofs/Spec_spatial1.vo proofs/Spec_spatial2.vo proofs/Spec_lorentz.vo
proofs/C08_sym.vio: proofs/C08_sym.v lib/Lib.vio lib/RLib.vio lib/ELib.vio lib/Trig.vio lib/Conv.vio lib/Spec.vio gen/Compute.vio gen/Tables.vio gen/Unfold.vio proofs/Spec_planar.vio proofs/Spec_spatial1.vio proofs/Spec_spatial2.vio proofs/Spec_lorentz.vio
proofs/C08_sym.vos proofs/C08_sym.vok proofs/C08_sym.required_vos: proofs/C08_sym.v lib/Lib.vos lib/RLib.vos lib/ELib.vos lib/Trig.vos lib/Conv.vos lib/Spec.vos gen/Compute.vos gen/Tables.vos gen/Unfold.vos proofs/Spec_planar.vos proofs/Spec_spatial1.vos proofs/Spec_spatial2.vos proofs/Spec_lorentz.vos
proofs/C09_boost.vo proofs/C09_boost.glob proofs/C09_boost.v.beautified proofs/C09_boost.required_vo: proofs/C09_boost.v lib/Lib.vo lib/RLib.vo lib/Trig.vo lib/Conv.vo lib/Spec.vo gen/Compute.vo gen/Tables.vo gen/Unfold.vo proofs/Spec_planar.vo proofs/Spec_spatial1.vo proofs/Spec_spatial2.vo proofs/Spec_lorentz.vo
proofs/C09_boost.vio: proofs/C09_boost.v lib/Lib.vio lib/RLib.vio lib/Trig.vio lib/Conv.vio lib/Spec.vio gen/Compute.vio gen/Tables.vio gen/Unfold.vio proofs/Spec_planar.vio proofs/Spec_spatial1.vio proofs/Spec_spatial2.vio proofs/Spec_lorentz.vio
proofs/C09_boost.vos proofs/C09_boost.vok proofs/C09_boost.required_vos: proofs/C09_boost.v lib/Lib.vos lib/RLib.vos lib/Trig.vos lib/Conv.vos lib/Spec.vos gen/Compute.vos gen/Tables.vos gen/Unfold.vos proofs/Spec_planar.vos proofs/Spec_spatial1.vos proofs/Spec_spatial2.vos proofs/Spec_lorentz.vos
proofs/C09_boost2.vo proofs/C09_boost2.glob proofs/C09_boost2.v.beautified proofs/C09_boost2.required_vo: proofs/C09_boost2.v lib/Lib.vo lib/RLib.vo lib/Trig.vo lib/Conv.vo lib/Spec.vo gen/Compute.vo gen/Tables.vo gen/Unfold.vo proofs/Spec_planar.vo proofs/Spec_spatial1.vo proofs/Spec_spatial2.vo proofs/Spec_lorentz.vo proofs/C09_boost.vo
proofs/C09_boost2.vio: proofs/C09_boost2.v lib/Lib.vio lib/RLib.vio lib/Trig.vio lib/Conv.vio lib/Spec.vio gen/Compute.vio gen/Tables.vio gen/Unfold.vio proofs/Spec_planar.vio proofs/Spec_spatial1.vio proofs/Spec_spatial2.vio proofs/Spec_lorentz.vio proofs/C09_boost.vio
proofs/C09_boost2.vos proofs/C09_boost2.vok proofs/C09_boost2.required_vos: proofs/C09_boost2.v lib/Lib.vos lib/RLib.vos lib/Trig.vos lib/Conv.vos lib/Spec.vos gen/Compute.vos gen/Tables.vos gen/Unfold.vos proofs/Spec_planar.vos proofs/Spec_spatial1.vos proofs/Spec_spatial2.vos proofs/Spec_lorentz.vos proofs/C09_boost.vos
proofs/C10_rot.vo proofs/C10_rot.glob proofs/C10_rot.v.beautified proofs/C10_rot.required_vo: proofs/C10_rot.v lib/Lib.vo lib/RLib.vo lib/Trig.vo lib/Conv.vo lib/Spec.vo gen/Compute.vo gen/Tables.vo gen/Unfold.vo proofs/Spec_planar.vo proofs/Spec_spatial1.vo proofs/Spec_spatial2.vo
proofs/C10_rot.vio: proofs/C10_rot.v lib/Lib.vio lib/RLib.vio lib/Trig.vio lib/Conv.vio lib/Spec.vio gen/Compute.vio gen/Tables.vio gen/Unfold.vio proofs/Spec_planar.vio proofs/Spec_spatial1.vio proofs/Spec_spatial2.vio
proofs/C10_rot.vos proofs/C10_rot.vok proofs/C10_rot.required_vos: proofs/C10_rot.v lib/Lib.vos lib/RLib.vos lib/Trig.vos lib/Conv.vos lib/Spec.vos gen/Compute.vos gen/Tables.vos gen/Unfold.vos proofs/Spec_planar.vos proofs/Spec_spatial1.vos proofs/Spec_spatial2.vos
proofs/C11_laws.vo proofs/C11_laws.glob proofs/C11_laws.v.beautified proofs/C11_laws.required_vo: proofs/C11_laws.v lib/Lib.vo lib/RLib.vo lib/Trig.vo lib/Conv.vo lib/Spec.vo gen/Compute.vo gen/Tables.vo gen/Unfold.vo proofs/Spec_planar.vo proofs/Spec_spatial1.vo proofs/Spec_spatial2.vo proofs/Spec_lorentz.vo
proofs/C11_laws.vio: proofs/C11_laws.v lib/Lib.vio lib/RLib.vio lib/Trig.vio lib/Conv.vio lib/Spec.vio gen/Compute.vio gen/Tables.vio gen/Unfold.vio proofs/Spec_planar.vio proofs/Spec_spatial1.vio proofs/Spec_spatial2.vio proofs/Spec_lorentz.vio
proofs/C11_laws.vos proofs/C11_laws.vok proofs/C11_laws.required_vos: proofs/C11_laws.v lib/Lib.vos lib/RLib.vos lib/Trig.vos lib/Conv.vos lib/Spec.vos gen/Compute.vos gen/Tables.vos gen/Unfold.vos proofs/Spec_planar.vos proofs/Spec_spatial1.vos proofs/Spec_spatial2.vos proofs/Spec_lorentz.vos
proofs/C12_close.vo proofs/C12_close.glob proofs/C12_close.v.beautified proofs/C12_close.required_vo: proofs/C12_close.v lib/Lib.vo lib/RLib.vo lib/BoolLaws.vo gen/Compute.vo gen/Tables.vo gen/Unfold.vo
proofs/C12_close.vio: proofs/C12_close.v lib/Lib.vio lib/RLib.vio lib/BoolLaws.vio gen/Compute.vio gen/Tables.vio gen/Unfold.vio
proofs/C12_close.vos proofs/C12_close.vok proofs/C12_close.required_vos: proofs/C12_close.v lib/Lib.vos lib/RLib.vos lib/BoolLaws.vos gen/Compute.vos gen/Tables.vos gen/Unfold.vos
proofs/C12_eq.vo proofs/C12_eq.glob proofs/C12_eq.v.beautified proofs/C12_eq.required_vo: proofs/C12_eq.v lib/Lib.vo lib/BoolLaws.vo gen/Compute.vo gen/Tables.vo gen/Unfold.vo
proofs/C12_eq.vio: proofs/C12_eq.v lib/Lib.vio lib/BoolLaws.vio gen/Compute.vio gen/Tables.vio gen/Unfold.vio
proofs/C12_eq.vos proofs/C12_eq.vok proofs/C12_eq.required_vos: proofs/C12_eq.v lib/Lib.vos lib/BoolLaws.vos gen/Compute.vos gen/Tables.vos gen/Unfold.vos
proofs/C12_ne.vo proofs/C12_ne.glob proofs/C12_ne.v.beautified proofs/C12_ne.required_vo: proofs/C12_ne.v lib/Lib.vo lib/BoolLaws.vo gen/Compute.vo gen/Tables.vo gen/Unfold.vo proofs/C12_eq.vo
proofs/C12_ne.vio: proofs/C12_ne.v lib/Lib.vio lib/BoolLaws.vio gen/Compute.vio gen/Tables.vio gen/Unfold.vio proofs/C12_eq.vio
proofs/C12_ne.vos proofs/C12_ne.vok proofs/C12_ne.required_vos: proofs/C12_ne.v lib/Lib.vos lib/BoolLaws.vos gen/Compute.vos gen/Tables.vos gen/Unfold.vos proofs/C12_eq.vos
proofs/C13_causal.vo proofs/C13_causal.glob proofs/C13_causal.v.beautified proofs/C13_causal.required_vo: proofs/C13_causal.v lib/Lib.vo lib/RLib.vo lib/Trig.vo gen/Compute.vo gen/Tables.vo gen/Unfold.vo proofs/C13_range.vo
proofs/C13_causal.vio: proofs/C13_causal.v lib/Lib.vio lib/RLib.vio lib/Trig.vio gen/Compute.vio gen/Tables.vio gen/Unfold.vio proofs/C13_range.vio
proofs/C13_causal.vos proofs/C13_causal.vok proofs/C13_causal.required_vos: proofs/C13_causal.v lib/Lib.vos lib/RLib.vos lib/Trig.vos gen/Compute.vos gen/Tables.vos gen/Unfold.vos proofs/C13_range.vos
proofs/C13_par.vo proofs/C13_par.glob proofs/C13_par.v.beautified proofs/C13_par.required_vo: proofs/C13_par.v lib/Lib.vo lib/RLib.vo lib/Trig.vo gen/Compute.vo gen/Tables.vo gen/Unfold.vo proofs/C13_range.vo
proofs/C13_par.vio: proofs/C13_par.v lib/Lib.vio lib/RLib.vio lib/Trig.vio gen/Compute.vio gen/Tables.vio gen/Unfold.vio proofs/C13_range.vio
proofs/C13_par.vos proofs/C13_par.vok proofs/C13_par.required_vos: proofs/C13_par.v lib/Lib.vos lib/RLib.vos lib/Trig.vos gen/Compute.vos gen/Tables.vos gen/Unfold.vos proofs/C13_range.vos
proofs/C13_range.vo proofs/C13_range.glob proofs/C13_range.v.beautified proofs/C13_range.required_vo: proofs/C13_range.v lib/Lib.vo lib/RLib.vo lib/Trig.vo gen/Compute.vo gen/Tables.vo gen/Unfold.vo
proofs/C13_range.vio: proofs/C13_range.v lib/Lib.vio lib/RLib.vio lib/Trig.vio gen/Compute.vio gen/Tables.vio gen/Unfold.vio
proofs/C13_range.vos proofs/C13_range.vok proofs/C13_range.required_vos: proofs/C13_range.v lib/Lib.vos lib/RLib.vos lib/Trig.vos gen/Compute.vos gen/Tables.vos gen/Unfold.vos
proofs/C13_sign.vo proofs/C13_sign.glob proofs/C13_sign.v.beautified proofs/C13_sign.required_vo: proofs/C13_sign.v lib/Lib.vo lib/RLib.vo lib/Trig.vo gen/Compute.vo gen/Tables.vo gen/Unfold.vo proofs/C13_range.vo
proofs/C13_sign.vio: proofs/C13_sign.v lib/Lib.vio lib/RLib.vio lib/Trig.vio gen/Compute.vio gen/Tables.vio gen/Unfold.vio proofs/C13_range.vio
proofs/C13_sign.vos proofs/C13_sign.vok proofs/C13_sign.required_vos: proofs/C13_sign.v lib/Lib.vos lib/RLib.vos lib/Trig.vos gen/Compute.vos gen/Tables.vos gen/Unfold.vos proofs/C13_range.vos
proofs/C17_reduce.vo proofs/C17_reduce.glob proofs/C17_reduce.v.beautified proofs/C17_reduce.required_vo: proofs/C17_reduce.v lib/Lib.vo lib/RLib.vo lib/Trig.vo lib/Conv.vo lib/Spec.vo gen/Compute.vo gen/Tables.vo gen/Unfold.vo proofs/Spec_planar.vo proofs/Spec_spatial1.vo proofs/Spec_spatial2.vo proofs/Spec_lorentz.vo model/Layout.vo
proofs/C17_reduce.vio: proofs/C17_reduce.v lib/Lib.vio lib/RLib.vio lib/Trig.vio lib/Conv.vio lib/Spec.vio gen/Compute.vio gen/Tables.vio gen/Unfold.vio proofs/Spec_planar.vio proofs/Spec_spatial1.vio proofs/Spec_spatial2.vio proofs/Spec_lorentz.vio model/Layout.vio
proofs/C17_reduce.vos proofs/C17_reduce.vok proofs/C17_reduce.required_vos: proofs/C17_reduce.v lib/Lib.vos lib/RLib.vos lib/Trig.vos lib/Conv.vos lib/Spec.vos gen/Compute.vos gen/Tables.vos gen/Unfold.vos proofs/Spec_planar.vos proofs/Spec_spatial1.vos proofs/Spec_spatial2.vos proofs/Spec_lorentz.vos model/Layout.vos
proofs/Spec_lorentz.vo proofs/Spec_lorentz.glob proofs/Spec_lorentz.v.beautified proofs/Spec_lorentz.required_vo: proofs/Spec_lorentz.v lib/Lib.vo lib/RLib.vo lib/Trig.vo lib/Conv.vo lib/Spec.vo gen/Compute.vo gen/Tables.vo gen/Unfold.vo proofs/Spec_planar.vo proofs/Spec_spatial1.vo proofs/Spec_spatial2.vo
proofs/Spec_lorentz.vio: proofs/Spec_lorentz.v lib/Lib.vio lib/RLib.vio lib/Trig.vio lib/Conv.vio lib/Spec.vio gen/Compute.vio gen/Tables.vio gen/Unfold.vio proofs/Spec_planar.vio proofs/Spec_spatial1.vio proofs/Spec_spatial2.vio
proofs/Spec_lorentz.vos proofs/Spec_lorentz.vok proofs/Spec_lorentz.required_vos: proofs/Spec_lorentz.v lib/Lib.vos lib/RLib.vos lib/Trig.vos lib/Conv.vos lib/Spec.vos gen/Compute.vos gen/Tables.vos gen/Unfold.vos proofs/Spec_planar.vos proofs/Spec_spatial1.vos proofs/Spec_spatial2.vos
proofs/Spec_planar.vo proofs/Spec_planar.glob proofs/Spec_planar.v.beautified proofs/Spec_planar.required_vo: proofs/Spec_planar.v lib/Lib.vo lib/RLib.vo lib/Trig.vo lib/Spec.vo gen/Compute.vo gen/Tables.vo gen/Unfold.vo
proofs/Spec_planar.vio: proofs/Spec_planar.v lib/Lib.vio lib/RLib.vio lib/Trig.vio lib/Spec.vio gen/Compute.vio gen/Tables.vio gen/Unfold.vio
proofs/Spec_planar.vos proofs/Spec_planar.vok proofs/Spec_planar.required_vos: proofs/Spec_planar.v lib/Lib.vos lib/RLib.vos lib/Trig.vos lib/Spec.vos gen/Compute.vos gen/Tables.vos gen/Unfold.vos
proofs/Spec_spatial1.vo proofs/Spec_spatial1.glob proofs/Spec_spatial1.v.beautified proofs/Spec_spatial1.required_vo: proofs/Spec_spatial1.v lib/Lib.vo lib/RLib.vo lib/Trig.vo lib/Conv.vo lib/Spec.vo gen/Compute.vo gen/Tables.vo gen/Unfold.vo proofs/Spec_planar.vo
proofs/Spec_spatial1.vio: proofs/Spec_spatial1.v lib/Lib.vio lib/RLib.vio lib/Trig.vio lib/Conv.vio lib/Spec.vio gen/Compute.vio gen/Tables.vio gen/Unfold.vio proofs/Spec_planar.vio
proofs/Spec_spatial1.vos proofs/Spec_spatial1.vok proofs/Spec_spatial1.required_vos: proofs/Spec_spatial1.v lib/Lib.vos lib/RLib.vos lib/Trig.vos lib/Conv.vos lib/Spec.vos gen/Compute.vos gen/Tables.vos gen/Unfold.vos proofs/Spec_planar.vos
proofs/Spec_spatial2.vo proofs/Spec_spatial2.glob proofs/Spec_spatial2.v.beautified proofs/Spec_spatial2.required_vo: proofs/Spec_spatial2.v lib/Lib.vo lib/RLib.vo lib/Trig.vo lib/Conv.vo lib/Spec.vo gen/Compute.vo gen/Tables.vo gen/Unfold.vo proofs/Spec_planar.vo proofs/Spec_spatial1.vo
proofs/Spec_spatial2.vio: proofs/Spec_spatial2.v lib/Lib.vio lib/RLib.vio lib/Trig.vio lib/Conv.vio lib/Spec.vio gen/Compute.vio gen/Tables.vio gen/Unfold.vio proofs/Spec_planar.vio proofs/Spec_spatial1.vio
proofs/Spec_spatial2.vos proofs/Spec_spatial2.vok proofs/Spec_spatial2.required_vos: proofs/Spec_spatial2.v lib/Lib.vos lib/RLib.vos lib/Trig.vos lib/Conv.vos lib/Spec.vos gen/Compute.vos gen/Tables.vos gen/Unfold.vos proofs/Spec_planar.vos proofs/Spec_spatial1.vos
props/C01.vo props/C01.glob props/C01.v.beautified props/C01.required_vo: props/C01.v lib/Lib.vo lib/RLib.vo lib/Spec.vo gen/Compute.vo gen/Tables.vo proofs/Spec_planar.vo proofs/Spec_spatial1.vo proofs/Spec_spatial2.vo proofs/Spec_lorentz.vo
props/C01.vio: props/C01.v lib/Lib.vio lib/RLib.vio lib/Spec.vio gen/Compute.vio gen/Tables.vio proofs/Spec_planar.vio proofs/Spec_spatial1.vio proofs/Spec_spatial2.vio proofs/Spec_lorentz.vio
props/C01.vos props/C01.vok props/C01.required_vos: props/C01.v lib/Lib.vos lib/RLib.vos lib/Spec.vos gen/Compute.vos gen/Tables.vos proofs/Spec_planar.vos proofs/Spec_spatial1.vos proofs/Spec_spatial2.vos proofs/Spec_lorentz.vos
props/C02.vo props/C02.glob props/C02.v.beautified props/C02.required_vo: props/C02.v lib/Lib.vo lib/RLib.vo lib/Spec.vo gen/Compute.vo gen/Tables.vo proofs/Spec_planar.vo proofs/Spec_spatial1.vo proofs/Spec_spatial2.vo proofs/Spec_lorentz.vo proofs/C02_defs.vo proofs/C09_boost.vo proofs/C10_rot.vo
props/C02.vio: props/C02.v lib/Lib.vio lib/RLib.vio lib/Spec.vio gen/Compute.vio gen/Tables.vio proofs/Spec_planar.vio proofs/Spec_spatial1.vio proofs/Spec_spatial2.vio proofs/Spec_lorentz.vio proofs/C02_defs.vio proofs/C09_boost.vio proofs/C10_rot.vio
props/C02.vos props/C02.vok props/C02.required_vos: props/C02.v lib/Lib.vos lib/RLib.vos lib/Spec.vos gen/Compute.vos gen/Tables.vos proofs/Spec_planar.vos proofs/Spec_spatial1.vos proofs/Spec_spatial2.vos proofs/Spec_lorentz.vos proofs/C02_defs.vos proofs/C09_boost.vos proofs/C10_rot.vos
props/C03.vo props/C03.glob props/C03.v.beautified props/C03.required_vo: props/C03.v model/Layout.vo
props/C03.vio: props/C03.v model/Layout.vio
props/C03.vos props/C03.vok props/C03.required_vos: props/C03.v model/Layout.vos
props/C04.vo props/C04.glob props/C04.v.beautified props/C04.required_vo: props/C04.v lib/Lib.vo lib/RLib.vo lib/Spec.vo gen/Compute.vo gen/Tables.vo model/ObjModel.vo gen/ObjNames.vo gen/ObjApi.vo model/ObjChecks.vo proofs/C04_conv.vo
props/C04.vio: props/C04.v lib/Lib.vio lib/RLib.vio lib/Spec.vio gen/Compute.vio gen/Tables.vio model/ObjModel.vio gen/ObjNames.vio gen/ObjApi.vio model/ObjChecks.vio proofs/C04_conv.vio
props/C04.vos props/C04.vok props/C04.required_vos: props/C04.v lib/Lib.vos lib/RLib.vos lib/Spec.vos gen/Compute.vos gen/Tables.vos model/ObjModel.vos gen/ObjNames.vos gen/ObjApi.vos model/ObjChecks.vos proofs/C04_conv.vos
props/C05.vo props/C05.glob props/C05.v.beautified props/C05.required_vo: props/C05.v lib/Lib.vo lib/ULib.vo gen/Totality.vo model/ObjModel.vo gen/ObjNames.vo gen/ObjApi.vo gen/ObjApiBin.vo model/ObjChecks.vo model/ObjChecksBin.vo
props/C05.vio: props/C05.v lib/Lib.vio lib/ULib.vio gen/Totality.vio model/ObjModel.vio gen/ObjNames.vio gen/ObjApi.vio gen/ObjApiBin.vio model/ObjChecks.vio model/ObjChecksBin.vio
props/C05.vos props/C05.vok props/C05.required_vos: props/C05.v lib/Lib.vos lib/ULib.vos gen/Totality.vos model/ObjModel.vos gen/ObjNames.vos gen/ObjApi.vos gen/ObjApiBin.vos model/ObjChecks.vos model/ObjChecksBin.vos
props/C06.vo props/C06.glob props/C06.v.beautified props/C06.required_vo: props/C06.v model/Ctor.vo
props/C06.vio: props/C06.v model/Ctor.vio
props/C06.vos props/C06.vok props/C06.required_vos: props/C06.v model/Ctor.vos
props/C08.vo props/C08.glob props/C08.v.beautified props/C08.required_vo: props/C08.v lib/Lib.vo lib/RLib.vo lib/ELib.vo lib/Spec.vo gen/Compute.vo gen/Tables.vo proofs/C08_sym.vo
props/C08.vio: props/C08.v lib/Lib.vio lib/RLib.vio lib/ELib.vio lib/Spec.vio gen/Compute.vio gen/Tables.vio proofs/C08_sym.vio
props/C08.vos props/C08.vok props/C08.required_vos: props/C08.v lib/Lib.vos lib/RLib.vos lib/ELib.vos lib/Spec.vos gen/Compute.vos gen/Tables.vos proofs/C08_sym.vos
props/C09.vo props/C09.glob props/C09.v.beautified props/C09.required_vo: props/C09.v lib/Lib.vo lib/RLib.vo lib/Spec.vo gen/Compute.vo gen/Tables.vo proofs/C09_boost.vo proofs/C09_boost2.vo
props/C09.vio: props/C09.v lib/Lib.vio lib/RLib.vio lib/Spec.vio gen/Compute.vio gen/Tables.vio proofs/C09_boost.vio proofs/C09_boost2.vio
props/C09.vos props/C09.vok props/C09.required_vos: props/C09.v lib/Lib.vos lib/RLib.vos lib/Spec.vos gen/Compute.vos gen/Tables.vos proofs/C09_boost.vos proofs/C09_boost2.vos
props/C10.vo props/C10.glob props/C10.v.beautified props/C10.required_vo: props/C10.v lib/Lib.vo lib/RLib.vo lib/Spec.vo gen/Compute.vo gen/Tables.vo proofs/Spec_planar.vo proofs/Spec_spatial2.vo proofs/C10_rot.vo
props/C10.vio: props/C10.v lib/Lib.vio lib/RLib.vio lib/Spec.vio gen/Compute.vio gen/Tables.vio proofs/Spec_planar.vio proofs/Spec_spatial2.vio proofs/C10_rot.vio
props/C10.vos props/C10.vok props/C10.required_vos: props/C10.v lib/Lib.vos lib/RLib.vos lib/Spec.vos gen/Compute.vos gen/Tables.vos proofs/Spec_planar.vos proofs/Spec_spatial2.vos proofs/C10_rot.vos
props/C11.vo props/C11.glob props/C11.v.beautified props/C11.required_vo: props/C11.v lib/Lib.vo lib/RLib.vo lib/Spec.vo gen/Compute.vo gen/Tables.vo proofs/Spec_planar.vo proofs/Spec_spatial1.vo proofs/Spec_spatial2.vo proofs/Spec_lorentz.vo proofs/C11_laws.vo
props/C11.vio: props/C11.v lib/Lib.vio lib/RLib.vio lib/Spec.vio gen/Compute.vio gen/Tables.vio proofs/Spec_planar.vio proofs/Spec_spatial1.vio proofs/Spec_spatial2.vio proofs/Spec_lorentz.vio proofs/C11_laws.vio
props/C11.vos props/C11.vok props/C11.required_vos: props/C11.v lib/Lib.vos lib/RLib.vos lib/Spec.vos gen/Compute.vos gen/Tables.vos proofs/Spec_planar.vos proofs/Spec_spatial1.vos proofs/Spec_spatial2.vos proofs/Spec_lorentz.vos proofs/C11_laws.vos
props/C12.vo props/C12.glob props/C12.v.beautified props/C12.required_vo: props/C12.v lib/Lib.vo lib/RLib.vo lib/BoolLaws.vo gen/Compute.vo gen/Tables.vo proofs/C12_eq.vo proofs/C12_ne.vo proofs/C12_close.vo
props/C12.vio: props/C12.v lib/Lib.vio lib/RLib.vio lib/BoolLaws.vio gen/Compute.vio gen/Tables.vio proofs/C12_eq.vio proofs/C12_ne.vio proofs/C12_close.vio
props/C12.vos props/C12.vok props/C12.required_vos: props/C12.v lib/Lib.vos lib/RLib.vos lib/BoolLaws.vos gen/Compute.vos gen/Tables.vos proofs/C12_eq.vos proofs/C12_ne.vos proofs/C12_close.vos
props/C13.vo props/C13.glob props/C13.v.beautified props/C13.required_vo: props/C13.v lib/Lib.vo lib/RLib.vo lib/Trig.vo gen/Compute.vo gen/Tables.vo proofs/C13_range.vo proofs/C13_causal.vo proofs/C13_par.vo proofs/C13_sign.vo
props/C13.vio: props/C13.v lib/Lib.vio lib/RLib.vio lib/Trig.vio gen/Compute.vio gen/Tables.vio proofs/C13_range.vio proofs/C13_causal.vio proofs/C13_par.vio proofs/C13_sign.vio
props/C13.vos props/C13.vok props/C13.required_vos: props/C13.v lib/Lib.vos lib/RLib.vos lib/Trig.vos gen/Compute.vos gen/Tables.vos proofs/C13_range.vos proofs/C13_causal.vos proofs/C13_par.vos proofs/C13_sign.vos
props/C14.vo props/C14.glob props/C14.v.beautified props/C14.required_vo: props/C14.v model/ObjModel.vo gen/ObjNames.vo gen/ObjApi.vo model/ObjChecks.vo
props/C14.vio: props/C14.v model/ObjModel.vio gen/ObjNames.vio gen/ObjApi.vio model/ObjChecks.vio
props/C14.vos props/C14.vok props/C14.required_vos: props/C14.v model/ObjModel.vos gen/ObjNames.vos gen/ObjApi.vos model/ObjChecks.vos
props/C15.vo props/C15.glob props/C15.v.beautified props/C15.required_vo: props/C15.v model/ObjModel.vo gen/ObjNames.vo gen/ObjApi.vo gen/ObjApiBin.vo model/ObjChecks.vo model/ObjChecksBin.vo model/ObjHistory.vo
props/C15.vio: props/C15.v model/ObjModel.vio gen/ObjNames.vio gen/ObjApi.vio gen/ObjApiBin.vio model/ObjChecks.vio model/ObjChecksBin.vio model/ObjHistory.vio
props/C15.vos props/C15.vok props/C15.required_vos: props/C15.v model/ObjModel.vos gen/ObjNames.vos gen/ObjApi.vos gen/ObjApiBin.vos model/ObjChecks.vos model/ObjChecksBin.vos model/ObjHistory.vos
props/C16.vo props/C16.glob props/C16.v.beautified props/C16.required_vo: props/C16.v 
props/C16.vio: props/C16.v 
props/C16.vos props/C16.vok props/C16.required_vos: props/C16.v 
props/C17.vo props/C17.glob props/C17.v.beautified props/C17.required_vo: props/C17.v lib/Lib.vo lib/RLib.vo lib/Spec.vo gen/Compute.vo gen/Tables.vo proofs/Spec_lorentz.vo model/Layout.vo proofs/C17_reduce.vo
props/C17.vio: props/C17.v lib/Lib.vio lib/RLib.vio lib/Spec.vio gen/Compute.vio gen/Tables.vio proofs/Spec_lorentz.vio model/Layout.vio proofs/C17_reduce.vio
props/C17.vos props/C17.vok props/C17.required_vos: props/C17.v lib/Lib.vos lib/RLib.vos lib/Spec.vos gen/Compute.vos gen/Tables.vos proofs/Spec_lorentz.vos model/Layout.vos proofs/C17_reduce.vos
props/C18.vo props/C18.glob props/C18.v.beautified props/C18.required_vo: props/C18.v model/Layout.vo
props/C18.vio: props/C18.v model/Layout.vio
props/C18.vos props/C18.vok props/C18.required_vos: props/C18.v model/Layout.vos
props/C19.vo props/C19.glob props/C19.v.beautified props/C19.required_vo: props/C19.v model/Layout.vo
props/C19.vio: props/C19.v model/Layout.vio
props/C19.vos props/C19.vok props/C19.required_vos: props/C19.v model/Layout.vos
