lib/BoolLaws.vo lib/BoolLaws.glob lib/BoolLaws.v.beautified lib/BoolLaws.required_vo: lib/BoolLaws.v lib/Lib.vo lib/RLib.vo
lib/BoolLaws.vio: lib/BoolLaws.v lib/Lib.vio lib/RLib.vio
lib/BoolLaws.vos lib/BoolLaws.vok lib/BoolLaws.required_vos: lib/BoolLaws.v lib/Lib.vos lib/RLib.vos
lib/Lib.vo lib/Lib.glob lib/Lib.v.beautified lib/Lib.required_vo: lib/Lib.v 
lib/Lib.vio: lib/Lib.v 
lib/Lib.vos lib/Lib.vok lib/Lib.required_vos: lib/Lib.v 
lib/RLib.vo lib/RLib.glob lib/RLib.v.beautified lib/RLib.required_vo: lib/RLib.v lib/Lib.vo
lib/RLib.vio: lib/RLib.v lib/Lib.vio
lib/RLib.vos lib/RLib.vok lib/RLib.required_vos: lib/RLib.v lib/Lib.vos
gen/Compute.vo gen/Compute.glob gen/Compute.v.beautified gen/Compute.required_vo: gen/Compute.v lib/Lib.vo
gen/Compute.vio: gen/Compute.v lib/Lib.vio
gen/Compute.vos gen/Compute.vok gen/Compute.required_vos: gen/Compute.v lib/Lib.vos
gen/Tables.vo gen/Tables.glob gen/Tables.v.beautified gen/Tables.required_vo: gen/Tables.v lib/Lib.vo gen/Compute.vo
gen/Tables.vio: gen/Tables.v lib/Lib.vio gen/Compute.vio
gen/Tables.vos gen/Tables.vok gen/Tables.required_vos: gen/Tables.v lib/Lib.vos gen/Compute.vos
gen/Unfold.vo gen/Unfold.glob gen/Unfold.v.beautified gen/Unfold.required_vo: gen/Unfold.v lib/Lib.vo gen/Compute.vo gen/Tables.vo
gen/Unfold.vio: gen/Unfold.v lib/Lib.vio gen/Compute.vio gen/Tables.vio
gen/Unfold.vos gen/Unfold.vok gen/Unfold.required_vos: gen/Unfold.v lib/Lib.vos gen/Compute.vos gen/Tables.vos
proofs/C12_close.vo proofs/C12_close.glob proofs/C12_close.v.beautified proofs/C12_close.required_vo: proofs/C12_close.v lib/Lib.vo lib/RLib.vo lib/BoolLaws.vo gen/Compute.vo gen/Tables.vo gen/Unfold.vo
proofs/C12_close.vio: proofs/C12_close.v lib/Lib.vio lib/RLib.vio lib/BoolLaws.vio gen/Compute.vio gen/Tables.vio gen/Unfold.vio
proofs/C12_close.vos proofs/C12_close.vok proofs/C12_close.required_vos: proofs/C12_close.v lib/Lib.vos lib/RLib.vos lib/BoolLaws.vos gen/Compute.vos gen/Tables.vos gen/Unfold.vos
proofs/C12_eq.vo proofs/C12_eq.glob proofs/C12_eq.v.beautified proofs/C12_eq.required_vo: proofs/C12_eq.v lib/Lib.vo lib/BoolLaws.vo gen/Compute.vo gen/Tables.vo gen/Unfold.vo
proofs/C12_eq.vio: proofs/C12_eq.v lib/Lib.vio lib/BoolLaws.vio gen/Compute.vio gen/Tables.vio gen/Unfold.vio
proofs/C12_eq.vos proofs/C12_eq.vok proofs/C12_eq.required_vos: proofs/C12_eq.v lib/Lib.vos lib/BoolLaws.vos gen/Compute.vos gen/Tables.vos gen/Unfold.vos
proofs/C12_ne.vo proofs/C12_ne.glob proofs/C12_ne.v.beautified proofs/C12_ne.required_vo: proofs/C12_ne.v lib/Lib.vo lib/BoolLaws.vo gen/Compute.vo gen/Tables.vo gen/Unfold.vo proofs/C12_eq.vo
proofs/C12_ne.vio: proofs/C12_ne.v lib/Lib.vio lib/BoolLaws.vio gen/Compute.vio gen/Tables.vio gen/Unfold.vio proofs/C12_eq.vio
proofs/C12_ne.vos proofs/C12_ne.vok proofs/C12_ne.required_vos: proofs/C12_ne.v lib/Lib.vos lib/BoolLaws.vos gen/Compute.vos gen/Tables.vos gen/Unfold.vos proofs/C12_eq.vos
props/C12.vo props/C12.glob props/C12.v.beautified props/C12.required_vo: props/C12.v lib/Lib.vo lib/RLib.vo lib/BoolLaws.vo gen/Compute.vo gen/Tables.vo proofs/C12_eq.vo proofs/C12_ne.vo proofs/C12_close.vo
props/C12.vio: props/C12.v lib/Lib.vio lib/RLib.vio lib/BoolLaws.vio gen/Compute.vio gen/Tables.vio proofs/C12_eq.vio proofs/C12_ne.vio proofs/C12_close.vio
props/C12.vos props/C12.vok props/C12.required_vos: props/C12.v lib/Lib.vos lib/RLib.vos lib/BoolLaws.vos gen/Compute.vos gen/Tables.vos proofs/C12_eq.vos proofs/C12_ne.vos proofs/C12_close.vos
