(* KNOWN FINDINGS of C07, as refuted statements with computed witnesses (compiled against the regenerated table).
   Full-strength statement: every program point on which both paths return has identical outcomes (strict_agree),
   up to Python's reflected == / !=.  It is false of the faithful table: *)
From Coq Require Import ZArith List Bool.
From VP Require Import ObjModel ObjNames NbModel NbApi NbChecks.

Definition full_strength (r : nbrow) : bool := if strict_agree r then true else mem_name (row_name r) sym_ops.

Theorem C07_full_strength_refuted_flavor : existsb (fun r => negb (full_strength r) && known_flavor r) nb_tab = true.
Proof. vm_cast_no_check (eq_refl true). Qed.
Theorem C07_full_strength_refuted_numpy_power : existsb (fun r => negb (full_strength r) && known_power r) nb_tab = true.
Proof. vm_cast_no_check (eq_refl true). Qed.
(* ... and these are the only refutations (C07_every_point_agrees in props/C07.v) *)
