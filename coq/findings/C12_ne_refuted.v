(* The pinned tree's not_equal is NOT the negation of equal (it is a conjunction of !=):
   refuted on the faithful model with a concrete witness; the witness replays on the
   implementation as  vector.obj(x=1,y=2) != vector.obj(x=1,y=3)  ->  False. *)
From Coq Require Import Reals Bool Lra.
From VP Require Import Lib RLib BoolLaws Compute Tables Unfold.
Open Scope R_scope.
Lemma planar_ne_neg_refuted : exists a1 b1 a2 b2 : R,
  trres (T_planar_not_equal XY XY a1 b1 a2 b2) <> option_map negb (trres (T_planar_equal XY XY a1 b1 a2 b2)).
Proof.
  exists 1, 2, 1, 3. vunfold. runfold. cbn [trres option_map tr RBoolLaws].
  rewrite Reqb_refl. replace (Reqb 2 3) with false. cbn. congruence.
  symmetry. unfold Reqb. destruct (Req_EM_T 2 3); [lra | reflexivity].
Qed.
