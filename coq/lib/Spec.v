(* Independent meaning of coordinates and operations, written from the documentation
   (docs/index.md, method docstrings) — NOT from the code.  Geometric (Cartesian) denotation. *)
From Coq Require Import Reals Lra.
From VP Require Import Lib RLib.
Open Scope R_scope.

(* --- coordinate systems: x = rho cos phi, y = rho sin phi; z = rho cot theta = rho sinh eta;
       t = sqrt(tau^2 + |p|^2) for tau >= 0 (a stored tau denotes a non-negative time) --- *)
Definition sx (s : az) (a b : R) : R := match s with XY => a | RhoPhi => a * cos b end.
Definition sy (s : az) (a b : R) : R := match s with XY => b | RhoPhi => a * sin b end.
Definition srho (s : az) (a b : R) : R := match s with XY => sqrt (a * a + b * b) | RhoPhi => a end.
Definition sz (s : az) (l : lg) (a b c : R) : R :=
  match l with LZ => c | LTheta => srho s a b * (cos c / sin c) | LEta => srho s a b * sinh c end.
Definition smag2 (s : az) (l : lg) (a b c : R) : R :=
  sx s a b * sx s a b + sy s a b * sy s a b + sz s l a b c * sz s l a b c.
Definition st (s : az) (l : lg) (t : tm) (a b c d : R) : R :=
  match t with TT => d | TTau => sqrt (d * d + smag2 s l a b c) end.

(* storage predicates *)
Definition canon_az (s : az) (a b : R) : Prop := match s with XY => True | RhoPhi => 0 <= a end.
Definition pos_az (s : az) (a b : R) : Prop := match s with XY => 0 < a * a + b * b | RhoPhi => 0 < a end.
Definition canon_lg (l : lg) (c : R) : Prop := match l with LTheta => 0 < c < PI | _ => True end.
Definition canon_tm (t : tm) (d : R) : Prop := match t with TTau => 0 <= d | TT => True end.

(* an angle phi is a polar angle of (x, y) *)
Definition polar_angle (x y phi : R) : Prop :=
  sqrt (x * x + y * y) * cos phi = x /\ sqrt (x * x + y * y) * sin phi = y.

(* results *)
Definition den2 (r : @res RLib) : option (R * R) :=
  match r with RAz s a b | RAzN s a b => Some (sx s a b, sy s a b) | _ => None end.
Definition den3 (r : @res RLib) : option (R * R * R) :=
  match r with RAzL s l a b c | RAzLN s l a b c => Some (sx s a b, sy s a b, sz s l a b c) | _ => None end.
Definition den4 (r : @res RLib) : option (R * R * R * R) :=
  match r with RAzLT s l t a b c d => Some (sx s a b, sy s a b, sz s l a b c, st s l t a b c d) | _ => None end.
Definition numr (r : @res RLib) : option R := match r with RNum v => Some v | _ => None end.
Definition boolr (r : @res RLib) : option bool := match r with RBool v => Some v | _ => None end.
(* the declared result system of a vector-valued dispatch *)
Definition res_az (r : @res RLib) : option az :=
  match r with RAz s _ _ | RAzN s _ _ | RAzL s _ _ _ _ | RAzLN s _ _ _ _ | RAzLT s _ _ _ _ _ _ => Some s | _ => None end.
Definition res_coords2 (r : @res RLib) : option (az * R * R) :=
  match r with RAz s a b | RAzN s a b => Some (s, a, b) | _ => None end.
