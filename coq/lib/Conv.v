(* Conversion identities between longitudinal / temporal coordinate systems, over the reals. *)
From Coq Require Import Reals Lra Psatz.
From VP Require Import Lib RLib Trig.
Open Scope R_scope.

(* x / tan t = x * (cos t / sin t) for ALL t, thanks to the total inverse (/ 0 = 0) *)
Lemma inv_tan t : / tan t = cos t / sin t.
Proof.
  unfold tan, Rdiv.
  destruct (Req_dec (cos t) 0) as [Ec|Ec]; [rewrite Ec, Rinv_0, Rmult_0_r, Rinv_0; ring|].
  destruct (Req_dec (sin t) 0) as [Es|Es]; [rewrite Es, Rmult_0_l, !Rinv_0; ring|].
  field. split; assumption.
Qed.
Lemma div_tan x t : x / tan t = x * (cos t / sin t).
Proof. unfold Rdiv at 1. rewrite inv_tan. reflexivity. Qed.

(* half-angle forms used for eta <-> theta *)
Lemma sinh_expneg e : 1 / 2 * (1 / 1 - exp (- e) * exp (- e)) / exp (- e) = sinh e.
Proof.
  unfold sinh. pose proof (exp_pos (- e)) as H. pose proof (exp_pos e) as H'.
  assert (E : exp e * exp (- e) = 1) by (rewrite <- exp_plus; replace (e + - e) with 0 by ring; apply exp_0).
  apply (Rmult_eq_reg_r (exp (- e))); [|lra]. unfold Rdiv. rewrite !Rmult_assoc, Rinv_l by lra.
  rewrite Rinv_1. nra.
Qed.
Lemma cosh_expneg e : 1 / 2 * (1 / 1 + exp (- e) * exp (- e)) / exp (- e) = cosh e.
Proof.
  unfold cosh. pose proof (exp_pos (- e)) as H. pose proof (exp_pos e) as H'.
  assert (E : exp e * exp (- e) = 1) by (rewrite <- exp_plus; replace (e + - e) with 0 by ring; apply exp_0).
  apply (Rmult_eq_reg_r (exp (- e))); [|lra]. unfold Rdiv. rewrite !Rmult_assoc, Rinv_l by lra.
  rewrite Rinv_1. nra.
Qed.
Lemma cosh_pos e : 0 < cosh e.
Proof. unfold cosh. pose proof (exp_pos e). pose proof (exp_pos (- e)). lra. Qed.
Lemma cosh2_sinh2 e : cosh e * cosh e - sinh e * sinh e = 1.
Proof.
  unfold cosh, sinh.
  assert (E : exp e * exp (- e) = 1) by (rewrite <- exp_plus; replace (e + - e) with 0 by ring; apply exp_0).
  nra.
Qed.

(* theta = 2 atan (exp (-eta)):  cos theta = tanh eta, sin theta = 1 / cosh eta *)
Lemma sin_2atan u : sin (2 * atan u) = 2 * u / (1 + u * u).
Proof.
  rewrite sin_2a, sin_atan, cos_atan. unfold Rsqr.
  assert (H : 0 < 1 + u * u) by nra.
  assert (Hs : sqrt (1 + u * u) * sqrt (1 + u * u) = 1 + u * u) by (apply sqrt_sqrt; lra).
  assert (Hp : 0 < sqrt (1 + u * u)) by (apply sqrt_lt_R0; exact H).
  replace (2 * (u / sqrt (1 + u * u)) * (1 / sqrt (1 + u * u))) with (2 * u / (sqrt (1 + u * u) * sqrt (1 + u * u))) by (field; lra).
  rewrite Hs. reflexivity.
Qed.
Lemma cos_2atan' u : cos (2 * atan u) = (1 - u * u) / (1 + u * u).
Proof.
  rewrite cos_2a_cos, cos_atan. unfold Rsqr.
  assert (H : 0 < 1 + u * u) by nra.
  assert (Hs : sqrt (1 + u * u) * sqrt (1 + u * u) = 1 + u * u) by (apply sqrt_sqrt; lra).
  assert (Hp : 0 < sqrt (1 + u * u)) by (apply sqrt_lt_R0; exact H).
  replace (2 * (1 / sqrt (1 + u * u)) * (1 / sqrt (1 + u * u)) - 1)
    with (2 / (sqrt (1 + u * u) * sqrt (1 + u * u)) - 1) by (field; lra).
  rewrite Hs. field. lra.
Qed.
Lemma cot_theta_of_eta e : cos (2 * atan (exp (- e))) / sin (2 * atan (exp (- e))) = sinh e.
Proof.
  rewrite cos_2atan', sin_2atan. set (u := exp (- e)). assert (Hu : 0 < u) by apply exp_pos.
  rewrite <- sinh_expneg. fold u. field. split; nra.
Qed.
Lemma sin_theta_of_eta e : sin (2 * atan (exp (- e))) = / cosh e.
Proof.
  rewrite sin_2atan, <- cosh_expneg. set (u := exp (- e)). assert (Hu : 0 < u) by apply exp_pos.
  field. split; nra.
Qed.
Lemma cos_theta_of_eta e : cos (2 * atan (exp (- e))) = sinh e / cosh e.
Proof.
  rewrite cos_2atan', <- cosh_expneg, <- sinh_expneg. set (u := exp (- e)). assert (Hu : 0 < u) by apply exp_pos.
  field. split; nra.
Qed.

(* eta from theta: sinh (- ln (tan (theta/2))) = cos theta / sin theta on (0, PI) *)
Lemma tan_half_pos t : 0 < t < PI -> 0 < tan (1 / 2 * t).
Proof. intros H. apply tan_gt_0; lra. Qed.
Lemma sinh_eta_of_theta t : 0 < t < PI -> sinh (- ln (tan (1 / 2 * t))) = cos t / sin t.
Proof.
  intros H. pose proof (tan_half_pos t H) as Hp. unfold sinh.
  rewrite Ropp_involutive, exp_Ropp, !exp_ln by exact Hp.
  set (h := 1 / 2 * t) in *.
  assert (Hc : 0 < cos h) by (apply cos_gt_0; unfold h; lra).
  assert (Hs : 0 < sin h) by (apply sin_gt_0; unfold h; lra).
  replace t with (2 * h) by (unfold h; field).
  rewrite cos_2a, sin_2a. unfold tan. field. repeat split; lra.
Qed.

(* acos: polar decomposition of (rho, z) *)
Lemma acos_polar rho z : 0 <= rho -> 0 < rho * rho + z * z ->
  let m := sqrt (rho * rho + z * z) in m * cos (acos (z / m)) = z /\ m * sin (acos (z / m)) = rho.
Proof.
  intros Hr Hm m. assert (Hp : 0 < m) by (apply sqrt_lt_R0; exact Hm).
  assert (Hmm : m * m = rho * rho + z * z) by (apply sqrt_sqrt; lra).
  assert (Hb : -1 <= z / m <= 1).
  { assert (Rabs z <= m).
    { rewrite <- (sqrt_square (Rabs z)) by apply Rabs_pos. apply sqrt_le_1_alt. rewrite <- Rabs_mult, Rabs_right by nra. nra. }
    assert (0 < / m) by (apply Rinv_0_lt_compat; exact Hp).
    unfold Rabs in H. destruct (Rcase_abs z); split.
    - apply (Rmult_le_reg_r m); [exact Hp|]. unfold Rdiv. rewrite Rmult_assoc, Rinv_l by lra. lra.
    - apply (Rmult_le_reg_r m); [exact Hp|]. unfold Rdiv. rewrite Rmult_assoc, Rinv_l by lra. lra.
    - apply (Rmult_le_reg_r m); [exact Hp|]. unfold Rdiv. rewrite Rmult_assoc, Rinv_l by lra. lra.
    - apply (Rmult_le_reg_r m); [exact Hp|]. unfold Rdiv. rewrite Rmult_assoc, Rinv_l by lra. lra. }
  split.
  - rewrite cos_acos by exact Hb. field. lra.
  - pose proof (acos_bound (z / m)) as [Hl Hu].
    assert (Hs : 0 <= sin (acos (z / m))) by (apply sin_ge_0; lra).
    assert (Hc : cos (acos (z / m)) = z / m) by (apply cos_acos; exact Hb).
    pose proof (sin2_cos2 (acos (z / m))) as Hsc. unfold Rsqr in Hsc. rewrite Hc in Hsc.
    assert (E : (m * sin (acos (z / m))) * (m * sin (acos (z / m))) = rho * rho).
    { assert (z / m * (z / m) * (m * m) = z * z) by (field; lra). nra. }
    assert (0 <= m * sin (acos (z / m))) by nra.
    nra.
Qed.
