(* A rounding instance of the compute vocabulary: every arithmetic operation is the exact real operation followed by
   rounding to nearest-even in radix 2 with 53 significant bits and unbounded exponent (Flocq's FLX format: binary64 without
   overflow or underflow).  The generated definitions (gen/Compute.v) are polymorphic in [Lib], so the SAME definitions that the
   real-number theorems are about can be read in this instance. *)
From Coq Require Import Reals ZArith Lra Psatz.
From Flocq Require Import Core Relative.
From VP Require Import Lib RLib.
Open Scope R_scope.

Definition fexp53 := FLX_exp 53.
Definition rnd : R -> R := round radix2 fexp53 ZnearestE.
Definition u53 : R := / 2 * bpow radix2 (- (53) + 1).

(* x**2 is a multiplication for NumPy arrays (correctly rounded) but libm pow(x, 2) for the Python floats of the object backend
   (measured: differs from x*x on 0.08% of random operands), so the squaring operation is a parameter with a one-ulp contract *)
Definition sq_ok (sq : R -> R) : Prop := forall x, exists e, Rabs e <= 2 * u53 /\ sq x = x * x * (1 + e).

Definition FLib (sq : R -> R) : Lib := {|
  num := R; bln := bool; rpl := unit;
  cst n d := rnd (IZR n / IZR (Zpos d)); lpi := rnd PI; linf := 0;
  add a b := rnd (a + b); sub a b := rnd (a - b); mul a b := rnd (a * b); div a b := rnd (a / b); pmod a b := rnd (pymod a b);
  neg := Ropp; sqr := sq; powc x n d := rnd (Rpowc x n d);
  lsqrt x := rnd (sqrt x); lexp x := rnd (exp x); llog x := rnd (ln x); lsin x := rnd (sin x); lcos x := rnd (cos x); ltan x := rnd (tan x);
  lasin x := rnd (asin x); lacos x := rnd (acos x); latan x := rnd (atan x); lsinh x := rnd (sinh x); lcosh x := rnd (cosh x);
  ltanh x := rnd (tanh x); lasinh x := rnd (arcsinh x); labs := Rabs; lsign := Rsign;
  latan2 a b := rnd (atan2 a b); lcopysign := Rcopysign; lmax := Rmax; lmin := Rmin;
  nan_to_num v _ _ _ := v; r_num _ := tt; r_inf := tt; r_ninf := tt; r_nan := tt; r_none := tt;
  lisclose a b rtol atol _ := Risclose a b rtol atol;
  leq := Reqb; lne a b := negb (Reqb a b); llt := Rltb; lgt a b := Rltb b a;
  band := andb; bor := orb; bcst b := b; b2n b := if b then 1 else 0 |}.

Ltac funfold := cbv beta iota delta [num bln rpl cst lpi linf add sub mul div pmod neg sqr powc
  lsqrt lexp llog lsin lcos ltan lasin lacos latan lsinh lcosh ltanh lasinh labs lsign
  latan2 lcopysign lmax lmin nan_to_num r_num r_inf r_ninf r_nan r_none lisclose leq lne llt lgt
  band bor bcst b2n FLib].

Definition numf {sq} (r : @res (FLib sq)) : option R := match r with RNum v => Some v | _ => None end.

Lemma u53_pos : 0 < u53.
Proof. unfold u53. pose proof (bpow_gt_0 radix2 (-(53) + 1)). lra. Qed.
Lemma u53_small : u53 <= / 1000.
Proof. unfold u53. replace (bpow radix2 (- (53) + 1)) with (/ bpow radix2 52) by (symmetry; exact (bpow_opp radix2 52)).
  assert (1024 <= bpow radix2 52). { change 1024 with (bpow radix2 10). apply bpow_le. lia. }
  assert (0 < bpow radix2 52) by lra. assert (/ bpow radix2 52 <= / 1024) by (apply Rinv_le_contravar; lra). lra. Qed.

(* the standard model: rnd x = x (1 + e), |e| <= u *)
Lemma rnd_rel x : exists e, Rabs e <= u53 /\ rnd x = x * (1 + e).
Proof. unfold rnd, u53, fexp53. apply relative_error_N_FLX_ex. lia. Qed.

Lemma sq_ok_mult : sq_ok (fun x => rnd (x * x)).
Proof. intros x. destruct (rnd_rel (x * x)) as [e [B E]]. exists e. split; [pose proof u53_pos; lra | exact E]. Qed.

Lemma u53_value : u53 = / IZR (2 ^ 53).
Proof.
  unfold u53. replace (bpow radix2 (- (53) + 1)) with (/ bpow radix2 52) by (symmetry; exact (bpow_opp radix2 52)).
  rewrite <- (IZR_Zpower radix2 52) by lia. change (radix2 ^ 52)%Z with (2 ^ 52)%Z.
  change (IZR (2 ^ 53)) with (IZR (2 * 2 ^ 52)). rewrite mult_IZR.
  assert (0 < IZR (2 ^ 52)) by (apply IZR_lt; reflexivity). field. lra.
Qed.
