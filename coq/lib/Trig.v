(* Real-analysis facts about the primitives of RLib: atan2, rectify (float %), acos/asin ranges... *)
From Coq Require Import Reals Lra Lia Psatz.
From VP Require Import Lib RLib.
Open Scope R_scope.

Lemma sqrt_sq_pos x y : 0 < x -> sqrt (x*x + y*y) = x * sqrt (1 + (y/x)²).
Proof.
  intros Hx. unfold Rsqr.
  replace (x*x + y*y) with ((x*x) * (1 + y/x*(y/x))) by (field; lra).
  rewrite sqrt_mult_alt by nra. rewrite sqrt_square by lra. reflexivity.
Qed.
Lemma sqrt1p_pos u : 0 < sqrt (1 + u²).
Proof. apply sqrt_lt_R0. unfold Rsqr. nra. Qed.
Lemma atan2_cos_pos y x : 0 < x ->
  sqrt (x*x+y*y) * cos (atan (y/x)) = x /\ sqrt (x*x+y*y) * sin (atan (y/x)) = y.
Proof.
  intros Hx. rewrite sqrt_sq_pos by exact Hx. rewrite cos_atan, sin_atan.
  pose proof (sqrt1p_pos (y/x)) as Hs. split; field; lra.
Qed.

(* the polar decomposition: rho(cos, sin)(atan2 y x) = (x, y), for ALL x y (origin included) *)
Lemma atan2_polar (y x : R) :
  sqrt (x*x + y*y) * cos (atan2 y x) = x /\ sqrt (x*x + y*y) * sin (atan2 y x) = y.
Proof.
  unfold atan2.
  destruct (Rlt_dec 0 x) as [Hx|Hx].
  - apply atan2_cos_pos; exact Hx.
  - destruct (Rlt_dec x 0) as [Hx'|Hx'].
    + assert (H := atan2_cos_pos (-y) (-x) ltac:(lra)).
      replace (- x * - x + - y * - y) with (x*x+y*y) in H by ring.
      replace (- y / - x) with (y / x) in H by (field; lra).
      destruct H as [Hc Hs].
      destruct (Rle_dec 0 y).
      * rewrite cos_plus, sin_plus, cos_PI, sin_PI. split; nra.
      * unfold Rminus. rewrite cos_plus, sin_plus, cos_neg, sin_neg, cos_PI, sin_PI. split; nra.
    + assert (x = 0) by lra. subst x.
      replace (0*0 + y*y) with (y*y) by ring.
      destruct (Rlt_dec 0 y).
      * rewrite cos_PI2, sin_PI2, sqrt_square by lra. split; ring.
      * destruct (Rlt_dec y 0).
        -- replace (- PI / 2) with (- (PI/2)) by field. rewrite cos_neg, sin_neg, cos_PI2, sin_PI2.
           replace (y*y) with ((-y)*(-y)) by ring. rewrite sqrt_square by lra. split; ring.
        -- assert (y = 0) by lra. subst y. rewrite Rmult_0_l, sqrt_0. split; ring.
Qed.

Lemma atan2_range y x : - PI < atan2 y x <= PI.
Proof.
  pose proof PI_RGT_0 as HPI. pose proof (atan_bound (y / x)) as [Hl Hu].
  unfold atan2.
  destruct (Rlt_dec 0 x) as [Hx|Hx]; [lra|].
  destruct (Rlt_dec x 0) as [Hx'|Hx'].
  - destruct (Rle_dec 0 y) as [Hy|Hy].
    + (* y >= 0, x < 0: y/x <= 0 so atan <= 0 *)
      assert (y / x <= 0).
      { unfold Rdiv. assert (/ x < 0) by (apply Rinv_lt_0_compat; lra). nra. }
      assert (atan (y / x) <= 0).
      { rewrite <- atan_0. destruct (Req_dec (y/x) 0) as [E|E]; [rewrite E; lra|].
        left. apply atan_increasing. lra. }
      lra.
    + assert (0 < y / x).
      { unfold Rdiv. assert (/ x < 0) by (apply Rinv_lt_0_compat; lra). nra. }
      assert (0 < atan (y / x)) by (rewrite <- atan_0; apply atan_increasing; lra).
      lra.
  - destruct (Rlt_dec 0 y); [lra|]. destruct (Rlt_dec y 0); lra.
Qed.

(* Python's float % with positive modulus, and vector's rectify *)
Definition rectify (phi : R) := pymod (phi + PI) (2 * PI) - PI.

Lemma cos_shift_Z x (k : Z) : cos (x + 2 * IZR k * PI) = cos x /\ sin (x + 2 * IZR k * PI) = sin x.
Proof.
  destruct (Z_le_gt_dec 0 k) as [Hk|Hk].
  - assert (E : IZR k = INR (Z.to_nat k)) by (rewrite INR_IZR_INZ, Z2Nat.id by lia; reflexivity).
    rewrite E. split; [apply cos_period | apply sin_period].
  - assert (E : IZR k = - INR (Z.to_nat (-k))) by (rewrite INR_IZR_INZ, Z2Nat.id by lia; rewrite opp_IZR; ring).
    rewrite E. set (n := Z.to_nat (-k)).
    split.
    + rewrite <- (cos_period (x + 2 * - INR n * PI) n). f_equal. ring.
    + rewrite <- (sin_period (x + 2 * - INR n * PI) n). f_equal. ring.
Qed.

Lemma rectify_trig phi : cos (rectify phi) = cos phi /\ sin (rectify phi) = sin phi.
Proof.
  unfold rectify, pymod.
  set (k := Int_part ((phi + PI) / (2 * PI))).
  replace (phi + PI - 2 * PI * IZR k - PI) with (phi + 2 * IZR (-k) * PI) by (rewrite opp_IZR; ring).
  apply cos_shift_Z.
Qed.

Lemma rectify_range phi : - PI <= rectify phi < PI.
Proof.
  unfold rectify, pymod.
  pose proof PI_RGT_0 as HPI.
  set (u := (phi + PI) / (2 * PI)).
  pose proof (base_Int_part u) as [H1 H2].
  assert (phi + PI = 2 * PI * u) by (unfold u; field; lra).
  nra.
Qed.

Lemma rectify_id phi : - PI <= phi < PI -> rectify phi = phi.
Proof.
  intros [Hl Hu]. unfold rectify, pymod. pose proof PI_RGT_0 as HPI.
  set (u := (phi + PI) / (2 * PI)).
  assert (Hu0 : 0 <= u < 1).
  { unfold u. split.
    - apply Rmult_le_pos; [lra | left; apply Rinv_0_lt_compat; lra].
    - apply (Rmult_lt_reg_r (2 * PI)); [lra|]. unfold Rdiv. rewrite Rmult_assoc, Rinv_l by lra. lra. }
  assert (Int_part u = 0%Z).
  { unfold Int_part. rewrite <- (tech_up u 1%Z); [reflexivity | simpl; lra | simpl; lra]. }
  rewrite H. simpl. ring.
Qed.

(* 2 atan (exp (-eta)) lies strictly between 0 and PI *)
Lemma theta_of_eta_range eta : 0 < 2 * atan (exp (- eta)) < PI.
Proof.
  pose proof (exp_pos (- eta)) as He. pose proof (atan_bound (exp (- eta))) as [_ Hu].
  assert (0 < atan (exp (- eta))) by (rewrite <- atan_0; apply atan_increasing; exact He).
  lra.
Qed.

Lemma Rmax_0_nonneg a : 0 <= Rmax a 0.
Proof. apply Rmax_r. Qed.

Lemma Rcopysign_neg_iff a b : a <> 0 -> (Rcopysign a b < 0 <-> b < 0).
Proof.
  intros Ha. unfold Rcopysign. pose proof (Rabs_pos_lt a Ha).
  destruct (Rlt_dec b 0); split; intros; lra.
Qed.
Lemma Rcopysign_sq a : Rcopysign a a = a.
Proof.
  unfold Rcopysign. destruct (Rlt_dec a 0).
  - rewrite Rabs_left by lra. ring.
  - rewrite Rabs_right by lra. reflexivity.
Qed.
