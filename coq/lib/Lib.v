(* The carrier-polymorphic vocabulary of vector's compute layer.
   Every generated definition lives in a Section over [Lib]. *)
From Coq Require Import ZArith.

Class Lib := {
  num : Type; bln : Type; rpl : Type;
  cst : Z -> positive -> num;          (* exact rational literal n/d (float.as_integer_ratio) *)
  lpi : num; linf : num;
  add : num -> num -> num; sub : num -> num -> num; mul : num -> num -> num;
  div : num -> num -> num; pmod : num -> num -> num;
  neg : num -> num; sqr : num -> num; powc : num -> Z -> positive -> num;
  lsqrt : num -> num; lexp : num -> num; llog : num -> num;
  lsin : num -> num; lcos : num -> num; ltan : num -> num;
  lasin : num -> num; lacos : num -> num; latan : num -> num;
  lsinh : num -> num; lcosh : num -> num; ltanh : num -> num; lasinh : num -> num;
  labs : num -> num; lsign : num -> num;
  latan2 : num -> num -> num; lcopysign : num -> num -> num;
  lmax : num -> num -> num; lmin : num -> num -> num;
  nan_to_num : num -> rpl -> rpl -> rpl -> num;
  r_num : num -> rpl; r_inf : rpl; r_ninf : rpl; r_nan : rpl; r_none : rpl;
  lisclose : num -> num -> num -> num -> bln -> bln;
  leq : num -> num -> bln; lne : num -> num -> bln; llt : num -> num -> bln; lgt : num -> num -> bln;
  band : bln -> bln -> bln; bor : bln -> bln -> bln; bcst : bool -> bln; b2n : bln -> num }.

Definition prj2_0 {A B} (p : A * B) := fst p.
Definition prj2_1 {A B} (p : A * B) := snd p.
Definition prj3_0 {A B C} (p : A * B * C) := fst (fst p).
Definition prj3_1 {A B C} (p : A * B * C) := snd (fst p).
Definition prj3_2 {A B C} (p : A * B * C) := snd p.
Definition prj4_0 {A B C D} (p : A * B * C * D) := fst (fst (fst p)).
Definition prj4_1 {A B C D} (p : A * B * C * D) := snd (fst (fst p)).
Definition prj4_2 {A B C D} (p : A * B * C * D) := snd (fst p).
Definition prj4_3 {A B C D} (p : A * B * C * D) := snd p.

(* coordinate-system tags *)
Inductive az := XY | RhoPhi.
Inductive lg := LZ | LTheta | LEta.
Inductive tm := TT | TTau.
Inductive eorder := E_xzx | E_xyx | E_yxy | E_yzy | E_zyz | E_zxz
                  | E_xzy | E_xyz | E_yxz | E_yzx | E_zyx | E_zxy.

(* the raw result of a dispatch: value(s) tagged with the declared [returns] shape *)
Inductive res {L : Lib} :=
| RNum (v : num) | RBool (b : bln)
| RAz (s : az) (a b : num)                                (* [az]            *)
| RAzN (s : az) (a b : num)                               (* [az, None]      *)
| RAzL (s : az) (l : lg) (a b c : num)                    (* [az, lg]        *)
| RAzLN (s : az) (l : lg) (a b c : num)                   (* [az, lg, None]  *)
| RAzLT (s : az) (l : lg) (t : tm) (a b c d : num)        (* [az, lg, tm]    *)
| RMissing                                                (* no dispatch_map entry *)
| RBad.                                                   (* entry whose arity/returns do not fit *)

Definition az_eqb (a b : az) := match a, b with XY, XY | RhoPhi, RhoPhi => true | _, _ => false end.
Definition lg_eqb (a b : lg) := match a, b with LZ, LZ | LTheta, LTheta | LEta, LEta => true | _, _ => false end.
Definition tm_eqb (a b : tm) := match a, b with TT, TT | TTau, TTau => true | _, _ => false end.
Definition all_az := (XY :: RhoPhi :: nil)%list.
Definition all_lg := (LZ :: LTheta :: LEta :: nil)%list.
Definition all_tm := (TT :: TTau :: nil)%list.
Definition all_eorder := (E_xzx :: E_xyx :: E_yxy :: E_yzy :: E_zyz :: E_zxz
  :: E_xzy :: E_xyz :: E_yxz :: E_yzx :: E_zyx :: E_zxy :: nil)%list.
