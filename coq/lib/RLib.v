(* Real-number semantics of the vocabulary. Nothing is axiomatised here. *)
From Coq Require Import Reals ZArith Lra.
From VP Require Import Lib.
Open Scope R_scope.

Definition atan2 (y x : R) : R :=
  if Rlt_dec 0 x then atan (y / x)
  else if Rlt_dec x 0 then (if Rle_dec 0 y then atan (y / x) + PI else atan (y / x) - PI)
  else if Rlt_dec 0 y then PI / 2 else if Rlt_dec y 0 then - PI / 2 else 0.
Definition pymod (x m : R) : R := x - m * IZR (Int_part (x / m)).
Definition Rsign (x : R) : R := if Rlt_dec 0 x then 1 else if Rlt_dec x 0 then -1 else 0.
Definition Rcopysign (a b : R) : R := if Rlt_dec b 0 then - Rabs a else Rabs a.
Definition Rpowc (x : R) (n : Z) (d : positive) : R :=
  match n, d with
  | (-1)%Z, 2%positive => / sqrt x
  | 1%Z, 2%positive => sqrt x
  | _, _ => 0 end.
Definition Rltb a b := if Rlt_dec a b then true else false.
Definition Reqb a b := if Req_EM_T a b then true else false.
Definition Rleb a b := if Rle_dec a b then true else false.
Definition Risclose (a b rtol atol : R) := Rleb (Rabs (a - b)) (atol + rtol * Rabs b).

#[export] Instance RLib : Lib := {|
  num := R; bln := bool; rpl := unit;
  cst n d := IZR n / IZR (Zpos d); lpi := PI; linf := 0;
  add := Rplus; sub := Rminus; mul := Rmult; div := Rdiv; pmod := pymod;
  neg := Ropp; sqr x := x * x; powc := Rpowc;
  lsqrt := sqrt; lexp := exp; llog := ln; lsin := sin; lcos := cos; ltan := tan;
  lasin := asin; lacos := acos; latan := atan; lsinh := sinh; lcosh := cosh; ltanh := tanh;
  lasinh := arcsinh; labs := Rabs; lsign := Rsign;
  latan2 := atan2; lcopysign := Rcopysign; lmax := Rmax; lmin := Rmin;
  nan_to_num v _ _ _ := v; r_num _ := tt; r_inf := tt; r_ninf := tt; r_nan := tt; r_none := tt;
  lisclose a b rtol atol _ := Risclose a b rtol atol;
  leq := Reqb; lne a b := negb (Reqb a b); llt := Rltb; lgt a b := Rltb b a;
  band := andb; bor := orb; bcst b := b; b2n b := if b then 1 else 0 |}.

(* unfold the RLib instance down to stdlib real operations *)
Ltac runfold := cbv beta iota delta [num bln rpl cst lpi linf add sub mul div pmod neg sqr powc
  lsqrt lexp llog lsin lcos ltan lasin lacos latan lsinh lcosh ltanh lasinh labs lsign
  latan2 lcopysign lmax lmin nan_to_num r_num r_inf r_ninf r_nan r_none lisclose leq lne llt lgt
  band bor bcst b2n RLib].
Ltac runfold_in H := cbv beta iota delta [num bln rpl cst lpi linf add sub mul div pmod neg sqr powc
  lsqrt lexp llog lsin lcos ltan lasin lacos latan lsinh lcosh ltanh lasinh labs lsign
  latan2 lcopysign lmax lmin nan_to_num r_num r_inf r_ninf r_nan r_none lisclose leq lne llt lgt
  band bor bcst b2n RLib] in H.

Lemma Reqb_true a b : Reqb a b = true <-> a = b.
Proof. unfold Reqb; destruct (Req_EM_T a b); split; congruence. Qed.
Lemma Reqb_refl a : Reqb a a = true.
Proof. apply Reqb_true; reflexivity. Qed.
Lemma Rltb_true a b : Rltb a b = true <-> a < b.
Proof. unfold Rltb; destruct (Rlt_dec a b); split; (congruence || tauto). Qed.
Lemma Rltb_false a b : Rltb a b = false <-> b <= a.
Proof. unfold Rltb; destruct (Rlt_dec a b); split; try congruence; lra. Qed.
Lemma Rleb_true a b : Rleb a b = true <-> a <= b.
Proof. unfold Rleb; destruct (Rle_dec a b); split; (congruence || tauto). Qed.
Lemma Risclose_true a b rtol atol : Risclose a b rtol atol = true <-> Rabs (a - b) <= atol + rtol * Rabs b.
Proof. apply Rleb_true. Qed.
Lemma Risclose_refl a rtol atol : 0 <= rtol -> 0 <= atol -> Risclose a a rtol atol = true.
Proof.
  intros Hr Ha. apply Risclose_true. replace (a - a) with 0 by ring. rewrite Rabs_R0.
  pose proof (Rabs_pos a). nra.
Qed.
Lemma Risclose_mono a b r1 a1 r2 a2 : r1 <= r2 -> a1 <= a2 ->
  Risclose a b r1 a1 = true -> Risclose a b r2 a2 = true.
Proof.
  intros Hr Ha H. apply Risclose_true in H. apply Risclose_true.
  pose proof (Rabs_pos b). nra.
Qed.
