(* Carriers whose comparisons behave like a decidable equivalence: the reals, and any
   NaN-free number type (== on IEEE floats restricted to non-NaN values is an equivalence). *)
From Coq Require Import Bool Setoid Reals.
From VP Require Import Lib RLib.

Class BoolLaws (L : Lib) := {
  tr : bln -> bool;
  eqv : num -> num -> Prop;
  eqv_refl : forall a, eqv a a;
  eqv_sym : forall a b, eqv a b -> eqv b a;
  leq_spec : forall a b, tr (leq a b) = true <-> eqv a b;
  lne_spec : forall a b, tr (lne a b) = negb (tr (leq a b));
  band_spec : forall a b, tr (band a b) = andb (tr a) (tr b);
  bor_spec : forall a b, tr (bor a b) = orb (tr a) (tr b) }.

Section Laws.
Context {L : Lib} {BL : BoolLaws L}.
Lemma leq_refl a : tr (leq a a) = true.
Proof. apply leq_spec, eqv_refl. Qed.
Lemma leq_comm a b : tr (leq a b) = tr (leq b a).
Proof.
  destruct (tr (leq a b)) eqn:E1, (tr (leq b a)) eqn:E2; try reflexivity.
  - apply leq_spec, eqv_sym, leq_spec in E1. congruence.
  - apply leq_spec, eqv_sym, leq_spec in E2. congruence.
Qed.
Definition trres (r : res) : option bool := match r with RBool b => Some (tr b) | _ => None end.
End Laws.

#[export] Program Instance RBoolLaws : BoolLaws RLib := {| tr b := b; eqv := @eq R |}.
Next Obligation. unfold Reqb; destruct (Req_EM_T a b); split; congruence. Qed.
