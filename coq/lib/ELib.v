(* Deep embedding: one constructor per primitive of the vocabulary.  [f (L:=ELib) (EVar 0) ...] evaluates (vm_compute)
   to the fully inlined expression tree of the generated definition f.  Two semantics of a tree:
   evalR (the numeric reading, = RLib) and eval_sym (what vector's SympyLib builds: nan_to_num is the identity,
   maximum/minimum return their first symbolic argument, copysign returns its first argument). *)
From Coq Require Import Reals ZArith List Bool Lra.
From VP Require Import Lib RLib.
Open Scope R_scope.

Inductive unop := USqrt | UExp | ULog | USin | UCos | UTan | UAsin | UAcos | UAtan | USinh | UCosh | UTanh | UAsinh | UAbs | USign | UNeg | USqr.
Inductive binop := BAdd | BSub | BMul | BDiv | BMod | BAtan2 | BCopysign | BMax | BMin.
Inductive cmpop := CEq | CNe | CLt | CGt.
Inductive expr :=
| EVar (n : nat) | ECst (n : Z) (d : positive) | EPi | EInf
| EUn (o : unop) (a : expr) | EBin (o : binop) (a b : expr) | EPow (a : expr) (n : Z) (d : positive)
| ENanToNum (v nan posinf neginf : expr) | ERNum (a : expr) | ERInf | ERNinf | ERNan | ERNone
| EIsclose (a b rtol atol en : expr) | ECmp (o : cmpop) (a b : expr) | EAnd (a b : expr) | EOr (a b : expr) | EBCst (b : bool) | EB2N (a : expr).

#[export] Instance ELib : Lib := {|
  num := expr; bln := expr; rpl := expr;
  cst := ECst; lpi := EPi; linf := EInf;
  add := EBin BAdd; sub := EBin BSub; mul := EBin BMul; div := EBin BDiv; pmod := EBin BMod;
  neg := EUn UNeg; sqr := EUn USqr; powc := EPow;
  lsqrt := EUn USqrt; lexp := EUn UExp; llog := EUn ULog; lsin := EUn USin; lcos := EUn UCos; ltan := EUn UTan;
  lasin := EUn UAsin; lacos := EUn UAcos; latan := EUn UAtan; lsinh := EUn USinh; lcosh := EUn UCosh; ltanh := EUn UTanh;
  lasinh := EUn UAsinh; labs := EUn UAbs; lsign := EUn USign;
  latan2 := EBin BAtan2; lcopysign := EBin BCopysign; lmax := EBin BMax; lmin := EBin BMin;
  nan_to_num := ENanToNum; r_num := ERNum; r_inf := ERInf; r_ninf := ERNinf; r_nan := ERNan; r_none := ERNone;
  lisclose := EIsclose; leq := ECmp CEq; lne := ECmp CNe; llt := ECmp CLt; lgt := ECmp CGt;
  band := EAnd; bor := EOr; bcst := EBCst; b2n := EB2N |}.

Definition un_sem (o : unop) : R -> R :=
  match o with USqrt => sqrt | UExp => exp | ULog => ln | USin => sin | UCos => cos | UTan => tan | UAsin => asin | UAcos => acos
             | UAtan => atan | USinh => sinh | UCosh => cosh | UTanh => tanh | UAsinh => arcsinh | UAbs => Rabs | USign => Rsign
             | UNeg => Ropp | USqr => fun x => x * x end.
Definition bin_sem (o : binop) : R -> R -> R :=
  match o with BAdd => Rplus | BSub => Rminus | BMul => Rmult | BDiv => Rdiv | BMod => pymod | BAtan2 => atan2
             | BCopysign => Rcopysign | BMax => Rmax | BMin => Rmin end.

(* numeric reading of a NUMBER-valued tree (boolean / replacement sub-trees are never reached: nan_to_num v _ _ _ = v) *)
Fixpoint evalR (rho : nat -> R) (e : expr) : R :=
  match e with
  | EVar n => rho n | ECst n d => IZR n / IZR (Zpos d) | EPi => PI
  | EUn o a => un_sem o (evalR rho a) | EBin o a b => bin_sem o (evalR rho a) (evalR rho b)
  | EPow a n d => Rpowc (evalR rho a) n d
  | ENanToNum v _ _ _ => evalR rho v
  | _ => 0 end.

(* a Python literal is not a sympy.Expr: SympyLib.maximum(val1, val2) returns val1 if it is symbolic, else val2 *)
Definition is_literal (e : expr) : bool := match e with ECst _ _ => true | _ => false end.
Fixpoint eval_sym (rho : nat -> R) (e : expr) : R :=
  match e with
  | EVar n => rho n | ECst n d => IZR n / IZR (Zpos d) | EPi => PI
  | EBin BMax a b | EBin BMin a b => if is_literal a then eval_sym rho b else eval_sym rho a
  | EBin BCopysign a _ => eval_sym rho a
  | EUn o a => un_sem o (eval_sym rho a) | EBin o a b => bin_sem o (eval_sym rho a) (eval_sym rho b)
  | EPow a n d => Rpowc (eval_sym rho a) n d
  | ENanToNum v _ _ _ => eval_sym rho v
  | _ => 0 end.

(* the regular domain, DERIVED from the computation: every dropped clamp is inactive, every dropped copysign is a no-op *)
Fixpoint regular (rho : nat -> R) (e : expr) : Prop :=
  match e with
  | EBin BMax a b => regular rho a /\ regular rho b /\
      (if is_literal a then evalR rho a <= evalR rho b else evalR rho b <= evalR rho a)
  | EBin BMin a b => regular rho a /\ regular rho b /\
      (if is_literal a then evalR rho b <= evalR rho a else evalR rho a <= evalR rho b)
  | EBin BCopysign a b => regular rho a /\ Rcopysign (evalR rho a) (evalR rho b) = evalR rho a
  | EUn _ a => regular rho a | EBin _ a b => regular rho a /\ regular rho b
  | EPow a _ _ => regular rho a | ENanToNum v _ _ _ => regular rho v
  | _ => True end.

Theorem sym_agrees_on_regular_domain rho e : regular rho e -> eval_sym rho e = evalR rho e.
Proof.
  induction e as [n|n d| | |o a IH|o a IHa b IHb|a IH n d|v IH na _ pi _ ni _|a _| | | | |a _ b _ r _ t _ en _|o a _ b _|a _ b _|a _ b _|b|a _];
    cbn [regular]; intros H; try reflexivity.
  - cbn [eval_sym evalR]. rewrite IH by exact H. reflexivity.
  - destruct o; cbn [regular] in H; cbn [eval_sym evalR bin_sem];
      try (destruct H as [Ha Hb]; rewrite IHa, IHb by assumption; reflexivity).
    + destruct H as [Ha Hc]. rewrite IHa by exact Ha. symmetry. exact Hc.
    + destruct H as [Ha [Hb Hc]]. destruct (is_literal a).
      * rewrite IHb by exact Hb. symmetry. apply Rmax_right. exact Hc.
      * rewrite IHa by exact Ha. symmetry. apply Rmax_left. exact Hc.
    + destruct H as [Ha [Hb Hc]]. destruct (is_literal a).
      * rewrite IHb by exact Hb. symmetry. apply Rmin_right. exact Hc.
      * rewrite IHa by exact Ha. symmetry. apply Rmin_left. exact Hc.
  - cbn [eval_sym evalR]. rewrite IH by exact H. reflexivity.
  - cbn [eval_sym evalR]. apply IH. exact H.
Qed.

Ltac eunfold := cbv beta iota delta [num bln rpl cst lpi linf add sub mul div pmod neg sqr powc
  lsqrt lexp llog lsin lcos ltan lasin lacos latan lsinh lcosh ltanh lasinh labs lsign
  latan2 lcopysign lmax lmin nan_to_num r_num r_inf r_ninf r_nan r_none lisclose leq lne llt lgt
  band bor bcst b2n ELib].
