(* The trivial carrier: every value is tt.  Used to evaluate the SHAPE of dispatch tables (which entry exists, which
   declared return shape it has) independently of any number. *)
From Coq Require Import ZArith.
From VP Require Import Lib.
#[export] Instance ULib : Lib := {|
  num := unit; bln := unit; rpl := unit;
  cst _ _ := tt; lpi := tt; linf := tt;
  add _ _ := tt; sub _ _ := tt; mul _ _ := tt; div _ _ := tt; pmod _ _ := tt; neg _ := tt; sqr _ := tt; powc _ _ _ := tt;
  lsqrt _ := tt; lexp _ := tt; llog _ := tt; lsin _ := tt; lcos _ := tt; ltan _ := tt; lasin _ := tt; lacos _ := tt; latan _ := tt;
  lsinh _ := tt; lcosh _ := tt; ltanh _ := tt; lasinh _ := tt; labs _ := tt; lsign _ := tt;
  latan2 _ _ := tt; lcopysign _ _ := tt; lmax _ _ := tt; lmin _ _ := tt;
  nan_to_num _ _ _ _ := tt; r_num _ := tt; r_inf := tt; r_ninf := tt; r_nan := tt; r_none := tt;
  lisclose _ _ _ _ _ := tt; leq _ _ := tt; lne _ _ := tt; llt _ _ := tt; lgt _ _ := tt;
  band _ _ := tt; bor _ _ := tt; bcst _ := tt; b2n _ := tt |}.
(* shape of a result: which constructor, with which declared systems *)
Inductive shape := ShNum | ShBool | ShAz (s : az) | ShAzN (s : az) | ShAzL (s : az) (l : lg) | ShAzLN (s : az) (l : lg)
                 | ShAzLT (s : az) (l : lg) (t : tm) | ShMissing | ShBad.
Definition shape_of (r : @res ULib) : shape :=
  match r with RNum _ => ShNum | RBool _ => ShBool | RAz s _ _ => ShAz s | RAzN s _ _ => ShAzN s | RAzL s l _ _ _ => ShAzL s l
             | RAzLN s l _ _ _ => ShAzLN s l | RAzLT s l t _ _ _ _ => ShAzLT s l t | RMissing => ShMissing | RBad => ShBad end.
Definition shape_ok (r : @res ULib) : bool := match r with RMissing | RBad => false | _ => true end.
